"""Generators for the binding layer: class universes, instances, documents
and document mutations.  Everything derives from the `rng` passed in."""
from __future__ import annotations

import copy
import io
import json

import bindlib as B

NAMESPACES = [None, None, "urn:a", "urn:b", "http://example.com/ns"]
WORDS = ["", "a", "b c", " pad ", "x<y&z", 'q"uote', "é名", "0", "1", "true", "-7", "tail", "\n", "  ", "a\tb", "ns:val", "{urn:a}q"]
NAMES = ["a", "b", "c", "item", "value", "x1", "id", "Name", "el-1", "el.2", "_u"]


def rstr(rng, kind="any"):
    r = rng.random()
    if kind == "token":
        return rng.choice(["a", "b", "tok", "x1", "é", "0"])
    if r < 0.6:
        return rng.choice(WORDS)
    n = rng.randint(1, 6)
    return "".join(rng.choice("abcXYZ 01<&\"'é\n\t") for _ in range(n))


def rint(rng):
    r = rng.random()
    if r < 0.5:
        return rng.randint(-5, 20)
    return rng.choice([0, 1, -1, 32767, 32768, -32769, 2**31, 2**63, -(2**63) - 1, 10**25])


def rprim(rng, t, kind="any"):
    if t == "str":
        return rstr(rng, kind)
    if t == "int":
        return rint(rng)
    if t == "bool":
        return rng.random() < 0.5
    if t == "qname":
        ns = rng.choice(["urn:a", "urn:q", None])
        from xml.etree.ElementTree import QName

        return QName(ns, rng.choice(["n1", "n2"])) if ns else QName(rng.choice(["n1", "n2"]))
    raise ValueError(t)


# --------------------------------------------------------------------------
# universes
# --------------------------------------------------------------------------
def gen_universe_desc(rng, features=None):
    """A random class universe. `features` restricts the field kinds (set of strings)."""
    feats = features or {
        "attr", "elem", "text", "child", "list", "nillable", "tokens", "wildcard", "attributes", "wrapper",
        "sequence", "inherit", "anytype", "ns", "mixed", "fixed", "compound", "qname",
    }
    classes = []
    n_leaf = rng.randint(1, 2)
    names = []
    for i in range(n_leaf):
        classes.append(gen_class(rng, f"Leaf{i}", [], feats, leaf=True))
        names.append(f"Leaf{i}")
    if "inherit" in feats and rng.random() < 0.5:
        base = rng.choice(names)
        sub = {
            "name": base + "Ext",
            "bases": [base],
            "fields": [
                {"name": "extra", "type": {"opt": "str"}, "metadata": {"type": "Element"}, "default": {"value": None}}
            ],
        }
        bm = next(c for c in classes if c["name"] == base).get("meta")
        if bm and "namespace" in bm:
            sub["meta"] = {"namespace": bm["namespace"]}
        classes.append(sub)
        names.append(base + "Ext")
        if rng.random() < 0.5:
            # two levels below the declared type: xsi:type lookup has to walk the whole MRO
            sub2 = {
                "name": base + "Ext2",
                "bases": [base + "Ext"],
                "fields": [
                    {"name": "extra2", "type": {"opt": "str"},
                     "metadata": {"type": rng.choice(["Element", "Attribute"])}, "default": {"value": None}}
                ],
            }
            if "meta" in sub:
                sub2["meta"] = dict(sub["meta"])
            classes.append(sub2)
            names.append(base + "Ext2")
    n_mid = rng.randint(0, 1)
    for i in range(n_mid):
        classes.append(gen_class(rng, f"Mid{i}", list(names), feats))
        names.append(f"Mid{i}")
    classes.append(gen_class(rng, "Root", list(names), feats, root=True))
    return {"classes": classes}


def gen_class(rng, name, refs, feats, leaf=False, root=False):
    flds = []
    used = set()
    meta = {}
    if "ns" in feats and rng.random() < 0.6:
        ns = rng.choice(NAMESPACES)
        if ns:
            meta["namespace"] = ns
    if rng.random() < 0.2:
        meta["name"] = name.lower() + "-el"
    if "nillable" in feats and rng.random() < 0.1:
        meta["nillable"] = True

    def fname():
        for _ in range(50):
            n = rng.choice(["a", "b", "c", "d", "e", "f", "g", "h", "k", "m"]) + rng.choice(["", "", "1", "_x"])
            if n not in used:
                used.add(n)
                return n
        n = f"z{len(used)}"
        used.add(n)
        return n

    nf = rng.randint(1, 5)
    # a Text field only makes sense in a class without child elements (simple content)
    simple_content = "text" in feats and rng.random() < 0.3
    if simple_content:
        feats = {f for f in feats if f in ("attr", "text", "attributes", "ns", "tokens", "fixed", "qname", "nillable")}
    else:
        feats = {f for f in feats if f != "text"}
    has_text = False
    has_wild = False
    seq = None
    for _ in range(nf):
        kinds = []
        if "attr" in feats:
            kinds += ["attr"] * 2
        if "elem" in feats:
            kinds += ["elem"] * 3
        if "text" in feats and not has_text:
            kinds += ["text"]
        if "child" in feats and refs:
            kinds += ["child"] * 2
        if "wildcard" in feats and not has_wild:
            kinds += ["wildcard"]
        if "attributes" in feats:
            kinds += ["attributes"]
        if "anytype" in feats:
            kinds += ["anytype"]
        if "compound" in feats and refs:
            kinds += ["compound"]
        if "union" in feats and refs:
            kinds += ["union"] * 3
        if "punion" in feats:
            kinds += ["punion"]
        if "qelem" in feats:
            kinds += ["qelem"]
        k = rng.choice(kinds)
        n = fname()
        md = {}
        if rng.random() < 0.3:
            md["name"] = rng.choice(NAMES) + n
        if "ns" in feats and rng.random() < 0.25 and k in ("attr", "elem"):
            md["namespace"] = rng.choice(["urn:f", "", "urn:a"])
        pt = rng.choice(["str", "str", "int", "bool"] + (["qname"] if "qname" in feats else []))
        if k == "attr":
            md["type"] = "Attribute"
            r = rng.random()
            if r < 0.5:
                flds.append({"name": n, "type": {"opt": pt}, "metadata": md, "default": {"value": None}})
            elif r < 0.75:
                dv = {"str": "dflt", "int": 7, "bool": False, "qname": None}[pt]
                if dv is None:
                    flds.append({"name": n, "type": {"opt": pt}, "metadata": md, "default": {"value": None}})
                else:
                    flds.append({"name": n, "type": pt, "metadata": md, "default": {"value": dv}})
            elif r < 0.85 and "tokens" in feats:
                md["tokens"] = True
                flds.append({"name": n, "type": {"list": pt}, "metadata": md, "default": {"factory": "list"}})
            elif r < 0.92 and "fixed" in feats and pt != "qname":
                dv = {"str": "fix", "int": 3, "bool": True}[pt]
                flds.append({"name": n, "type": pt, "metadata": md, "default": {"value": dv}, "init": False})
            else:
                md["required"] = True
                flds.append({"name": n, "type": pt, "metadata": md})
        elif k == "qelem":
            # a QName-typed element (optional or list): the value is written with a generated prefix
            md["type"] = "Element"
            if "list" in feats and rng.random() < 0.5:
                if "wrapper" in feats and rng.random() < 0.4:
                    md["wrapper"] = "wrap" + n   # the prefix of an item is declared below the wrapper element
                flds.append({"name": n, "type": {"list": "qname"}, "metadata": md, "default": {"factory": "list"}})
            else:
                flds.append({"name": n, "type": {"opt": "qname"}, "metadata": md, "default": {"value": None}})
        elif k == "punion":
            # an element whose type is a union of primitives (one PrimitiveNode, the converter tries the types in turn)
            md["type"] = "Element"
            ut = {"union": rng.choice([["int", "str"], ["bool", "str"], ["int", "bool"], ["int", "bool", "str"]])}
            if "list" in feats and rng.random() < 0.5:
                flds.append({"name": n, "type": {"list": ut}, "metadata": md, "default": {"factory": "list"}})
            else:
                flds.append({"name": n, "type": {"opt": ut}, "metadata": md, "default": {"value": None}})
        elif k == "elem":
            md["type"] = "Element"
            r = rng.random()
            if "sequence" in feats and rng.random() < 0.25:
                seq = seq or rng.randint(1, 2)
                md["sequence"] = seq
            if r < 0.35:
                if "nillable" in feats and rng.random() < 0.3:
                    md["nillable"] = True
                flds.append({"name": n, "type": {"opt": pt}, "metadata": md, "default": {"value": None}})
            elif r < 0.6 and "list" in feats:
                if "wrapper" in feats and rng.random() < 0.25 and "sequence" not in md:
                    md["wrapper"] = "wrap" + n
                if "nillable" in feats and rng.random() < 0.15:
                    md["nillable"] = True
                flds.append({"name": n, "type": {"list": pt}, "metadata": md, "default": {"factory": "list"}})
            elif r < 0.72 and "tokens" in feats:
                md["tokens"] = True
                md.pop("sequence", None)  # tokens + sequence crashes the serializer (known finding)
                flds.append({"name": n, "type": {"list": pt}, "metadata": md, "default": {"factory": "list"}})
            elif r < 0.85:
                md["required"] = True
                flds.append({"name": n, "type": pt, "metadata": md})
            else:
                dv = {"str": "ed", "int": 1, "bool": True, "qname": None}[pt]
                if dv is None:
                    flds.append({"name": n, "type": {"opt": pt}, "metadata": md, "default": {"value": None}})
                else:
                    flds.append({"name": n, "type": pt, "metadata": md, "default": {"value": dv}})
        elif k == "text":
            has_text = True
            if rng.random() < 0.5:
                flds.append({"name": n, "type": {"opt": pt}, "metadata": {}, "default": {"value": None}})
            else:
                flds.append({"name": n, "type": pt, "metadata": {"type": "Text"}, "default": {"value": {"str": "", "int": 0, "bool": False, "qname": None}[pt]}
                             if pt != "qname" else {"value": None}})
                if pt == "qname":
                    flds[-1]["type"] = {"opt": "qname"}
        elif k == "child":
            md["type"] = "Element"
            ref = rng.choice(refs)
            r = rng.random()
            if "sequence" in feats and rng.random() < 0.2:
                seq = seq or rng.randint(1, 2)
                md["sequence"] = seq
            if r < 0.45:
                if "nillable" in feats and rng.random() < 0.2:
                    md["nillable"] = True
                flds.append({"name": n, "type": {"opt": {"cls": ref}}, "metadata": md, "default": {"value": None}})
            elif r < 0.85 and "list" in feats:
                if "wrapper" in feats and rng.random() < 0.2 and "sequence" not in md:
                    md["wrapper"] = "wrap" + n
                flds.append({"name": n, "type": {"list": {"cls": ref}}, "metadata": md, "default": {"factory": "list"}})
            else:
                flds.append({"name": n, "type": {"cls": ref}, "metadata": md})
        elif k == "union":
            # a field whose type is a union with at least one class (handled by UnionNode):
            # class | class, class | primitive(s)
            md["type"] = "Element"
            members = [{"cls": rng.choice(refs)}]
            for _ in range(rng.randint(1, 2)):
                m = rng.choice([{"cls": rng.choice(refs)}, "int", "str", "bool", "int", {"cls": rng.choice(refs)}])
                if m not in members:
                    members.append(m)
            if len(members) < 2:
                members.append(rng.choice(["int", "str"]))
            rng.shuffle(members)
            ut = {"union": members}
            r = rng.random()
            if r < 0.45:
                flds.append({"name": n, "type": {"opt": ut}, "metadata": md, "default": {"value": None}})
            elif r < 0.8 and "list" in feats:
                flds.append({"name": n, "type": {"list": ut}, "metadata": md, "default": {"factory": "list"}})
            else:
                flds.append({"name": n, "type": ut, "metadata": md})
        elif k == "wildcard":
            has_wild = True
            md = {"type": "Wildcard", "namespace": rng.choice(["##any", "##other", "##any", "##local", "##targetNamespace"])}
            if "mixed" in feats and rng.random() < 0.25:
                md["mixed"] = True
                flds.append({"name": n, "type": {"list": "object"}, "metadata": md, "default": {"factory": "list"}})
            elif rng.random() < 0.6:
                flds.append({"name": n, "type": {"list": "object"}, "metadata": md, "default": {"factory": "list"}})
            else:
                flds.append({"name": n, "type": {"opt": "object"}, "metadata": md, "default": {"value": None}})
        elif k == "attributes":
            if any(f["metadata"].get("type") == "Attributes" for f in flds):
                continue
            flds.append({"name": n, "type": {"dict": 1}, "metadata": {"type": "Attributes", "namespace": rng.choice(["##any", "##other", "##any"])},
                         "default": {"factory": "dict"}})
        elif k == "anytype":
            md["type"] = "Element"
            if rng.random() < 0.5:
                flds.append({"name": n, "type": {"opt": "object"}, "metadata": md, "default": {"value": None}})
            else:
                flds.append({"name": n, "type": {"list": "object"}, "metadata": md, "default": {"factory": "list"}})
        elif k == "compound":
            ref = rng.choice(refs)
            ch = [
                {"name": "ch" + n + "s", "type": "str"},
                {"name": "ch" + n + "i", "type": "int"},
                {"name": "ch" + n + "c", "type": {"cls": ref}},
            ]
            rng.shuffle(ch)
            ch = ch[: rng.randint(2, 3)]
            flds.append({"name": n, "type": {"list": "object"}, "metadata": {"type": "Elements", "choices": ch}, "default": {"factory": "list"}})
    # dataclass rule: fields without defaults first; sequence groups stay contiguous
    # (fields between two members of a sequence group are rolled with the group)
    def order(f):
        has_seq = "sequence" in f.get("metadata", {})
        if "default" not in f:
            return 1 if has_seq else 0
        return 2 if has_seq else 3

    flds.sort(key=order)
    c = {"name": name, "fields": flds}
    if meta:
        c["meta"] = meta
    return c


def refs_of(c):
    out = []

    def walk(t):
        if isinstance(t, dict):
            if "cls" in t:
                out.append(t["cls"])
            for k in ("opt", "list", "tuple"):
                if k in t:
                    walk(t[k])
            for x in t.get("union", []):
                walk(x)

    for f in c["fields"]:
        walk(f["type"])
        for ch in f.get("metadata", {}).get("choices", []):
            walk(ch.get("type"))
    return out


def single_parent_namespace(desc):
    """Every class without its own Meta.namespace is reachable from Root under exactly one
    parent namespace (so that the first-build-wins cache of XmlContext cannot matter:
    that cache is the subject of C14, not of the binding-layer properties)."""
    by = {c["name"]: c for c in desc["classes"]}
    def ancestors(n):
        out = []
        for b in by[n].get("bases", []):
            out += [b] + ancestors(b)
        return out

    subs = {}
    for c in desc["classes"]:
        for b in ancestors(c["name"]):
            subs.setdefault(b, []).append(c["name"])
    seen = {}
    todo = [("Root", None)]
    while todo:
        name, pns = todo.pop()
        own = (by[name].get("meta") or {}).get("namespace")
        if own is None:
            if name in seen and seen[name] != pns:
                return False
        if (name, pns) in seen:
            continue
        seen[(name, pns)] = True
        seen[name] = pns
        eff = own if own is not None else pns
        fields_owner = [name] + ancestors(name)
        for owner in fields_owner:
            for r in refs_of(by[owner]):
                for k in [r] + subs.get(r, []):
                    todo.append((k, eff))
    return True


# --------------------------------------------------------------------------
# instances
# --------------------------------------------------------------------------
def _base(t):
    while isinstance(t, dict) and ("opt" in t or "list" in t or "tuple" in t):
        t = t.get("opt") or t.get("list") or t.get("tuple")
    return t


def gen_instance(rng, uni: B.Universe, cname: str, depth=0):
    cdesc = class_desc(uni, cname)
    cls = uni.classes[cname]
    kw = {}
    for f in all_fields(uni, cname):
        if f.get("init") is False:
            continue
        kw[f["name"]] = gen_field_value(rng, uni, f, depth)
    return cls(**kw)


def class_desc(uni, cname):
    return next(c for c in uni.desc["classes"] if c["name"] == cname)


def all_fields(uni, cname):
    c = class_desc(uni, cname)
    out = []
    for b in c.get("bases", []):
        out += all_fields(uni, b)
    return out + c["fields"]


def subclasses(uni, cname):
    """all descendants (any depth)"""
    direct = [c["name"] for c in uni.desc["classes"] if cname in c.get("bases", [])]
    out = []
    for d in direct:
        out += [d] + subclasses(uni, d)
    return out


def gen_any(rng, depth=0):
    ns = rng.choice([None, "urn:o", "urn:a", "urn:z"])
    q = rng.choice(["w1", "w2", "foreign"])
    q = f"{{{ns}}}{q}" if ns else q
    kids = []
    if depth < 2 and rng.random() < 0.4:
        kids = [gen_any(rng, depth + 1) for _ in range(rng.randint(1, 2))]
    attrs = {}
    if rng.random() < 0.4:
        attrs[rng.choice(["k", "{urn:o}k2", "id"])] = rng.choice(["v", "", "1", "a b", "p:bar", "x:y"])
    text = rng.choice([None, "", "t", "some text", " ", "x<y"])
    tail = rng.choice([None, None, "tl", " "]) if depth > 0 else None
    return B.AnyElement(qname=q, text=text, tail=tail, attributes=attrs, children=kids)


def gen_field_value(rng, uni, f, depth):
    t = f["type"]
    md = f.get("metadata", {})
    typ = md.get("type")
    has_default = "default" in f
    if typ == "Attributes":
        if rng.random() < 0.5:
            return {}
        return {rng.choice(["x", "{urn:o}y", "z-1"]): rng.choice(["v", "", "a b", "p:bar"]) for _ in range(rng.randint(1, 2))}
    if typ == "Wildcard":
        if isinstance(t, dict) and "list" in t:
            if md.get("mixed"):
                out = []
                for _ in range(rng.randint(0, 3)):
                    # two consecutive character-data items (a string after a string, or after an
                    # element with a tail) are written after the parent's end tag: known finding of C03
                    prev_text = bool(out) and (isinstance(out[-1], str) or bool(out[-1].tail))
                    if rng.random() < 0.3 and not prev_text:
                        out.append(rng.choice(["txt", "more"]))
                    else:
                        out.append(gen_any(rng, 1))
                return out
            return [gen_any(rng) for _ in range(rng.randint(0, 2))]
        return gen_any(rng) if rng.random() < 0.6 else None
    if typ == "Elements":
        out = []
        for _ in range(rng.randint(0, 3)):
            ch = rng.choice(md["choices"])
            bt = ch["type"]
            if isinstance(bt, dict) and "cls" in bt:
                out.append(gen_instance(rng, uni, bt["cls"], depth + 1))
            else:
                out.append(rprim(rng, bt))
        return out
    bt = _base(t)
    is_list = isinstance(t, dict) and ("list" in t or "tuple" in t)
    is_opt = isinstance(t, dict) and "opt" in t

    def one():
        if isinstance(bt, dict) and "union" in bt:
            m = rng.choice(bt["union"])
            if isinstance(m, dict) and "cls" in m:
                return gen_instance(rng, uni, m["cls"], depth + 1)
            if m == "str" and all(isinstance(x, str) for x in bt["union"]) and rng.random() < 0.25:
                return rng.choice(["5", "true", " 1", "0", "-7", "False", ""])  # texts another member may accept
            return rprim(rng, m)
        if bt == "object":
            r = rng.random()
            if r < 0.5:
                return rprim(rng, rng.choice(["str", "int", "bool"]))
            return rstr(rng)
        if isinstance(bt, dict) and "cls" in bt:
            name = bt["cls"]
            subs = subclasses(uni, name)
            if subs and rng.random() < 0.35:
                name = rng.choice(subs)
            return gen_instance(rng, uni, name, depth + 1)
        return rprim(rng, bt, "token" if md.get("tokens") else "any")

    if is_list:
        n = rng.choice([0, 1, 2, 3])
        if md.get("tokens"):
            return [one() for _ in range(n)]
        vals = [one() for _ in range(n)]
        if md.get("nillable") and vals and rng.random() < 0.3:
            vals[rng.randrange(len(vals))] = None
        return vals
    if is_opt and has_default and rng.random() < 0.3:
        return None
    if has_default and not is_opt and rng.random() < 0.3:
        dv = f["default"].get("value")
        if dv is not None:
            return dv
    return one()


# --------------------------------------------------------------------------
# documents
# --------------------------------------------------------------------------
def xml_tree(data: bytes):
    """Independent reading of a document into the Tree JSON (lxml, namespace aware)."""
    from lxml import etree

    root = etree.fromstring(data)

    def go(el):
        kids = [go(c) for c in el if isinstance(c.tag, str)]
        return {
            "q": el.tag,
            "a": [[k, v] for k, v in el.attrib.items()],
            "ns": [[p, u] for p, u in el.nsmap.items()],
            "t": el.text,
            "c": kids,
            "tl": el.tail,
        }

    return go(root)


def real_serialize(uni: B.Universe, obj, writer="native", **cfg):
    from xsdata.formats.dataclass.context import XmlContext
    from xsdata.formats.dataclass.serializers import XmlSerializer
    from xsdata.formats.dataclass.serializers.config import SerializerConfig
    from xsdata.formats.dataclass.serializers.writers import XmlEventWriter

    ns_map = cfg.pop("ns_map", None)
    if writer == "native":
        w = XmlEventWriter
    else:
        from xsdata.formats.dataclass.serializers.writers import LxmlEventWriter

        w = LxmlEventWriter
    ser = XmlSerializer(context=XmlContext(models_package=uni.modname), config=SerializerConfig(**cfg), writer=w)
    return ser.render(obj, ns_map=ns_map)


def real_parse_bytes(uni: B.Universe, clazz: str, data: bytes, handler="native", config=None):
    import warnings

    from xsdata.exceptions import ConverterWarning
    from xsdata.formats.dataclass.context import XmlContext
    from xsdata.formats.dataclass.parsers import XmlParser
    from xsdata.formats.dataclass.parsers.config import ParserConfig
    from xsdata.formats.dataclass.parsers.handlers import LxmlEventHandler, XmlEventHandler

    h = XmlEventHandler if handler == "native" else LxmlEventHandler
    p = XmlParser(context=XmlContext(models_package=uni.modname), config=ParserConfig(**(config or {})), handler=h)
    with warnings.catch_warnings(record=True) as w:
        warnings.simplefilter("always")
        try:
            obj = p.from_bytes(data, uni.classes[clazz])
        except Exception as e:  # noqa: BLE001
            return B.classify_exc(e)
    n = sum(1 for x in w if issubclass(x.category, ConverterWarning))
    return {"ok": {"value": uni.to_val(obj), "warnings": n}}


def tree_paths(t, path=()):
    yield path, t
    for i, c in enumerate(t["c"]):
        yield from tree_paths(c, path + (i,))


def tree_at(t, path):
    for i in path:
        t = t["c"][i]
    return t


UNKNOWN_SUBTREES = [
    {"q": "unknownEl", "a": [], "ns": [], "t": None, "c": [], "tl": None},
    {"q": "{urn:unknown}u", "a": [["k", "v"]], "ns": [], "t": "text", "c": [], "tl": None},
    {"q": "unk", "a": [], "ns": [], "t": " ", "c": [{"q": "deep", "a": [], "ns": [], "t": "x", "c": [{"q": "deeper", "a": [], "ns": [], "t": None, "c": [], "tl": "tl"}], "tl": None}], "tl": None},
]


def mutate_tree(rng, t, kind=None):
    """single-point fault on a document tree; returns (kind, new tree)"""
    t = copy.deepcopy(t)
    paths = list(tree_paths(t))
    kind = kind or rng.choice(
        ["inject", "inject", "inject_known", "unknown_attr", "xsi_attr", "delete", "duplicate", "retag", "reorder", "corrupt_text",
         "corrupt_attr", "bad_xsi_type", "bad_xsi_nil", "drop_attr", "add_text", "add_tail", "ws", "typed_prim", "typed_prim"]
    )
    path, node = rng.choice(paths)

    def set_attr(n, k, v):
        for kv in n["a"]:
            if kv[0] == k:
                kv[1] = v
                return
        n["a"].append([k, v])

    if kind == "inject":
        sub = copy.deepcopy(rng.choice(UNKNOWN_SUBTREES))
        node["c"].insert(rng.randint(0, len(node["c"])), sub)
    elif kind == "inject_known":
        # a name that is known elsewhere in the document
        other = rng.choice(paths)[1]
        sub = copy.deepcopy(other)
        sub["tl"] = None
        node["c"].insert(rng.randint(0, len(node["c"])), sub)
    elif kind == "unknown_attr":
        set_attr(node, rng.choice(["zzz", "{urn:unknown}att", "{http://www.w3.org/XML/1998/namespace}lang"]), rng.choice(["v", ""]))
    elif kind == "xsi_attr":
        set_attr(node, "{http://www.w3.org/2001/XMLSchema-instance}" + rng.choice(["schemaLocation", "noNamespaceSchemaLocation", "foo"]), "x y")
    elif kind == "delete" and path:
        parent = tree_at(t, path[:-1])
        del parent["c"][path[-1]]
    elif kind == "duplicate" and path:
        parent = tree_at(t, path[:-1])
        parent["c"].insert(path[-1], copy.deepcopy(node))
    elif kind == "retag":
        node["q"] = rng.choice(["renamed", "{urn:a}" + node["q"].split("}")[-1], node["q"].split("}")[-1], node["q"] + "x"])
    elif kind == "reorder" and len(node["c"]) > 1:
        rng.shuffle(node["c"])
    elif kind == "corrupt_text":
        node["t"] = rng.choice(["zzz", "", " ", "12x", "truee", None, "1 2 3", "pp:qq"])
    elif kind == "corrupt_attr" and node["a"]:
        rng.choice(node["a"])[1] = rng.choice(["zzz", "", "12x", "pp:qq", " 1 "])
    elif kind == "bad_xsi_type":
        set_attr(node, "{http://www.w3.org/2001/XMLSchema-instance}type", rng.choice(["nope", "xs:int", "pp:Missing", "", "{urn:a}Leaf0", "Leaf0", "Root", "a b"]))
    elif kind == "bad_xsi_nil":
        set_attr(node, "{http://www.w3.org/2001/XMLSchema-instance}nil", rng.choice(["true", "false", "1", "maybe", ""]))
    elif kind == "drop_attr" and node["a"]:
        del node["a"][rng.randrange(len(node["a"]))]
    elif kind == "add_text":
        node["t"] = (node["t"] or "") + rng.choice(["extra", " ", "\n  "])
    elif kind == "add_tail" and path:
        node["tl"] = (node["tl"] or "") + rng.choice(["tail", " ", "\n"])
    elif kind == "typed_prim":
        # an xsi:type'd primitive whose prefixes are declared (or re-bound) on the element itself
        XS = "http://www.w3.org/2001/XMLSchema"
        tname, text = rng.choice([("QName", "p:foo"), ("QName", "foo"), ("QName", "xs:int"), ("int", " 12 "), ("boolean", "1"),
                                  ("string", "p:foo"), ("short", "7"), ("QName", "q:bar")])
        leaf = rng.choice([n for _, n in paths if not n["c"]] or [node])
        set_attr(leaf, "{http://www.w3.org/2001/XMLSchema-instance}type", "xs:" + tname)
        leaf["t"] = text
        ns = [kv for kv in leaf["ns"] if kv[0] not in ("xs", "p")]
        leaf["ns"] = ns + [["xs", XS], ["p", rng.choice(["urn:inner", "urn:a"])]]
        # the same prefix bound to something else further out
        if path and rng.random() < 0.6:
            outer = tree_at(t, path[:-1]) if leaf is node else t
            if outer is not leaf and not any(kv[0] == "p" for kv in outer["ns"]):
                outer["ns"] = outer["ns"] + [["p", "urn:outer"]]
    elif kind == "ws":
        for _, n in paths:
            if n["c"]:
                n["t"] = (n["t"] or "") + "\n  " if not (n["t"] or "").strip() else n["t"]
                for c in n["c"]:
                    if not (c["tl"] or "").strip():
                        c["tl"] = "\n "
    return kind, t


def tree_xml(t) -> bytes:
    """print a Tree as a document (used to feed the real byte-level handlers)"""
    from lxml import etree

    def go(n, parent=None):
        nsmap = {p: u for p, u in n["ns"]} if n["ns"] else None
        if parent is None:
            el = etree.Element(n["q"], nsmap=nsmap)
        else:
            el = etree.SubElement(parent, n["q"], nsmap=nsmap)
        for k, v in n["a"]:
            el.set(k, v)
        el.text = n["t"]
        el.tail = n["tl"]
        for c in n["c"]:
            go(c, el)
        return el

    return etree.tostring(go(t))
