/- C04 — the `wrapped` flag of `DictEncoder.encode`: property theorems (only).

`encFlagsF` (Dict/EncodeFlags.lean) follows `encode(value, var, wrapped)` literally: the wrapper
test is made at every entry and every re-entry (array items, the value of an `Enum` member, the
value under the wrapper key) passes the flag on.  The theorems say that this machinery amounts to
"the wrapper-free encoding of the field value, put under the local name exactly once" — for
every nesting of lists and enumeration members, both factories, any fuel. -/
import XsdataModel.Dict.EncodeFlags
import XsdataModel.Proofs.C04Lemmas

namespace Props.C04
open Py Xs.Bind Xs.Dict

/-- **wrapped_ignores_wrapper**: once the flag is set, the wrapper of the var plays no part any more,
however deep the value is nested: the result is the one for a var without wrapper (under either flag). -/
theorem wrapped_ignores_wrapper (fac : Factory) (w : Option Str) (l : Str) :
    ∀ (n : Nat) (b : Bool) (v : DV), encFlagsF fac w l n true v = encFlagsF fac none l n b v := by
  intro n
  induction n with
  | zero => intro b v; rfl
  | succ n ih =>
    intro b v
    cases v with
    | none => rfl
    | prim p => simp [encFlagsF]
    | model i => simp [encFlagsF]
    | enum mixin x =>
      cases mixin
      · simp only [encFlagsF, Bool.not_true, Bool.and_false, Bool.false_eq_true, if_false, Option.isSome_none,
          Bool.false_and]
        exact ih b x
      · simp [encFlagsF]
    | list xs =>
      simp only [encFlagsF, Bool.not_true, Bool.and_false, Bool.false_eq_true, if_false, Option.isSome_none,
        Bool.false_and]
      rw [Proofs.C04.mapM_congr_except xs (fun x _ => ih b x)]

/-- **wrapper_once**: for a var with a wrapper, a value that is not `None` is written as
`{local_name: e}` where `e` is its wrapper-free encoding — the wrapper object appears exactly
once, at the top, whatever lists and enumeration members the value is made of. -/
theorem wrapper_once (fac : Factory) (s l : Str) (n : Nat) (v : DV) (hv : v ≠ .none) :
    encFlagsF fac (some s) l (n + 1) false v = wrapJ fac l (encFlagsF fac none l n false v) := by
  have h := wrapped_ignores_wrapper fac (some s) l n false v
  cases v with
  | none => exact absurd rfl hv
  | prim p => simp [encFlagsF, h]
  | model i => simp [encFlagsF, h]
  | enum mixin x => cases mixin <;> simp [encFlagsF, h]
  | list xs => simp [encFlagsF, h]

/-- a wrapped list of enumeration members (`colors: list[Color]`, wrapper `Colors`, name `color`) -/
example : encFlagsF .dict (some "Colors".toList) "color".toList 4 false
      (.list [.enum false (.prim (.str "red".toList)), .enum false (.prim (.str "green".toList))])
    = .ok (.obj [("color".toList, .arr [.str "red".toList, .str "green".toList])]) := by rfl

/-- … of mixed-in members, of members whose value is a tuple, with a `None` item and a model instance -/
example : encFlagsF .filterNone (some "W".toList) "x".toList 5 false
      (.list [.enum true (.prim (.int 7)), .enum false (.list [.prim (.int 1), .prim (.bool true)]), .none, .model 3])
    = .ok (.obj [("x".toList, .arr [.num 7, .arr [.num 1, .bool true], .null, .obj [("v".toList, .num 3)]])]) := by rfl

/-- **flag_irrelevant_without_wrapper**: a var without wrapper encodes the same under either flag -/
theorem flag_irrelevant_without_wrapper (fac : Factory) (l : Str) (n : Nat) (b b' : Bool) (v : DV) :
    encFlagsF fac none l n b v = encFlagsF fac none l n b' v := by
  rw [← wrapped_ignores_wrapper fac none l n b v, ← wrapped_ignores_wrapper fac none l n b' v]

/-- **enum_is_its_value**: a member of a plain enumeration encodes exactly as its value (one more
re-entry), a mixed-in member over a primitive as that primitive -/
theorem enum_is_its_value (fac : Factory) (l : Str) (n : Nat) (b : Bool) (x : DV) (p : PVal) :
    encFlagsF fac none l (n + 1) b (.enum false x) = encFlagsF fac none l n b x
    ∧ encFlagsF fac none l (n + 1) b (.enum true (.prim p)) = .ok (encPrim p) := by
  constructor <;> simp [encFlagsF]

/-- **wrapped_enum_list**: the shape the seeded regression broke, for every list of plain
enumeration members over primitives, both factories: `{local_name: [values…]}` -/
theorem wrapped_enum_list (fac : Factory) (s l : Str) (ps : List PVal) :
    encFlagsF fac (some s) l 4 false (.list (ps.map fun p => .enum false (.prim p)))
      = .ok (fac.apply [(l, .arr (ps.map encPrim))]) := by
  have hitems : (ps.map fun p => DV.enum false (.prim p)).mapM (encFlagsF fac none l 2 false)
      = .ok (ps.map encPrim) := by
    induction ps with
    | nil => rfl
    | cons p t ih =>
      rw [List.map_cons, List.mapM_cons, ih]
      simp [encFlagsF, bind, Except.bind, pure, Except.pure]
  rw [wrapper_once fac s l 3 _ (by simp)]
  simp [encFlagsF, hitems, wrapJ, Except.map]

/-- **flags_agree_prim_list**: on enumeration-free values the literal encoder is the flag-free
`encVarWith` of Dict/Encode.lean (the encoder `dict_rt` is about): a list of primitives, for a
var with or without wrapper -/
theorem flags_agree_prim_list (fac : Factory) (rec : Val → Except Err J) (var : XmlVar) (ps : List PVal) :
    encFlagsF fac (wrapperName var.toVarCore) var.localName 3 false (.list (ps.map .prim))
      = encVarWith fac rec var (.list (ps.map .prim)) := by
  have hitems : ∀ (n : Nat), (ps.map DV.prim).mapM (encFlagsF fac none var.localName (n + 1) false)
      = .ok (ps.map encPrim) := by
    intro n
    induction ps with
    | nil => rfl
    | cons p t ih =>
      rw [List.map_cons, List.mapM_cons, ih]
      simp [encFlagsF, bind, Except.bind, pure, Except.pure]
  have hitems' : (ps.map Val.prim).mapM (encElemWith rec) = .ok (ps.map encPrim) := by
    clear hitems
    induction ps with
    | nil => rfl
    | cons p t ih =>
      rw [List.map_cons, List.mapM_cons, ih]
      simp [encElemWith, encItemWith, bind, Except.bind, pure, Except.pure]
  cases hw : wrapperName var.toVarCore with
  | none =>
    simp [encFlagsF, encVarWith, hw, encCoreWith, hitems', hitems 1, Except.map]
  | some s =>
    rw [wrapper_once fac s _ 2 _ (by simp)]
    simp [encFlagsF, encVarWith, hw, encCoreWith, hitems', hitems 0, Except.map, wrapJ]

/-- **enum_value_reencoded**: the value of a plain enumeration member goes through `encode` again, so a
member value that is not a JSON primitive (a `QName` here; Decimal, XmlDuration, XmlDate … likewise go to
`converter.serialize`) is written as its text: the result is the encoding of the value itself and it is
JSON-native — for a var without wrapper under either flag, and for the items of a wrapped list. -/
theorem enum_value_reencoded (fac : Factory) (l : Str) (n : Nat) (b : Bool) (p : PVal) :
    encFlagsF fac none l (n + 2) b (.enum false (.prim p)) = .ok (encPrim p) ∧ (encPrim p).native = true := by
  refine ⟨by simp [encFlagsF], ?_⟩
  cases p <;> rfl

/-- an enumeration of QNames (`Kind.A = QName("{urn:demo}a")`), single and in a wrapped list -/
example : encFlagsF .dict none "kind".toList 3 false (.enum false (.prim (.qname "{urn:demo}a".toList)))
      = .ok (.str "{urn:demo}a".toList)
    ∧ encFlagsF .filterNone (some "Kinds".toList) "kind".toList 4 false
        (.list [.enum false (.prim (.qname "{urn:demo}a".toList)), .enum false (.prim (.qname "b".toList))])
      = .ok (.obj [("kind".toList, .arr [.str "{urn:demo}a".toList, .str "b".toList])]) := ⟨by rfl, by rfl⟩

end Props.C04
