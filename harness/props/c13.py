"""C13 — models generated from sample documents accept those documents (partial: the
inference / mapping / merging cores are modelled and proved, the whole pipeline is exercised
end to end with the stand-in renderer)."""
import itertools
import json
import random
import re
import sys

import c13_gen as S
import codegen_run as CG
from framework import Corr, Oracle, err, ok

PROP_ID = "C13"
DESIGN_REF = "6/C13"


def n_cases(tier, quick, thorough):
    return quick if tier == "quick" else thorough


# ------------------------------------------------------------------ real-code helpers
def freprs(strings):
    """`repr(float(s))` for the strings of a request that `float()` accepts: the one function of the float
    converter the Lean model does not compute (CEnv.floatRepr)"""
    out = {}
    for s in strings:
        if isinstance(s, str) and s not in out:
            try:
                out[s] = repr(float(s))
            except ValueError:
                pass
    return out


def canon_attr(a):
    seq = None
    for p in a.restrictions.path:
        if p[0] == "s":
            seq = p[1]
    return {
        "tag": a.tag, "name": a.local_name, "ns": a.namespace, "index": a.index,
        "types": [[t.qname, bool(t.native), bool(t.forward)] for t in a.types],
        "min": a.restrictions.min_occurs, "max": a.restrictions.max_occurs, "seq": seq,
    }


def canon_class(c):
    return {"qname": c.qname, "ns": c.namespace, "nillable": bool(c.nillable), "mixed": bool(c.mixed), "attrs": [canon_attr(a) for a in c.attrs]}


def real_class(c):
    from xsdata.codegen.models import Attr, AttrType, Class, Restrictions

    attrs = []
    for a in c["attrs"]:
        r = Restrictions(min_occurs=a["min"], max_occurs=a["max"])
        if a["seq"] is not None:
            r.path.append(("s", a["seq"], 1, sys.maxsize))
        attrs.append(Attr(tag=a["tag"], name=a["name"], namespace=a["ns"], index=a["index"],
                          types=[AttrType(qname=q, native=n, forward=f) for q, n, f in a["types"]], restrictions=r))
    return Class(qname=c["qname"], tag="Element", location="", namespace=c["ns"], nillable=c["nillable"], mixed=c["mixed"], attrs=attrs)


def map_xml_text(text):
    from xsdata.codegen.mappers import ElementMapper
    from xsdata.formats.dataclass.parsers import TreeParser

    return ElementMapper.map(TreeParser().from_bytes(text.encode("utf-8")), "loc")


def leak(e):
    return err(("" if isinstance(e, IndexError) else "LEAK:") + type(e).__name__)


# ------------------------------------------------------------------ smp.test_strict / smp.infer
TYPE_NAMES = ["int", "bool", "float", "Decimal", "XmlTime", "XmlDate", "XmlDateTime", "XmlDuration", "XmlPeriod"]
HAND_STRINGS = [
    "", " ", "1", "01", "+1", "-0", "-1", " 12 ", "\t7\n", "1_000", "١٢", "12 ", "true", "false", "0", " true", "True", "TRUE",
    "1.5", "1.50", "1e5", "1E5", "NaN", "INF", "-INF", "inf", "nan", "Infinity", ".5", "5.", "0.1", "-0.0", "123456789012345678901.5",
    "12.5", "1E22", "2.5E-07", "12:30:00", "12:30:00Z", "12:30:00.5", "24:00:00", "25:00:00", "12:30", "2020-01-15", "2020-02-30", "2020-01-15Z",
    "2020-01-15+02:00", "2020-01-15T10:00:00", "2020-01-15T10:00:00.123Z", "2020-01-15 10:00:00", "P1D", "PT1S", "-P1Y", "P", "PT", "P1Y2M3DT4H5M6.5S",
    " P1D ", "1_0.5", "１２", "١.٥", "1e400", "-1e400", "0E-7", "+.5", "NaN ", "sNaN", "-Infinity", "1E+2", "1e-5", "0.000001", "1E-7",
    "100000000000000000000", "1.0E22", "1e22", "12.0", "-0.0", "0.10", "00.5", "1.", "1e", "e1", "1 000", "1,5", "0x10", "1.7976931348623157E308", "5E-324",
    "9999999999999999.0", "0.30000000000000004", "1E1000000", "1E-1000000", "2020-05", "2020", "--05", "--05-12", "---12", "--13", "---32", "-2020-05", "abc", "{urn:a}b", "a:b", "007", "0x1F", "9" * 30, "-" + "9" * 30,
]


def random_string(rng):
    r = rng.random()
    if r < 0.25:
        s = str(rng.randint(-10**rng.randint(1, 25), 10**rng.randint(1, 25)))
    elif r < 0.45:
        s = S.canonical_value(rng, rng.choice(S.KINDS), rng.choice([0, 1]))
    elif r < 0.6:
        s = rng.choice(HAND_STRINGS)
    elif r < 0.8:
        s = "".join(rng.choice("0123456789-:.TZP+eE ") for _ in range(rng.randint(1, 12)))
    else:
        s = "".join(rng.choice("01ab -+_.٣ tru") for _ in range(rng.randint(0, 6)))
    m = rng.random()
    if m < 0.1:
        s = " " + s
    elif m < 0.2:
        s = s + "\n"
    elif m < 0.25:
        s = "0" + s
    elif m < 0.3:
        s = "+" + s
    return s


def gen_test_strict(rng, tier):
    for s in HAND_STRINGS:
        for t in TYPE_NAMES:
            yield {"t": t, "s": s, "freprs": freprs([s])}
    kind_of = {"int": "int", "bool": "bool", "float": "float", "Decimal": "decimal", "XmlTime": "time", "XmlDate": "date",
               "XmlDateTime": "dateTime", "XmlDuration": "duration", "XmlPeriod": "period"}
    for i in range(n_cases(tier, 1500, 40000)):
        t = rng.choice(TYPE_NAMES)
        if i % 2:
            s = random_string(rng)
        else:  # a value of the type's own kind, sometimes padded or damaged: both answers of every test are exercised
            s = S.canonical_value(rng, kind_of[t], rng.choice([0, 1]))
            m = rng.random()
            if m < 0.15:
                s = rng.choice([" ", "\n", "\t"]) + s + rng.choice(["", " "])
            elif m < 0.3 and s:
                k = rng.randrange(len(s))
                s = s[:k] + rng.choice("0:-TZ.x") + s[k + 1:]
        yield {"t": t, "s": s, "freprs": freprs([s])}


def impl_test_strict(a):
    from xsdata.formats.converter import converter

    tp = {t.__name__: t for t in converter.explicit_types()}.get(a["t"])
    if tp is None:
        return err("HARNESS:type gone " + a["t"])
    try:
        return ok(bool(converter.test(a["s"], [tp], strict=True)))
    except Exception as e:  # noqa: BLE001
        return err("LEAK:" + type(e).__name__)


HAND_VALUES = [None, True, False, 0, 1, -1, 32767, 32768, -32768, -32769, 2147483647, 2147483648, -2147483648, -2147483649,
               2**63 - 1, 2**63, -(2**63), -(2**63) - 1, 10**30, 1.5, -1.5, 0.0, 1e-40, -1e-40, 3.402823466e38, 3.5e38, -1.175494351e-38, -1.2e-38, 1e300, -1e300]


def gen_infer(rng, tier):
    from xsdata.models.enums import QNames

    for s in HAND_STRINGS:
        yield {"qname": "x", "value": S.enc_scalar(s), "freprs": freprs([s])}
    for v in HAND_VALUES:
        yield {"qname": "{urn:a}x", "value": S.enc_scalar(v), "freprs": {}}
    yield {"qname": QNames.XSI_TYPE, "value": S.enc_scalar("xs:int"), "freprs": freprs(["xs:int"])}
    yield {"qname": QNames.XSI_TYPE, "value": None, "freprs": {}}
    for _ in range(n_cases(tier, 1500, 40000)):
        r = rng.random()
        if r < 0.8:
            v = random_string(rng)
        elif r < 0.9:
            v = rng.randint(-(2**rng.randint(1, 70)), 2**rng.randint(1, 70))
        else:
            v = rng.choice([rng.uniform(-10, 10), rng.uniform(-1e39, 1e39), rng.uniform(-1e-37, 1e-37), float(rng.randint(-5, 5))])
        yield {"qname": "x", "value": S.enc_scalar(v), "freprs": freprs([v])}


def dec_scalar(v):
    if v is None:
        return None
    if "str" in v:
        return v["str"]
    if "int" in v:
        return v["int"]
    if "bool" in v:
        return v["bool"]
    m, x = v["float"]
    return float(f"{m}e{x}")


def impl_infer(a):
    from xsdata.codegen.mappers.mixins import RawDocumentMapper

    try:
        t = RawDocumentMapper.build_attr_type(a["qname"], dec_scalar(a["value"]))
        return ok(t.qname)
    except Exception as e:  # noqa: BLE001
        return err("LEAK:" + type(e).__name__)


def classify_infer(a, o):
    return o.get("ok", "err").rsplit("}", 1)[-1] if isinstance(o, dict) and "ok" in o else str(o)


# ------------------------------------------------------------------ smp.components / smp.groups
def gen_components(rng, tier):
    hand = [[], [[]], [[1, 2], [2, 3], [5, 6]], [[0, 1, 2, 3], [1, 2], [5, 6, 7], [7, 8]], [[3, 4], [0, 1], [1, 3]], [[5], [5], [4]],
            [[2, 3, 4], [0, 1, 2, 3, 4, 5]], [[1, 1, 2], [], [9]]]
    for h in hand:
        yield {"lists": h}
    # bounded exhaustive: up to three ranges over six indices
    ranges = [list(range(a, b + 1)) for a in range(5) for b in range(a, 5)]
    for k in (1, 2):
        for combo in itertools.product(ranges, repeat=k):
            yield {"lists": list(combo)}
    for _ in range(n_cases(tier, 600, 20000)):
        if rng.random() < 0.6:  # ranges, as the mapper produces them
            ls = []
            for _ in range(rng.randint(1, 5)):
                a = rng.randint(0, 12)
                ls.append(list(range(a, a + rng.randint(1, 5))))
        else:
            ls = [[rng.randint(0, 9) for _ in range(rng.randint(0, 4))] for _ in range(rng.randint(0, 6))]
        yield {"lists": ls}


def impl_components(a):
    from xsdata.utils import collections

    return ok([list(c) for c in collections.connected_components(a["lists"])])


def gen_find_component(rng, tier):
    for _ in range(n_cases(tier, 200, 5000)):
        gs = [[rng.randint(0, 9) for _ in range(rng.randint(0, 4))] for _ in range(rng.randint(0, 5))]
        yield {"groups": gs, "value": rng.randint(0, 10)}


def impl_find_component(a):
    from xsdata.utils import collections

    return ok(collections.find_connected_component(a["groups"], a["value"]))


def gen_order_respected(rng, tier):
    """child orders of the occurrences of one element: hand-picked, all small cases, and occurrences that
    share a prefix and a suffix and differ by runs of new children in the middle"""
    hand = [
        [["id", "customer", "priority", "total"], ["id", "giftwrap", "coupon", "total"]],
        [["v", "c"], ["v", "b"], ["b", "c"]],
        [["b", "c"], ["v", "b"], ["v", "c"]],
        [["a", "z"], ["a", "p", "q", "s", "z"], ["a", "b", "c", "z"]],
        [[], ["a"]], [["a", "b"], ["b", "a"]], [["a", "b", "c"], ["c"], ["x", "y", "a"]],
    ]
    for h in hand:
        yield {"lists": h}
    subs = [list(c) for n in range(0, 4) for c in itertools.permutations("abc", n)]
    for x in subs:  # bounded exhaustive: two and three occurrences over three names, any order
        for y in subs:
            yield {"lists": [x, y]}
    for _ in range(n_cases(tier, 300, 6000)):
        order = list("abcdefghij")[: rng.randint(3, 10)]
        if rng.random() < 0.7:  # sub-orders of one hidden order: prefix, suffix, runs in between
            lists = []
            for _ in range(rng.randint(2, 5)):
                keep, i = [], 0
                while i < len(order):
                    run = rng.randint(1, 3)
                    if i == 0 or i + run >= len(order) or rng.random() < 0.5:
                        keep.extend(order[i:i + run])
                    i += run
                lists.append(keep)
        else:
            lists = [rng.sample(order, rng.randint(0, len(order))) for _ in range(rng.randint(1, 4))]
        yield {"lists": lists}


def impl_order_respected(a):
    from xsdata.codegen.utils import ClassUtils

    classes = [real_class({"qname": "r", "ns": None, "nillable": False, "mixed": False, "attrs": [
        {"tag": "Element", "name": n, "ns": None, "index": i, "types": [], "min": 1, "max": 1, "seq": None} for i, n in enumerate(l)]})
        for l in a["lists"]]
    try:
        merged = [x.name for x in ClassUtils.sorted_attrs(classes)]
    except Exception as e:  # noqa: BLE001
        return leak(e)
    rank = {n: i for i, n in enumerate(merged)}
    real = all([rank[n] for n in l] == sorted(rank[n] for n in l) for l in a["lists"])
    return ok({"real": real, "replica": order_consistent(a["lists"])})


def gen_groups(rng, tier):
    hand = ["", "a", "aa", "ab", "abab", "abcabc", "aabb", "abacdcd", "abcab", "abba", "aXbXa", "abcdeab", "ababcdcd", "acbdacbd"]
    for h in hand:
        yield {"names": list(h)}
    for n in range(1, 6):  # bounded exhaustive over three names
        for w in itertools.product("abc", repeat=n):
            yield {"names": list(w)}
    for _ in range(n_cases(tier, 500, 20000)):
        k = rng.randint(2, 5)
        yield {"names": [rng.choice("abcdef"[:k]) for _ in range(rng.randint(0, 14))]}


def impl_groups(a):
    from xsdata.codegen.mappers import ElementMapper
    from xsdata.formats.dataclass.models.generics import AnyElement
    from xsdata.utils import collections

    el = AnyElement(qname="r", children=[AnyElement(qname=n, text="") for n in a["names"]])
    rep = ElementMapper.group_repeating_attrs(el)
    groups = ElementMapper.sequential_groups(el)
    return ok({"repeating": [list(g) for g in rep], "groups": [list(g) for g in groups],
               "seq": [collections.find_connected_component(groups, i) + 1 for i in range(len(a["names"]))]})


def classify_groups(a, o):
    g = o.get("ok", {}).get("groups", []) if isinstance(o, dict) else []
    return f"{min(len(g), 3)} group(s)"


# ------------------------------------------------------------------ smp.map_xml / smp.xml_docs
def random_tree(rng, depth=0):
    """irregular trees: inconsistent names, stray text and tails, xsi:nil / xsi:type, empties"""
    from xsdata.models.enums import QNames

    q = S.qn(rng.choice(S.NAMESPACES), rng.choice("abcd"))
    el = {"q": q, "t": None, "l": None, "a": [], "c": []}
    if rng.random() < 0.3:
        for _ in range(rng.randint(1, 2)):
            k = S.qn(rng.choice([None, None, "urn:a"]), rng.choice(["id", "k", "v"]))
            if k not in [x[0] for x in el["a"]]:
                el["a"].append([k, random_string(rng).replace("\n", " ").replace("\t", " ")])
    if rng.random() < 0.1:
        el["a"].append([QNames.XSI_NIL, rng.choice(["true", "1", "false", " true "])])
    if rng.random() < 0.05:
        el["a"].append([QNames.XSI_TYPE, "abc"])
    if depth < 3 and rng.random() < 0.55:
        for _ in range(rng.randint(1, 5)):
            c = random_tree(rng, depth + 1)
            if rng.random() < 0.15:
                c["l"] = rng.choice(["tail", "  ", "\n  ", " x "])
            el["c"].append(c)
    r = rng.random()
    if r < 0.5:
        el["t"] = random_string(rng).replace("\r", "")
    elif r < 0.6:
        el["t"] = rng.choice(["  ", "\n", ""])
    if el["t"] is not None:
        el["t"] = "".join(ch for ch in el["t"] if ch in "\t\n" or ord(ch) >= 32)
    return el


HAND_XML = [
    "<r><a>1</a><b>x</b><a>2</a><b>y</b><c>z</c></r>",
    '<p:r xmlns:p="urn:p" xmlns:q="urn:q" q:at="1" at2="v"><p:a>1</p:a><q:b>x</q:b><c>z</c></p:r>',
    '<r xmlns:xsi="http://www.w3.org/2001/XMLSchema-instance"><a xsi:nil="true"/><b>1</b><a>5</a></r>',
    "<r><p>hello <b>x</b> world</p></r>",
    '<r><item id="1"><n>x</n></item><item id="2"><n>y</n><m>2.5</m></item></r>',
    '<r xmlns="urn:d"><a><b xmlns="">t</b></a><a/></r>',
    "<r>  <a> 12 </a>\n  <b/>\n</r>",
    '<r a="1">text</r>',
    "<r><a><a><a>1</a></a></a></r>",
]


def xml_args(trees, texts=None):
    strings = [s for t in trees for s in S.tree_strings(t)]
    return {"docs": trees, "texts": texts or [S.to_xml(t) for t in trees], "freprs": freprs(strings)}


def gen_map_xml(rng, tier):
    for h in HAND_XML:
        t = S.from_xml(h)
        yield {"root": t, "text": h, "freprs": freprs(S.tree_strings(t))}
    for i in range(n_cases(tier, 250, 6000)):
        if i % 3 == 0:
            t = S.instance(rng, S.gen_xml_model(rng, hetero=0.3, nil=0.2, empty=0.2))
            text = S.to_xml(t, pretty=rng.random() < 0.5, default_ns=rng.choice(S.NAMESPACES))
        else:
            t = random_tree(rng)
            text = S.to_xml(t)
        t = S.from_xml(text)  # what an independent XML reader sees in the text
        yield {"root": t, "text": text, "freprs": freprs(S.tree_strings(t)), "regular": i % 3 == 0}


def impl_map_xml(a):
    try:
        return ok([canon_class(c) for c in map_xml_text(a["text"])])
    except Exception as e:  # noqa: BLE001
        return leak(e)


def classify_classes(a, o):
    if not (isinstance(o, dict) and "ok" in o):
        return str(o)
    cs = o["ok"]
    flags = []
    if any(c["mixed"] for c in cs):
        flags.append("mixed")
    if any(c["nillable"] for c in cs):
        flags.append("nil")
    if any(at["seq"] for c in cs for at in c["attrs"]):
        flags.append("seq")
    if any(at["min"] == 0 for c in cs for at in c["attrs"]):
        flags.append("opt")
    if any(len(at["types"]) > 1 for c in cs for at in c["attrs"]):
        flags.append("union")
    return "+".join(flags) or "plain"


def gen_xml_docs(rng, tier):
    hand = [
        ["<r><a>1</a><b>x</b></r>", "<r><a>1</a><b>x</b><a>2</a><b>y</b></r>"],
        ["<r><code>007</code><x>1.5</x></r>", "<r><code>12</code><x>123456789012345678901.5</x></r>"],
        ["<r><a>1</a><o>true</o></r>", "<r><a>2</a></r>"],
    ["<r><a>1</a><b>x</b></r>", "<r><a>1</a><b>x</b><a>2</a><b>y</b></r>"],  # marker only in the later occurrence (fixed)
    ['<r><x a="1">true</x><x>false</x><x>0</x></r>'],  # falsy values under a class|primitive union (fixed)
    [f'<r xmlns:xsi="{S.XSI}"><i xsi:nil="true"/><i>false</i><i>0</i></r>'],
        ['<r><i k="1"/><i k="2" xmlns:xsi="http://www.w3.org/2001/XMLSchema-instance" xsi:nil="true"/></r>'],
        ["<r><a/><b>1</b></r>", "<r><b>2</b><c/><a>x</a></r>", "<r><c>3</c></r>"],
    ]
    for k, docs in enumerate(hand):  # all but the last (a b / b c a: no consistent order) are samples of a regular model
        yield dict(xml_args([S.from_xml(d) for d in docs], docs), regular=k < len(hand) - 1)
    for i in range(n_cases(tier, 200, 5000)):
        if i % 4 == 3:
            trees = [random_tree(rng) for _ in range(rng.randint(1, 3))]
            texts = [S.to_xml(t) for t in trees]
        else:
            m = S.gen_xml_model(rng, hetero=0.3, nil=0.2, empty=0.2)
            trees = [S.instance(rng, m) for _ in range(rng.randint(1, 4))]
            texts = [S.to_xml(t, pretty=rng.random() < 0.3) for t in trees]
        yield dict(xml_args([S.from_xml(t) for t in texts], texts), regular=i % 4 != 3)


def impl_xml_docs(a):
    try:
        return ok([canon_class(c) for c in real_transformer(a["texts"], "xml")])
    except Exception as e:  # noqa: BLE001
        return leak(e)


# ------------------------------------------------------------------ smp.map_json / smp.json_docs
def random_json(rng, depth=0):
    out = {}
    for _ in range(rng.randint(0, 4)):
        k = rng.choice(["a", "b", "c", "d", "item_id"])
        r = rng.random()
        if r < 0.45 or depth >= 2:
            v = rng.choice([None, True, 5, 70000, 1.5, -2.5, "x", "12", "", 10**20])
        elif r < 0.6:
            v = random_json(rng, depth + 1)
        elif r < 0.7:
            v = []
        elif r < 0.85:
            v = [rng.choice([1, "s", None, 2.5, True]) for _ in range(rng.randint(1, 3))]
        else:
            v = [random_json(rng, depth + 1) for _ in range(rng.randint(1, 3))]
        out[k] = v
    return out


HAND_JSON = [
    {"a": 1, "b": "x", "c": None, "d": [], "e": [1, 2], "f": {"g": True}, "h": [{"i": 1.5}, {"i": None, "j": "12"}]},
    {"a": [[1, 2], [3]], "b": [[]]},
    {"a": {"a": {"a": 1}}},
    {},
]


def gen_map_json(rng, tier):
    for h in HAND_JSON:
        yield {"data": S.enc_json(h), "raw": h, "name": "doc", "freprs": freprs(S.json_strings(h))}
    for i in range(n_cases(tier, 300, 8000)):
        d = S.json_instance(rng, S.gen_json_model(rng, hetero=0.3)) if i % 2 else random_json(rng)
        yield {"data": S.enc_json(d), "raw": d, "name": "doc", "freprs": freprs(S.json_strings(d)), "regular": bool(i % 2)}


def impl_map_json(a):
    from xsdata.codegen.mappers import DictMapper

    try:
        return ok([canon_class(c) for c in DictMapper.map(json.loads(json.dumps(a["raw"])), a["name"], "loc")])
    except Exception as e:  # noqa: BLE001
        return leak(e)


def gen_json_docs(rng, tier):
    hand = [[{"a": 1}, {"a": None}], [{"a": "12"}, {"a": "x"}], [{"a": []}, {"a": [1.5]}], [{"a": {"b": 1}}, {"a": {"c": 2}}, {}],
            [[{"a": 1}, {"a": 2, "b": "x"}]], [[], {"a": 1}], [[{"a": 1}, 5]], [5], ["abc"], [""], [None], [[[{"a": 1}]]], [True, {"a": 1}]]
    for docs in hand:
        yield {"docs": [S.enc_json(d) for d in docs], "raw": docs, "name": "doc", "freprs": freprs(s for d in docs for s in S.json_strings(d))}
    for i in range(n_cases(tier, 250, 6000)):
        if i % 3 == 2:
            docs = [random_json(rng) for _ in range(rng.randint(1, 3))]
        else:
            m = S.gen_json_model(rng, hetero=0.3)
            docs = [S.json_instance(rng, m) for _ in range(rng.randint(1, 4))]
            if i % 5 == 0:  # a document that is an array of root objects
                docs = [[d, S.json_instance(rng, m)] if rng.random() < 0.5 else d for d in docs]
        yield {"docs": [S.enc_json(d) for d in docs], "raw": docs, "name": "doc", "freprs": freprs(s for d in docs for s in S.json_strings(d)), "regular": i % 3 != 2}


def real_transformer(docs, ext, name="doc"):
    """the real `ResourceTransformer.process_xml_documents / process_json_documents` on in-memory resources
    (`preloaded`), up to and including `reduce_classes`"""
    from xsdata.codegen.transformer import ResourceTransformer
    from xsdata.models.config import GeneratorConfig

    cfg = GeneratorConfig()
    cfg.output.package = "pkg." + name
    t = ResourceTransformer(config=cfg)
    uris = []
    for i, d in enumerate(docs):
        uri = f"mem://c13/s{i}.{ext}"
        t.preloaded[uri] = (d if ext == "xml" else json.dumps(d)).encode("utf-8")
        uris.append(uri)
    (t.process_xml_documents if ext == "xml" else t.process_json_documents)(uris)
    return t.classes


def impl_json_docs(a):
    try:
        return ok([canon_class(c) for c in real_transformer(a["raw"], "json", a["name"])])
    except Exception as e:  # noqa: BLE001
        return err(type(e).__name__)


# ------------------------------------------------------------------ smp.reduce
XS = "{http://www.w3.org/2001/XMLSchema}"


def random_class(rng, qname, dup=False):
    attrs = []
    keys = []
    for _ in range(rng.randint(0, 5)):
        key = (rng.choice(["Element", "Element", "Attribute"]), rng.choice("abcde"), rng.choice([None, None, "", "urn:a"]))
        if key in keys and not dup:
            continue
        keys.append(key)
        types = []
        for q in rng.sample(["int", "string", "anySimpleType", "float", "boolean", "error", "anyType"], rng.randint(1, 3)):
            types.append([XS + q, True, False])
        if rng.random() < 0.2:
            types.append([key[1], False, False])
        attrs.append({"tag": key[0], "name": key[1], "ns": key[2], "index": len(attrs), "types": types,
                      "min": rng.choice([0, 1, 1]), "max": rng.choice([1, 1, sys.maxsize]), "seq": rng.choice([None, None, 1, 2])})
    return {"qname": qname, "ns": rng.choice([None, "urn:a"]), "nillable": rng.random() < 0.2, "mixed": rng.random() < 0.2, "attrs": attrs}


def gen_reduce(rng, tier):
    def at(name, mn=1, mx=1, seq=None, types=("string",), tag="Element", ns=None, index=0):
        return {"tag": tag, "name": name, "ns": ns, "index": index, "types": [[XS + t, True, False] for t in types], "min": mn, "max": mx, "seq": seq}

    def cl(q, attrs, **kw):
        return {"qname": q, "ns": None, "nillable": False, "mixed": False, "attrs": [dict(a, index=i) for i, a in enumerate(attrs)], **kw}

    yield {"classes": []}
    yield {"classes": [cl("r", [at("a"), at("b")]), cl("r", [at("a", mx=sys.maxsize, seq=1), at("b", mx=sys.maxsize, seq=1)])]}
    yield {"classes": [cl("r", [at("a"), at("c")]), cl("r", [at("a"), at("b"), at("c")]), cl("r", [at("d"), at("a")])]}
    yield {"classes": [cl("r", [at("a", types=("int",))]), cl("r", [at("a", types=("anySimpleType",))]), cl("r", [at("a", types=("string", "error"))])]}
    yield {"classes": [cl("r", [at("a"), at("a")]), cl("r", [at("a")])]}  # malformed: duplicate attr inside one class
    yield {"classes": [cl("r", [at("a")], nillable=False), cl("r", [at("a")], nillable=True, mixed=True), cl("s", [])]}
    yield {"classes": [cl("r", [at("a", mn=0, mx=0)]), cl("r", [at("a", mn=1, mx=0)])]}
    for i in range(n_cases(tier, 600, 20000)):
        dup = i % 10 == 0
        yield {"classes": [random_class(rng, rng.choice(["r", "r", "s"]), dup) for _ in range(rng.randint(1, 5))]}


def impl_reduce(a):
    from xsdata.codegen.utils import ClassUtils

    try:
        return ok([canon_class(c) for c in ClassUtils.reduce_classes([real_class(c) for c in a["classes"]])])
    except Exception as e:  # noqa: BLE001
        return leak(e)


def drop(*keys):
    def f(a):
        return {k: v for k, v in a.items() if k not in keys}

    return f


# ------------------------------------------------------------------ the end-to-end oracle
def strict_config():
    from xsdata.formats.dataclass.parsers.config import ParserConfig

    return ParserConfig(fail_on_unknown_properties=True, fail_on_unknown_attributes=True, fail_on_converter_warnings=True)


def constraint_violation(obj, path="$"):
    """the parsed object against the occurrence bounds its own generated class declares"""
    import dataclasses

    if not dataclasses.is_dataclass(obj) or isinstance(obj, type):
        return None
    for f in dataclasses.fields(obj):
        v = getattr(obj, f.name)
        md = f.metadata
        if isinstance(v, list):
            if md.get("type") in ("Element", None) and "max_occurs" in md and len(v) > md["max_occurs"]:
                return f"{path}.{f.name}: {len(v)} items, the generated field declares max_occurs={md['max_occurs']}"
            if md.get("type") == "Element" and len(v) < md.get("min_occurs", 0):
                return f"{path}.{f.name}: {len(v)} items, the generated field declares min_occurs={md['min_occurs']}"
            for i, x in enumerate(v):
                r = constraint_violation(x, f"{path}.{f.name}[{i}]")
                if r:
                    return r
        else:
            r = constraint_violation(v, f"{path}.{f.name}")
            if r:
                return r
    return None


_FAILURES = {}  # the structured failures behind the last few oracle messages, for the coverage predicates


def remember(kind, docs, failures):
    if len(_FAILURES) > 64:
        _FAILURES.clear()
    _FAILURES[kind + json.dumps(docs, sort_keys=True, ensure_ascii=False, default=str)] = failures
    return failures


def recall(kind, docs):
    return _FAILURES.get(kind + json.dumps(docs, sort_keys=True, ensure_ascii=False, default=str))


def failures_text(failures):
    """the oracle's answer: None when the property holds, else EVERY failure (the first in full)"""
    if not failures:
        return None
    more = "" if len(failures) == 1 else f" [and {len(failures) - 1} more: " + "; ".join(f["msg"][:160] for f in failures[1:6]) + "]"
    return failures[0]["msg"] + more


def xml_failures(a):
    """the property on the real pipeline: classes from the samples, every sample parses strictly into the root
    class and serialises back to the same infoset.  Returns EVERY failure as a record
    {"sample", "kind": generation|roots|rejected|bounds|unserialisable|element|attributes|text|children|tail, "msg", …}:
    a known finding explains single failures, never a whole sample set (see `attribute_xml`)"""
    import warnings

    from lxml import etree
    from xsdata.formats.dataclass.context import XmlContext
    from xsdata.formats.dataclass.parsers import XmlParser
    from xsdata.formats.dataclass.serializers import XmlSerializer

    docs = a["docs"]
    out = []
    g = CG.run_pipeline({f"s{i}.xml": t for i, t in enumerate(docs)})
    try:
        if g.error is not None:
            return [{"sample": None, "kind": "generation", "msg": f"generation failed: {type(g.error).__name__}: {g.error}"}]
        ctx = XmlContext()
        root_q = etree.fromstring(docs[0].encode()).tag
        roots = [c for c in g.classes().values() if hasattr(c, "__dataclass_fields__") and "." not in c.__qualname__ and ctx.build(c).qname == root_q]
        if len(roots) != 1:
            return [{"sample": None, "kind": "roots", "msg": f"{len(roots)} generated classes answer to the root element {root_q}"}]
        for i, text in enumerate(docs):
            parser = XmlParser(context=ctx, config=strict_config())
            try:
                with warnings.catch_warnings():
                    warnings.simplefilter("error")
                    obj = parser.from_string(text, roots[0])
            except Exception as e:  # noqa: BLE001
                out.append({"sample": i, "kind": "rejected", "exc": type(e).__name__, "text": str(e),
                            "msg": f"sample {i} rejected: {type(e).__name__}: {str(e)[:200]}"})
                continue
            cv = constraint_violation(obj)
            if cv:
                out.append({"sample": i, "kind": "bounds", "text": cv, "msg": f"sample {i} breaks the bounds of the generated classes: {cv}"})
                continue
            try:
                rendered = XmlSerializer(context=ctx).render(obj)
            except Exception as e:  # noqa: BLE001
                out.append({"sample": i, "kind": "unserialisable", "exc": type(e).__name__, "text": str(e),
                            "msg": f"sample {i} parsed but cannot be serialised: {type(e).__name__}: {str(e)[:200]}"})
                continue
            for d in S.infoset_diffs(S.infoset(text), S.infoset(rendered)):
                out.append(dict(d, sample=i, msg=f"sample {i} re-serialised differently: {S.diff_text(d)}"))
    finally:
        g.close()
    return out


def oracle_xml(a):
    return failures_text(remember("xml", a["docs"], xml_failures(a)))


def json_failures(a):
    import warnings

    from xsdata.formats.dataclass.context import XmlContext
    from xsdata.formats.dataclass.parsers import JsonParser
    from xsdata.formats.dataclass.serializers import JsonSerializer

    docs = a["docs"]
    out = []
    g = CG.run_pipeline({f"s{i}.json": json.dumps(d) for i, d in enumerate(docs)})
    try:
        if g.error is not None:
            return [{"sample": None, "kind": "generation", "msg": f"generation failed: {type(g.error).__name__}: {g.error}"}]
        key = g.output_package.split(".")[-1].replace("_", "").lower()
        roots = [c for n, c in g.classes().items() if n.replace("_", "").lower() == key]
        if len(roots) != 1:
            return [{"sample": None, "kind": "roots",
                     "msg": f"{len(roots)} generated classes answer to the document name {g.output_package.split('.')[-1]}: {sorted(g.classes())}"}]
        ctx = XmlContext()
        for i, d in enumerate(docs):
            parser = JsonParser(context=ctx, config=strict_config())
            try:
                with warnings.catch_warnings():
                    warnings.simplefilter("error")
                    obj = parser.from_string(json.dumps(d), list[roots[0]] if isinstance(d, list) else roots[0])
            except Exception as e:  # noqa: BLE001
                out.append({"sample": i, "kind": "rejected", "exc": type(e).__name__, "text": str(e),
                            "msg": f"sample {i} rejected: {type(e).__name__}: {str(e)[:200]}"})
                continue
            cv = constraint_violation(obj)
            if cv:
                out.append({"sample": i, "kind": "bounds", "text": cv, "msg": f"sample {i} breaks the bounds of the generated classes: {cv}"})
                continue
            try:
                rendered = json.loads(JsonSerializer(context=ctx).render(obj))
            except Exception as e:  # noqa: BLE001
                out.append({"sample": i, "kind": "unserialisable", "exc": type(e).__name__, "text": str(e),
                            "msg": f"sample {i} parsed but cannot be serialised: {type(e).__name__}: {str(e)[:200]}"})
                continue
            for df in S.json_diffs(S.json_norm(d), S.json_norm(rendered)):
                out.append(dict(df, sample=i, msg=f"sample {i} re-serialised differently: {S.json_diff_text(df)}"))
    finally:
        g.close()
    return out


def oracle_json(a):
    return failures_text(remember("json", a["docs"], json_failures(a)))


# ------------------------------------------------------------------ known-defect regions (precise predicates on the samples)
def occurrences(trees):
    occ = {}

    def walk(e):
        occ.setdefault(e["q"], []).append(e)
        for c in e["c"]:
            walk(c)

    for t in trees:
        walk(t)
    return occ


def class_like(e):
    """what ElementMapper.build_elements turns into an inner class"""
    return bool(e["a"] or e["c"])


def interleave_blocks(names):
    """own computation: names whose first..last index ranges overlap (transitively) form a block;
    only names that repeat open a range, and only when at least two distinct names are present.
    Returns name -> (block number from 1 in document order, member names)"""
    first, last, count = {}, {}, {}
    for i, n in enumerate(names):
        first.setdefault(n, i)
        last[n] = i
        count[n] = count.get(n, 0) + 1
    if len(first) < 2:
        return {}
    ranges = sorted((first[n], last[n]) for n in first if count[n] > 1)
    blocks = []
    for lo, hi in ranges:
        if blocks and lo <= blocks[-1][1]:
            blocks[-1][1] = max(blocks[-1][1], hi)
        else:
            blocks.append([lo, hi])
    out = {}
    for i, (lo, hi) in enumerate(blocks):
        members = frozenset(names[lo:hi + 1])
        for n in members:
            out[n] = (i + 1, members)
    return out


def region_groups(trees, only=None):
    """an element name whose occurrences number their blocks of repeats differently: one block number
    names different blocks, or a child sits in two different blocks.  (An occurrence in which the child
    does not repeat at all is fine: the marker of any occurrence is kept.)"""
    for q, els in occurrences(trees).items():
        if only is not None and q != only:
            continue
        seen = {}
        parts = [(e, interleave_blocks([c["q"] for c in e["c"]])) for e in els]
        numbered = {}
        for e, part in parts:
            for num, members in set(part.values()):
                if numbered.setdefault(num, members) != members:
                    return f"children of {q}: block {num} is {sorted(numbered[num])} in one occurrence and {sorted(members)} in another"
        for e, part in parts:
            for n in {c["q"] for c in e["c"]}:
                blk = part.get(n)
                if blk is None:
                    continue
                if n in seen and seen[n] != blk:
                    return f"children of {q}: {n} is in block {(seen[n][0], sorted(seen[n][1]))} in one occurrence and {(blk[0], sorted(blk[1]))} in another"
                seen[n] = blk
    return None


NIL = S.qn(S.XSI, "nil")


def is_nil(e):
    return any(k == NIL and v.strip() in ("true", "1") for k, v in e["a"])


def is_empty(e):
    """<q/>: no attributes, no children, no text"""
    return not e["a"] and not e["c"] and not (e["t"] or "")


def norm_name(n):
    """element / attribute names and the Python names generated from them, made comparable"""
    return re.sub(r"[^0-9a-z]", "", S.split(n)[1].lower())


# own reference for the numeric readings: Python's int / float / Decimal and the XSD spellings, nothing of xsdata
NUMERIC = ("int", "bool", "float", "decimal")  # the fixed order in which a generated union tries its numeric members


def own_read(v, m):
    """what Python itself reads from the string `v` as numeric kind `m` (leniently), or None"""
    import decimal

    try:
        if m == "int":
            return int(v)
        if m == "bool":
            return {"true": True, "1": True, "false": False, "0": False}.get(v.strip())
        if m == "float":
            return float(v)
        return decimal.Decimal(v)
    except (ValueError, decimal.InvalidOperation):
        return None


def own_write(x, m):
    """the XSD spelling of a value of numeric kind `m`"""
    if m == "int":
        return str(x)
    if m == "bool":
        return "true" if x else "false"
    if m == "float":
        if x != x:
            return "NaN"
        if x in (float("inf"), float("-inf")):
            return "INF" if x > 0 else "-INF"
        return repr(x).upper().replace("E+", "E")
    if x.is_infinite():
        return str(x).replace("Infinity", "INF")
    return f"{x:f}"


def own_numeric_kind(v):
    """the numeric kind whose strict lexical test `v` passes first (written back as it was spelled), or None"""
    for m in NUMERIC:
        x = own_read(v, m)
        if x is not None and own_write(x, m) == v.strip():
            return m
    return None


def union_reading(v, members):
    """(kind, value): how a union having the numeric `members` reads `v`: first member, in the fixed order, that
    accepts it leniently; None when no numeric member does (the other members are assumed to read only what
    they also write back)"""
    for m in NUMERIC:
        if m in members:
            x = own_read(v, m)
            if x is not None:
                return m, x
    return None


def value_sites(trees):
    """site -> the lexical values found there; a site is what becomes one generated field"""
    sites = {}
    roots = [id(t) for t in trees]  # a root element is mapped as a class whatever it holds
    for q, els in occurrences(trees).items():
        for e in els:
            for k, v in e["a"]:
                if k != NIL:
                    sites.setdefault((q, "@" + k), []).append(v)
            if (class_like(e) or id(e) in roots) and (e["t"] or "").strip() and not e["c"]:
                sites.setdefault((q, "#text"), []).append(e["t"])
            for c in e["c"]:
                if not class_like(c):
                    sites.setdefault((q, c["q"]), []).append(c["t"] or "")
    return sites


def predicted_union_rewrites(trees):
    """C13-union-member-order, exactly: site -> {value: what it is re-serialised as}.  The values of one field are
    typed one by one by a strict lexical test, the generated union reads each value with its first numeric member
    (fixed order int, bool, float, Decimal) that accepts it leniently and writes THAT member's spelling."""
    out = {}
    for site, values in value_sites(trees).items():
        members = {own_numeric_kind(v) for v in values if v} - {None}
        for v in values:
            r = union_reading(v, members) if v else None
            if r is not None and own_write(r[1], r[0]) != v:
                out.setdefault(site, {})[v] = own_write(r[1], r[0])
    return out


def class_members(els):
    """the members of the class an element name gets, from its class-like occurrences (the only ones
    ElementMapper counts): name -> (required, repeats)"""
    counted = [e for e in els if class_like(e)]
    members, valued = {}, set()
    for e in counted:
        names = ["@" + k for k, _ in e["a"] if k != NIL] + [c["q"] for c in e["c"]]
        valued |= {c["q"] for c in e["c"] if class_like(c) or (c["t"] or "")}
        if not e["c"] and (e["t"] or "").strip():
            names.append("#text")
            valued.add("#text")
        for n in set(names):
            members.setdefault(n, []).append(names.count(n))
    # a single child that never carries a value is typed anySimpleType alone and gets a default
    # (SanitizeAttributesDefaultValue); an attribute or a repeated child of that kind stays required
    return {n: (len(cs) == len(counted) and (n in valued or n.startswith("@") or max(cs) > 1), max(cs) > 1) for n, cs in members.items()}


MISSING_ARGS = re.compile(r"^Failed to create `(\w+)`: (\w+)\.__init__\(\) missing (\d+) required keyword-only arguments?: (.*)$")
ZERO_ITEMS = re.compile(r"^\$(?:\.\w+(?:\[\d+\])?)*\.(\w+?)(?:\[\d+\])?\.(\w+): 0 items, the generated field declares min_occurs=(\d+)$")


def explain_empty_occurrence(trees, f):
    """C13-empty-occurrence-ignored, exactly: an element name that has occurrences with attributes / children and a
    completely empty one.  The empty one is not counted, so the members every counted occurrence has are required:
    the sample holding <q/> is rejected for exactly those missing arguments of exactly that class (or, when all of
    them are lists, found with 0 items under min_occurs >= 1)."""
    if f["sample"] is None:
        return None
    here = occurrences([trees[f["sample"]]])
    everywhere = occurrences(trees)
    for q, els in here.items():
        if not any(is_empty(e) for e in els):
            continue
        members = class_members(everywhere[q])
        single = sorted(norm_name(n.lstrip("@")) if n != "#text" else "value" for n, (req, rep) in members.items() if req and not rep)
        lists = sorted(norm_name(n) for n, (req, rep) in members.items() if req and rep)
        if f["kind"] == "rejected" and f["exc"] == "ParserError" and single:
            m = MISSING_ARGS.match(f["text"])
            if m and m.group(1) == m.group(2) and norm_name(m.group(1)) == norm_name(q):
                named = sorted(norm_name(x) for x in re.findall(r"'(\w+)'", m.group(4)))
                if named == single and int(m.group(3)) == len(single):
                    return f"<{q}/> beside occurrences of {q} that all have {single}"
        if f["kind"] == "bounds" and not single and lists:
            m = ZERO_ITEMS.match(f["text"])
            if m and norm_name(m.group(1)) == norm_name(q) and norm_name(m.group(2)) in lists:
                return f"<{q}/> beside occurrences of {q} that all have the repeated {lists}"
    return None


def explain_union(trees, f):
    """a text or an attribute value rewritten exactly as `predicted_union_rewrites` says"""
    rewrites = predicted_union_rewrites(trees)
    node, path = f["node"], f["path"]
    if f["kind"] == "text":
        if node[3]:
            return None
        site = (path[-1], "#text") if node[1] or len(path) == 1 else (path[-2], path[-1])
        if rewrites.get(site, {}).get(f["before"]) == f["after"]:
            return f"{site[0]} {site[1]}: {f['before']!r} is read by an earlier numeric member of the union and written as {f['after']!r}"
        if not node[1]:
            # a plain leaf whose name is a class elsewhere (simple content with attributes): the field is class | primitive,
            # the class is tried first and reads the text with the union of ITS text values
            members = {own_numeric_kind(v) for v in value_sites(trees).get((path[-1], "#text"), []) if v} - {None}
            r = union_reading(f["before"], members)
            if r is not None and own_write(r[1], r[0]) == f["after"] != f["before"]:
                return f"{path[-1]}: the leaf is read as the class of its name, whose text has the numeric members {sorted(members)}"
        return None
    return None


def explain_attributes(trees, f):
    """an `attributes` difference, taken apart: values that changed (each must be a predicted rewrite of its union site)
    and xsi:nil appearing or disappearing (each must be the exact case of one finding); every part must be explained"""
    if f["kind"] != "attributes":
        return None
    before, after = dict(f["before"]), dict(f["after"])
    if len(before) != len(f["before"]) or len(after) != len(f["after"]):
        return None
    nil_before, nil_after = before.pop(NIL, None), after.pop(NIL, None)
    if sorted(before) != sorted(after):
        return None
    q, node = f["path"][-1], f["node"]
    parts = []
    changed = [k for k in before if before[k] != after[k]]
    if changed:
        rewrites = predicted_union_rewrites(trees)
        if not all(rewrites.get((q, "@" + k), {}).get(before[k]) == after[k] for k in changed):
            return None
        parts.append(("C13-union-member-order", f"{q} @{changed}: read by an earlier numeric member of the union"))
    if nil_before != nil_after:
        bare = not node[2] and not node[3]
        if nil_before is None and nil_after == "true" and bare:
            # an element without text and children (with or without attributes) whose name is xsi:nil somewhere:
            # its class is nillable (reduce_classes merges the flag over all occurrences) and has nothing to write
            if not any(is_nil(e) for e in occurrences(trees).get(q, [])):
                return None
            parts.append(("C13-empty-leaf-next-to-nil", f"<{q}> without content beside an xsi:nil {q}"))
        elif nil_before == "true" and nil_after is None and bare and absent_nillable_children(trees, q):
            parts.append(("C13-absent-nillable-rendered-nil", f"xsi:nil {q} gets {sorted(absent_nillable_children(trees, q))} invented and is not empty any more"))
        else:
            return None
    return parts[0] if parts and all(fid in listed_findings() for fid, _ in parts) else None


def absent_nillable_children(trees, q):
    """C13-absent-nillable-rendered-nil: the children of q that are xsi:nil in some occurrence of q"""
    return {c["q"] for e in occurrences(trees).get(q, []) for c in e["c"] if is_nil(c)}


_MODEL_FIELDS = {}


def model_fields(trees):
    """class qname -> the fields the Lean model of the UNCHANGED generator (map, reduce, attribute paths, sequence
    numbers: op smp.fields, tied to the real generator field by field on every run) gives the class; {} when the
    driver cannot be asked"""
    from framework import Driver

    key = json.dumps(trees, sort_keys=True, ensure_ascii=False)
    if key not in _MODEL_FIELDS:
        if len(_MODEL_FIELDS) > 64:
            _MODEL_FIELDS.clear()
        try:
            args = {"trees": trees, "freprs": freprs(s for t in trees for s in S.tree_strings(t))}
            out = Driver().run([{"op": "smp.fields", "args": args}])[0]
            _MODEL_FIELDS[key] = {c["qname"]: c["fields"] for c in out["ok"]}
        except Exception:  # noqa: BLE001
            _MODEL_FIELDS[key] = {}
    return _MODEL_FIELDS[key]


def written_order(fields, children):
    """own replica of the order in which the serializer writes the element children of an object: field by field,
    the fields of one sequence number (from the first to the last field carrying it) round by round.  `children`
    are the names as the sample has them; None when the fields do not determine the order (mixed / wildcard)"""
    if fields is None or any(f["tag"] not in ("Element", "Attribute", "Text", "SimpleType") for f in fields):
        return None
    el = [f for f in fields if f["tag"] == "Element"]
    values = {}
    for n in children:
        owner = [f["name"] for f in el if f["name"] == S.split(n)[1]]
        if len(owner) != 1:
            return None
        values.setdefault(owner[0], []).append(n)
    out, i = [], 0
    while i < len(el):
        f = el[i]
        if f["seq"] is None:
            out.extend(values.get(f["name"], []))
            i += 1
            continue
        end = max(j for j in range(i, len(el)) if el[j]["seq"] == f["seq"])
        group, i, j, rolling = el[i:end + 1], end + 1, 0, True
        while rolling:
            rolling = False
            for g in group:
                vs = values.get(g["name"], [])
                if g["list"]:
                    if j < len(vs):
                        rolling = True
                        out.append(vs[j])
                elif j == 0:
                    rolling = True
                    out.extend(vs)
            j += 1
    return out


def explain_children(trees, f):
    """a `children` difference, taken apart: children that disappeared are never explained; a child that appeared
    must be exactly <n xsi:nil="true"/> for an n that is nil in another occurrence of this element and absent here
    (C13-absent-nillable-rendered-nil); what is left may differ from the sample only by its order, and only if one
    of the two order findings holds for THIS element name."""
    if f["kind"] != "children" or f["missing"]:
        return None
    q = f["path"][-1]
    fid = why = None
    if f["extra"]:
        if "C13-absent-nillable-rendered-nil" not in listed_findings():
            return None
        nilable = absent_nillable_children(trees, q)
        if len({x[0] for x in f["extra"]}) != len(f["extra"]):
            return None  # an absent optional child is written once
        for x in f["extra"]:
            if not (x[0] in nilable and x[0] not in f["before"] and x[1] == [(NIL, "true")] and not x[2] and not x[3]):
                return None
        fid, why = "C13-absent-nillable-rendered-nil", f"{sorted({x[0] for x in f['extra']})} nil in another occurrence of {q}, absent here"
    if f["kept"] != f["before"]:
        if sorted(f["kept"]) != sorted(f["before"]):
            return None
        predicted = written_order(model_fields(trees).get(q), f["before"])
        if predicted is not None and predicted != f["kept"]:
            return None  # not the order the unchanged generator's fields give this occurrence
        for oid, pred in (("C13-sequence-numbers-positional", region_groups), ("C13-field-order-greedy-merge", region_order)):
            w = pred(trees, only=q) if oid in listed_findings() else None
            if w:
                return (fid or oid), (why + "; " if why else "") + w
        return None
    return (fid, why) if fid else None


def flatten_order(e):
    """the order in which ElementMapper.map yields the classes of one document: ClassUtils.flatten pops
    inner classes from the end"""
    out = []
    for c in reversed([c for c in e["c"] if class_like(c)]):
        out.extend(flatten_order(c))
    out.append(e)
    return out


def attr_names(e):
    names = ["@" + k for k, _ in e["a"] if k != S.qn(S.XSI, "nil")]
    for c in e["c"]:
        if c["q"] not in names:
            names.append(c["q"])
    text = e["t"] or ""
    if e["c"] and not text.strip():
        text = ""
    if text:
        names.append("#text")
    return names


def greedy_merge(name_lists):
    """own replica of how the field order is derived: occurrences with more fields first (stable), each
    later one spliced in front of the first of its names that is already known"""
    merged = []
    for names in sorted(name_lists, key=len, reverse=True):
        pending = []
        for n in names:
            if n in merged:
                pos = merged.index(n)
                merged[pos:pos] = pending
                pending = []
            else:
                pending.append(n)
        merged.extend(pending)
    return merged


def order_consistent(lists):
    """the greedy merge of these child orders (the UNCHANGED algorithm: the Python replica `greedy_merge`,
    tied to the Lean model's `orderRespected` and to the real `sorted_attrs` by `smp.order_respected`) is a
    linear extension of every one of them"""
    merged = greedy_merge(lists)
    rank = {n: i for i, n in enumerate(merged)}
    for names in lists:
        ranks = [rank[n] for n in names]
        if ranks != sorted(ranks):
            return False
    return True


def region_order(trees, only=None):
    """an element name whose occurrences are only jointly consistent about the order of their children:
    the greedy merge of the child orders contradicts one of them"""
    groups = {}
    for t in trees:
        for e in flatten_order(t):
            groups.setdefault(e["q"], []).append(attr_names(e))
    for q, lists in groups.items():
        if only is not None and q != only:
            continue
        if not order_consistent(lists):
            return f"children of {q}: the merged field order {greedy_merge(lists)} contradicts one of the occurrences {lists}"
    return None


def explain_xml(trees, f):
    """(finding id, why) when the listed finding predicts exactly this failure on these samples, else None.
    A finding covers single failures of the kind and at the place the unchanged code produces them; every other
    failure on the same samples is a new violation."""
    if f["kind"] in ("rejected", "bounds"):
        w = explain_empty_occurrence(trees, f)
        if w:
            return "C13-empty-occurrence-ignored", w
        return None
    if f["kind"] == "text":
        w = explain_union(trees, f)
        return ("C13-union-member-order", w) if w else None
    if f["kind"] == "attributes":
        return explain_attributes(trees, f)
    if f["kind"] == "children":
        return explain_children(trees, f)
    return None


def listed_findings():
    """ids of the C13 findings in known_findings.json: a predicate of this plug-in explains a failure only while its
    finding is listed there (and therefore replayed and printed on every run)"""
    from framework import load_findings

    return {f["id"] for f in load_findings().get("findings", []) if f.get("property") == PROP_ID}


def only_listed(r):
    return r if r is not None and r[0] in listed_findings() else None


def attribute_xml(docs, failures):
    """one entry per failure: (failure, (finding id, why) | None)"""
    trees = [S.from_xml(d) for d in docs]
    return [(f, only_listed(explain_xml(trees, f))) for f in failures]


def region_of(attributed):
    """the finding of the first failure when EVERY failure is explained by a listed finding, else None"""
    if not attributed or any(r is None for _, r in attributed):
        return None
    return attributed[0][1]


def xml_region(docs, failures):
    return region_of(attribute_xml(docs, failures))


def json_sites(docs, name="doc"):
    """class name -> key -> values, the way DictMapper names classes after keys"""
    out = {}

    def walk(d, cls):
        for k, v in d.items():
            vals = v if isinstance(v, list) else [v]
            out.setdefault(cls, {}).setdefault(k, []).extend(vals)
            for x in vals:
                if isinstance(x, dict):
                    walk(x, k)

    for d in docs:
        for item in (d if isinstance(d, list) else [d]):
            if isinstance(item, dict):
                walk(item, name)
    return out


def json_kind(v):
    if isinstance(v, bool):
        return "bool"
    if isinstance(v, int):
        return "int"
    if isinstance(v, float):
        return "float"
    return own_numeric_kind(v) if isinstance(v, str) and v else None


def explain_json(docs, f, name="doc"):
    """C13-json-string-typed-by-lexical-form, exactly: a JSON string whose field has a numeric member (because this
    string, or another value of the same key, looks like a number / boolean) comes back as the literal that member
    reads from it; nothing else"""
    if f["kind"] != "changed" or not isinstance(f["before"], str):
        return None
    keys = [k for k in f["path"] if not isinstance(k, int)]
    if not keys:
        return None
    cls = keys[-2] if len(keys) > 1 else name
    values = json_sites(docs, name).get(cls, {}).get(keys[-1], [])
    if f["before"] not in values:
        return None
    members = {json_kind(v) for v in values} - {None}
    r = union_reading(f["before"], members)
    if r is None:
        return None
    literal = float(r[1]) if r[0] == "decimal" else r[1]
    if S.json_norm(literal) == f["after"]:
        return "C13-json-string-typed-by-lexical-form", f"the string {f['before']!r} of {cls}.{keys[-1]} is read as the {r[0]} {literal!r}"
    return None


def attribute_json(docs, failures):
    return [(f, only_listed(explain_json(docs, f))) for f in failures]


def json_region(docs, failures):
    return region_of(attribute_json(docs, failures))


# ------------------------------------------------------------------ oracles as correspondence ops and for the search
def clean_xml_docs(rng, hetero=0.0):
    """samples of a hidden regular model; with hetero=0 they avoid the listed defect regions mostly.
    Elements with attributes / children are nillable too."""
    m = S.gen_xml_model(rng, hetero=hetero, group_min=2 if hetero == 0 else 1, nil_complex=0.12)
    return [
        S.to_xml(S.instance(rng, m, 2 if hetero == 0 else 1), pretty=rng.random() < 0.3, default_ns=rng.choice(S.NAMESPACES))
        for _ in range(rng.randint(1, 4))
    ]


WITNESS_XML = {
    "C13-union-member-order": ["<r><code>007</code></r>", "<r><code>12</code></r>"],
    "C13-sequence-numbers-positional": ["<r><e><x>1</x><x>2</x><v>a</v></e><e><v>b</v><y>1</y><y>2</y></e></r>"],
    "C13-empty-occurrence-ignored": ["<r><v><w>1</w></v><v/></r>"],
    "C13-empty-leaf-next-to-nil": [f'<r xmlns:xsi="{S.XSI}"><i xsi:nil="true"/><i/></r>'],
    "C13-absent-nillable-rendered-nil": [f'<r xmlns:xsi="{S.XSI}"><a>1</a><n xsi:nil="true"/></r>', "<r><a>2</a></r>"],
    "C13-field-order-greedy-merge": ["<r><x><b>1</b><c>1</c></x><x><v>1</v><b>1</b></x><x><v>1</v><c>1</c></x></r>"],
}
WITNESS_JSON = {
    "C13-json-string-typed-by-lexical-form": [{"a": "12"}],
}
HAND_OK_XML = [
    ["<r><a>1</a><b>x</b><a>2</a><b>y</b><c>z</c></r>"],
    ['<p:r xmlns:p="urn:p" xmlns:q="urn:q" q:at="1" at2="v"><p:a>1</p:a><q:b>x</q:b><c>z</c></p:r>'],
    ["<r><p>hello <b>x</b> world</p></r>"],
    # xsi:nil elements that also carry ordinary attributes, xsi:nil written first / in the middle / last, with no other
    # occurrence supplying the attributes (seeded/C13-nil-attrs-break-r7) — plain, namespaced, on simple content, on the root
    [f'<order xmlns:xsi="{S.XSI}"><id>7</id><discount xsi:nil="true" code="SUMMER" rate="15"/></order>'],
    [f'<order xmlns:xsi="{S.XSI}"><id>7</id><discount code="SUMMER" xsi:nil="true" rate="15"/></order>',
     f'<order xmlns:xsi="{S.XSI}"><id>8</id><discount code="WINTER" rate="5" xsi:nil="true"/></order>'],
    [f'<r xmlns:xsi="{S.XSI}" xmlns:p="urn:a"><v xsi:nil="true" p:k="1" k="x"/><v p:k="2" k="y" xsi:nil="true"/><w xsi:nil="true" u="2020-05"/></r>'],
    [f'<r xmlns:xsi="{S.XSI}"><s xsi:nil="true" unit="kg"/><s unit="g">12.5</s><t xsi:nil="true" a="1"><!--nil--></t></r>'],
    [f'<r xmlns:xsi="{S.XSI}" xsi:nil="true" id="1" lang="en"/>'],
    # nil in one place, children / attributes + text in another, in both orders (fixed: c13e-01)
    [f'<r xmlns:xsi="{S.XSI}"><i xsi:nil="true"/><i><a>1</a></i></r>'],
    [f'<r xmlns:xsi="{S.XSI}"><i><a>1</a></i><i xsi:nil="true"/></r>'],
    [f'<r xmlns:xsi="{S.XSI}"><i k="2" xsi:nil="true"/><i k="1">t</i></r>', f'<r xmlns:xsi="{S.XSI}"><i k="3">u</i></r>'],
    # a later sample with a run of two new children in front of a known one (seeded/C13-sorted-attrs-reversed-run)
    ['<order xmlns="urn:shop"><id>1001</id><customer>Jane</customer><priority>3</priority><total>19.9</total></order>',
     '<order xmlns="urn:shop"><id>1002</id><giftwrap>true</giftwrap><coupon>SPRING</coupon><total>5.25</total></order>'],
    ["<r><i><a>1</a><z>9</z></i><i><a>2</a><p>x</p><q>y</q><s>w</s><z>8</z></i><i><a>3</a><b>u</b><c>v</c><z>7</z></i></r>"],
    ["<r><p><b/> tail only</p><p><b>x</b></p></r>"],
    ["<r><p><b/><b/> tail<i>x</i></p><p>lead <i>y</i></p></r>"],
    ["<r><p>lead <i>y</i><b>z</b></p><p>other <i>y</i></p></r>"],  # mixed only because of the text in front of the children
    ["<r><a>1</a><o>true</o></r>", "<r><a>2</a></r>"],
    ['<r><item id="1"><n>x</n></item><item id="2"><n>y</n><m>2.5</m></item></r>'],
    [f'<r xmlns:xsi="{S.XSI}"><a xsi:nil="true"/><b>1</b></r>', "<r><a>5</a><b>1</b></r>"],
]


def e2e_xml_args(docs):
    trees = [S.from_xml(d) for d in docs]
    return {"docs": docs, "trees": trees, "freprs": freprs(s for t in trees for s in S.tree_strings(t))}


def gen_e2e_xml(rng, tier):
    for docs in HAND_OK_XML:
        yield e2e_xml_args(docs)
    for fid, docs in WITNESS_XML.items():
        if fid in listed_findings():
            yield e2e_xml_args(docs)
    for i in range(n_cases(tier, 260, 2000)):
        yield e2e_xml_args(clean_xml_docs(rng, hetero=0.3 if i % 6 == 5 else 0.0))


def outcome(attributed):
    """accepted | finding:<id> (every failure is one a listed finding predicts; the first one's id) | violation"""
    if not attributed:
        return ok("accepted")
    region = region_of(attributed)
    if region:
        return ok("finding:" + region[0])
    return err("violation: " + "; ".join(f["msg"][:300] for f, r in attributed if r is None)[:900])


def impl_e2e_xml(a):
    return outcome(attribute_xml(a["docs"], xml_failures(a)))


def e2e_json_args(docs):
    return {"docs": docs, "enc": [S.enc_json(d) for d in docs], "name": "doc", "freprs": freprs(s for d in docs for s in S.json_strings(d))}


def clean_json_docs(rng, hetero=0.0):
    m = S.gen_json_model(rng, hetero=hetero)
    docs = [S.json_instance(rng, m, null_arrays=True) for _ in range(rng.randint(1, 4))]
    # a sample document may also be an array of root objects (process_json_documents maps every item)
    return [[d] + [S.json_instance(rng, m, null_arrays=True) for _ in range(rng.randint(0, 2))] if rng.random() < 0.15 else d for d in docs]


def gen_e2e_json(rng, tier):
    yield e2e_json_args([{"a": 1, "b": "x", "c": None, "d": [], "e": [1, 2], "f": {"g": True}, "h": [{"i": 1.5}, {"i": None, "j": "k"}]}])
    yield e2e_json_args([{"a": [1]}, {"a": None}])  # null for a key that is an array elsewhere (fixed: c13d-01)
    yield e2e_json_args([{"a": [{"b": 1}], "t": ["x"]}, {"a": None, "t": None}, {}])
    yield e2e_json_args([[{"a": 1}, {"a": 2, "b": "x"}], {"a": 3}])  # a document that is an array of root objects
    for docs in WITNESS_JSON.values():
        yield e2e_json_args(docs)
    for i in range(n_cases(tier, 160, 1600)):
        yield e2e_json_args(clean_json_docs(rng, hetero=0.3 if i % 6 == 5 else 0.0))


def impl_e2e_json(a):
    return outcome(attribute_json(a["docs"], json_failures(a)))


def gen_fields(rng, tier):
    for docs in HAND_OK_XML:
        yield e2e_xml_args(docs)
    for docs in WITNESS_XML.values():
        yield e2e_xml_args(docs)
    for i in range(n_cases(tier, 120, 1200)):
        yield e2e_xml_args(clean_xml_docs(rng, hetero=0.3 if i % 4 == 3 else 0.0))


def impl_fields(a):
    """the fields of the classes the real pipeline generates from the samples, as the dataclasses declare them"""
    import dataclasses

    from xsdata.formats.dataclass.context import XmlContext

    g = CG.run_pipeline({f"s{i}.xml": t for i, t in enumerate(a["docs"])})
    try:
        if g.error is not None:
            return err("GEN:" + type(g.error).__name__)
        ctx = XmlContext()
        out = {}
        for cls in g.classes().values():
            if not dataclasses.is_dataclass(cls):
                continue
            fields = []
            for f in dataclasses.fields(cls):
                md = f.metadata
                is_list = f.default_factory is not dataclasses.MISSING
                fields.append({
                    "tag": md.get("type") or "SimpleType", "name": md.get("name", f.name), "list": is_list,
                    "default": is_list or f.default is not dataclasses.MISSING,
                    "nillable": bool(md.get("nillable", False)), "min": md.get("min_occurs"), "max": md.get("max_occurs"),
                    "seq": md.get("sequence"),
                })
            out[ctx.build(cls).qname] = fields
        return ok(out)
    finally:
        g.close()


def compare_fields(mo, io, a):
    """every non-mixed class the model reduces the samples to is generated with exactly the predicted fields"""
    if not (isinstance(mo, dict) and "ok" in mo and isinstance(io, dict) and "ok" in io):
        return mo == io
    for c in mo["ok"]:
        if c["fields"] is None:
            continue
        if io["ok"].get(c["qname"]) != c["fields"]:
            return False
    return True


def classify_fields(a, o):
    if not (isinstance(o, dict) and "ok" in o):
        return str(o)
    fs = [f for c in o["ok"].values() for f in c]
    flags = []
    for k, t in (("list", lambda f: f["list"]), ("seq", lambda f: f["seq"]), ("nillable", lambda f: f["nillable"]),
                 ("optional", lambda f: f["default"] and not f["list"]), ("min", lambda f: f["min"]), ("wild", lambda f: f["tag"] == "Wildcard")):
        if any(t(f) for f in fs):
            flags.append(k)
    return "+".join(flags) or "plain"


def compare_e2e(mo, io, a):
    """the model's own verdict (every mapped occurrence is admitted by the reduced classes) must be
    `accepted`; the real pipeline must accept the samples or fail inside a listed defect region"""
    return mo == {"ok": "accepted"} and isinstance(io, dict) and (
        io.get("ok") == "accepted" or (isinstance(io.get("ok"), str) and io["ok"].startswith("finding:") and io["ok"][8:] in FINDINGS))


def classify_e2e(a, o):
    return o.get("ok") or "violation"


CORRS = [
    Corr("smp.test_strict", gen_test_strict, impl_test_strict, classify=lambda a, o: f"{a['t']}:{o.get('ok')}", describe="converter.test(s,[tp],strict=True) per explicit type (float/Decimal abstract)"),
    Corr("smp.infer", gen_infer, impl_infer, classify=classify_infer, describe="RawDocumentMapper.build_attr_type on strings, JSON literals, xsi:type"),
    Corr("smp.components", gen_components, impl_components, classify=lambda a, o: f"{len(a['lists'])} lists -> {len(o.get('ok', []))} components" if len(a["lists"]) < 4 else f"4+ lists -> {min(len(o.get('ok', [])), 3)}{'+' if len(o.get('ok', [])) > 3 else ''} components",
         describe="collections.connected_components"),
    Corr("smp.find_component", gen_find_component, impl_find_component, classify=lambda a, o: "absent" if o.get("ok") == -1 else "found",
         describe="collections.find_connected_component"),
    Corr("smp.order_respected", gen_order_respected, impl_order_respected, classify=lambda a, o: str(o.get("ok")),
         describe="is the order ClassUtils.sorted_attrs derives a linear extension of every occurrence's order: real code, the Python replica behind "
                  "the region of C13-field-order-greedy-merge, and the model's `orderRespected` (hypothesis of field_order_respected_partial) agree"),
    Corr("smp.groups", gen_groups, impl_groups, classify=classify_groups, describe="ElementMapper.group_repeating_attrs / sequential_groups / sequence numbers"),
    Corr("smp.map_xml", gen_map_xml, impl_map_xml, classify=classify_classes, describe="TreeParser + ElementMapper.map on a document vs model on lxml's reading of the same text"),
    Corr("smp.map_json", gen_map_json, impl_map_json, classify=classify_classes, describe="DictMapper.map"),
    Corr("smp.reduce", gen_reduce, impl_reduce, classify=classify_classes, describe="ClassUtils.reduce_classes on constructed classes (also malformed)"),
    Corr("smp.xml_docs", gen_xml_docs, impl_xml_docs, classify=classify_classes, describe="process_xml_documents core: map every document, reduce_classes"),
    Corr("smp.json_docs", gen_json_docs, impl_json_docs, classify=classify_classes, describe="process_json_documents core"),
    Corr("smp.fields", gen_fields, impl_fields, compare=compare_fields, classify=classify_fields,
         describe="the fields of the generated dataclasses (kind, name, list, default, nillable, min/max_occurs, sequence) vs the model: "
                  "map + reduce + CalculateAttributePaths + ProcessAttributeTypes(nillable) + ResetAttributeSequences + ResetAttributeSequenceNumbers + asdict"),
    Corr("smp.e2e_xml", gen_e2e_xml, impl_e2e_xml, compare=compare_e2e, classify=classify_e2e,
         describe="whole real pipeline + stand-in renderer on samples of a hidden regular model: strict parse and re-serialisation of every sample; the model side evaluates merged_bounds_sound on the same samples"),
    Corr("smp.e2e_json", gen_e2e_json, impl_e2e_json, compare=compare_e2e, classify=classify_e2e, describe="the same for JSON samples"),
]


def gen_oracle_xml(rng, tier):
    for docs in HAND_OK_XML:
        yield {"docs": docs}
    for i in range(n_cases(tier, 400, 6000)):
        yield {"docs": clean_xml_docs(rng, hetero=0.3 if i % 5 == 4 else 0.0)}


def gen_oracle_json(rng, tier):
    for i in range(n_cases(tier, 300, 5000)):
        yield {"docs": clean_json_docs(rng, hetero=0.3 if i % 5 == 4 else 0.0)}


def covered_xml(a, msg):
    """the oracle's message lists every failure of the sample set; it is covered only when each single failure is
    one a listed finding predicts (kind, place and new value)"""
    failures = recall("xml", a["docs"])
    if failures is None:
        failures = xml_failures(a)
    r = xml_region(a["docs"], failures)
    return r[0] if r else None


def covered_json(a, msg):
    failures = recall("json", a["docs"])
    if failures is None:
        failures = json_failures(a)
    r = json_region(a["docs"], failures)
    return r[0] if r else None


def adapt_xml(op, a):
    if op in ("smp.e2e_xml",):
        return {"docs": a["docs"]}
    if not a.get("regular"):
        return None  # the property speaks about samples of a regular model only
    if op == "smp.xml_docs":
        return {"docs": a["texts"]}
    if op == "smp.map_xml":
        return {"docs": [a["text"]]}
    return None


def adapt_json(op, a):
    if op == "smp.e2e_json":
        return {"docs": a["docs"]}
    if not a.get("regular"):
        return None
    if op == "smp.json_docs":
        return {"docs": a["raw"]}
    if op == "smp.map_json":
        return {"docs": [a["raw"]]}
    return None


ORACLES = [
    Oracle("c13.xml_samples", gen_oracle_xml, oracle_xml, covered=covered_xml, from_ops=("smp.e2e_xml", "smp.xml_docs", "smp.map_xml"), adapt=adapt_xml),
    Oracle("c13.json_samples", gen_oracle_json, oracle_json, covered=covered_json, from_ops=("smp.e2e_json", "smp.json_docs", "smp.map_json"), adapt=adapt_json),
]


def replay_xml(fid):
    def run():
        docs = WITNESS_XML[fid]
        att = attribute_xml(docs, xml_failures({"docs": docs}))
        still = bool(att) and all(r is not None and r[0] == fid for _, r in att)
        return (still, failures_text([f for f, _ in att]) or "the samples now round-trip")

    return run


def replay_json(fid):
    def run():
        docs = WITNESS_JSON[fid]
        att = attribute_json(docs, json_failures({"docs": docs}))
        still = bool(att) and all(r is not None and r[0] == fid for _, r in att)
        return (still, failures_text([f for f, _ in att]) or "the samples now round-trip")

    return run


FINDINGS = {**{k: replay_xml(k) for k in WITNESS_XML}, **{k: replay_json(k) for k in WITNESS_JSON}}
TRUSTED = [
    "repr(float(s)) is the one abstract function of the strict lexical tests (its answers travel with the request); float() syntax, Decimal, int, bool, XmlTime, XmlDate, XmlDateTime, XmlDuration, XmlPeriod are computed by the models",
    "lxml reads the sample text for the model side and compares infosets for the oracle",
    "jinja2/ruff absent: harness/standin_render.py transliterates the templates; ClassAnalyzer, the renderer, XmlParser/JsonParser and the serializers are exercised end to end only",
]
ASSUMPTIONS = [
    "element and attribute names contain an ASCII letter or digit (Attr.__post_init__ renames others); JSON keys are non-empty",
    "canonical spelling = what xsdata's own converter writes for the value; JSON: 1 and 1.0 are one number; an absent key, a null and an empty array are one thing",
    "connected_components is modelled by input/output behaviour (absorbing fold instead of the breadth-first walk)",
]
LEVEL_TEXT = (
    "Partial. Lean theorems (Props/C13.lean, Props/C13Interleave.lean) about the executable model of the cores: for any XML / JSON documents the classes "
    "obtained by ElementMapper/DictMapper.map + reduce_classes exist and admit every mapped occurrence (merged_bounds_sound states it in child counts), and so do "
    "the fields of the generated dataclasses after the ClassAnalyzer handlers (xml_fields_admit_samples: repeated child => list field, bounds never contradict the "
    "occurrence, unused fields have defaults; the model predicts the generated fields exactly, checked field by field against the real generator); match_type picks the "
    "first live explicit type whose strict test accepts, and values inferred as int, bool, Decimal and float are read and written back unchanged by the converter models "
    "(only repr(float) is taken from outside); connected_components is the partition into maximal overlapping groups, independent of order; an interleaving marker of any "
    "occurrence survives the merge (sequence_marker_kept), a class is nillable exactly when some occurrence of its name is xsi:nil (nillable_any_occurrence) and a regular sequence group is written back in document order by EventGenerator.next_value (interleave_reproduced). "
    "Three full-strength statements the code violates (union members read in fixed order, positional sequence numbers, greedy field order) are refuted by witnesses and "
    "proved under decidable hypotheses. Tied to /repo by correspondence of every core (the real ResourceTransformer on preloaded resources) and by the end-to-end oracle "
    "(whole pipeline, strict parse, re-serialisation; EVERY failure of a sample set is collected and each must be one a listed finding predicts: kind, place and new value) "
    "on samples of hidden regular models; eight defects listed as known findings, three repaired."
)
LEVEL_NOTE = "Trusted: Lean kernel, sampling correspondence, lxml, stand-in renderer; repr(float) abstract; mixed classes outside the field model."
