/- C02 — namespaces and forms: the qualified name a generated field is bound to, against the name
the schema gives the element / attribute: property theorems (only).

`specNs ctx d` (Spec, `Gen/Ns`): the namespace name of the items a declaration or reference `d`
admits in a schema document with the bindings `ctx` (`targetNamespace`, `xmlns`, form defaults,
chameleon include). `fieldNs ctx classNs d`: what `SchemaParser` (forms), `SchemaMapper.
element_namespace`, `Filters.field_metadata` (the namespace entry is omitted when it equals the
class namespace) and `XmlMetaBuilder.resolve_namespaces` (an element without entry inherits the class
namespace) make of it. The model is the mapper after the repair `fix: SchemaMapper.element_namespace
resolves an unprefixed element or attribute reference to the default namespace in scope`.
Helper lemmas: `Proofs/Ns`. -/
import XsdataModel.Gen.Ns
import XsdataModel.Proofs.Ns

namespace Props.C02Ns
open Py Xs.Gen

/-- a running example: `targetNamespace="urn:t" xmlns:t="urn:t" xmlns="urn:o"
elementFormDefault="qualified"` -/
def exCtx : NsCtx :=
  { tns := some "urn:t".toList, defaultNs := some "urn:o".toList,
    prefixes := [("t".toList, "urn:t".toList)], elementForm := some .qualified }

/-- **The mapper's namespace is the schema's**: for every schema context and every local
declaration, reference or global declaration (element or attribute), except an unprefixed reference
where the chameleon heuristic is wrong (`refHeuristicOk`, see `element_namespace_heuristic_false`). -/
theorem element_namespace_spec_partial (ctx : NsCtx) (d : NsDecl) (hc : ctx.wf = true)
    (hd : d.wf ctx = true) (hh : refHeuristicOk ctx d = true) :
    normNs (elementNamespace ctx d) = normNs (specNs ctx d) :=
  element_namespace_spec_core ctx d hc hd hh

/-- the hypotheses are satisfiable: `<xs:element ref="g"/>` under `xmlns="urn:o"` is `{urn:o}g`
(before the repair: no namespace) -/
example : normNs (elementNamespace exCtx (.refD false none)) = some "urn:o".toList :=
  (element_namespace_spec_partial exCtx (.refD false none) (by decide) (by decide) (by decide)).trans
    (by decide)

/-- **Generator and binding together**: the field of a class whose namespace is the one the
template hands down (none, or the target namespace) is bound to the schema's name. -/
theorem field_namespace_partial (ctx : NsCtx) (classNs : Option Str) (d : NsDecl)
    (hc : ctx.wf = true) (hd : d.wf ctx = true) (hh : refHeuristicOk ctx d = true)
    (hcls : classNs = none ∨ classNs = ctx.tns) :
    fieldNs ctx classNs d = normNs (specNs ctx d) :=
  field_namespace_core ctx classNs d hc hd hh hcls

/-- a local element without `form` under `elementFormDefault="qualified"`, in the class of a
global element: the namespace entry is omitted and inherited from the class -/
example : fieldMetaNs exCtx.tns (elementNamespace exCtx (.localD false none none)) false = none ∧
    fieldNs exCtx exCtx.tns (.localD false none none) = some "urn:t".toList :=
  ⟨by decide, (field_namespace_partial exCtx exCtx.tns (.localD false none none) (by decide)
    (by decide) (by decide) (Or.inr rfl)).trans (by decide)⟩

/-- an attribute never inherits: without `form`, `attributeFormDefault` absent → no namespace -/
example : fieldNs exCtx exCtx.tns (.localD true none none) = none :=
  (field_namespace_partial exCtx exCtx.tns (.localD true none none) (by decide) (by decide)
    (by decide) (Or.inr rfl)).trans (by decide)

/-- the statement without `refHeuristicOk` -/
def ElementNamespaceSpec : Prop :=
  ∀ (ctx : NsCtx) (d : NsDecl), ctx.wf = true → d.wf ctx = true →
    normNs (elementNamespace ctx d) = normNs (specNs ctx d)

/-- `targetNamespace="urn:t"` and no binding of `urn:t` at all -/
def unboundCtx : NsCtx := { tns := some "urn:t".toList }

/-- **Defect (finding `C02-unprefixed-ref-unbound-target-namespace`)**: in a document with its own
target namespace that binds nothing to it, `<xs:element ref="n"/>` refers to the element `n`
without namespace, but `element_namespace` takes the missing binding for a chameleon include and
answers the target namespace. -/
theorem element_namespace_heuristic_false : ¬ ElementNamespaceSpec := by
  intro h
  have := h unboundCtx (.refD false none) (by decide) (by decide)
  exact absurd this (by decide)

/-- **The namespace entry is faithful**: whatever namespace the class hands down, the field is
bound to the mapper's namespace, provided an element has one (`none` stands for "inherit"). -/
theorem meta_namespace_roundtrip (ctx : NsCtx) (classNs : Option Str) (d : NsDecl)
    (h : elementNamespace ctx d = none → d.isAttr = true ∨ classNs = none) :
    fieldNs ctx classNs d = normNs (elementNamespace ctx d) :=
  fieldNs_eq ctx classNs d h

example : fieldNs exCtx none (.refD false (some "t".toList)) = some "urn:t".toList :=
  (meta_namespace_roundtrip exCtx none (.refD false (some "t".toList)) (by decide)).trans (by decide)

end Props.C02Ns
