/-
C01 (fragment with `tokens`): `" ".join(tokens)` against `str.split()`, and the token-list
round trip of `encode_primitive` / `encode_data` / `parse_value`.
-/
import XsdataModel.Proofs.C01NWrite

namespace Proofs.C01
open Py Xs.Bind Xs.Bind.F1 Xs.Bind.FN

/-! ### `" ".join` and `str.split()` -/

/-- a token: not empty, no white space -/
def TokStr (e : Env) (t : Str) : Prop := t ≠ [] ∧ ∀ c ∈ t, e.isSpace c = false

def joinSp : List Str → Str
  | [] => []
  | [t] => t
  | t :: ts => t ++ ' ' :: joinSp ts

theorem intercalate_eq_joinSp (ts : List Str) : " ".toList.intercalate ts = joinSp ts := by
  induction ts with
  | nil => rfl
  | cons t ts ih =>
    cases ts with
    | nil => simp [List.intercalate, joinSp]
    | cons u us =>
      have : " ".toList.intercalate (t :: u :: us) = t ++ ' ' :: " ".toList.intercalate (u :: us) := by
        simp [List.intercalate, List.intersperse]
      rw [this, ih]; rfl

theorem isSpace_space (e : Env) : e.isSpace ' ' = true := by
  simp [Env.isSpace, isAscii, isAsciiSpace]

theorem split_go_space (e : Env) (f : Nat) (s : Str) (acc : List Str) :
    pySplitWs.go e (f + 1) (' ' :: s) acc = pySplitWs.go e (f + 1) s acc := by
  simp [pySplitWs.go, List.dropWhile, isSpace_space]

theorem takeWhile_tok (e : Env) {t : Str} (ht : ∀ c ∈ t, e.isSpace c = false) (rest : Str)
    (hr : rest = [] ∨ ∃ r, rest = ' ' :: r) :
    (t ++ rest).takeWhile (fun c => !e.isSpace c) = t ∧
    (t ++ rest).dropWhile (fun c => !e.isSpace c) = rest := by
  induction t with
  | nil =>
    rcases hr with rfl | ⟨r, rfl⟩
    · simp
    · simp [List.takeWhile, List.dropWhile, isSpace_space]
  | cons c cs ih =>
    have hc := ht c (by simp)
    have := ih (fun d hd => ht d (by simp [hd]))
    simp [List.takeWhile, List.dropWhile, hc, this.1, this.2]

theorem split_go_join (e : Env) : ∀ (ts : List Str), (∀ t ∈ ts, TokStr e t) →
    ∀ (f : Nat) (acc : List Str), ts.length < f →
    pySplitWs.go e f (joinSp ts) acc = acc.reverse ++ ts := by
  intro ts
  induction ts with
  | nil =>
    intro _ f acc hf
    obtain ⟨f', rfl⟩ : ∃ f', f = f' + 1 := ⟨f - 1, by omega⟩
    simp [pySplitWs.go, joinSp]
  | cons t ts ih =>
    intro h f acc hf
    obtain ⟨f', rfl⟩ : ∃ f', f = f' + 1 := ⟨f - 1, by simp at hf; omega⟩
    obtain ⟨hne, hsp⟩ := h t (by simp)
    obtain ⟨c, cs, rfl⟩ : ∃ c cs, t = c :: cs := by
      cases t with
      | nil => exact absurd rfl hne
      | cons c cs => exact ⟨c, cs, rfl⟩
    have hc := hsp c (by simp)
    -- the string to split
    obtain ⟨rest, hrest, hjoin⟩ : ∃ rest, (rest = [] ∨ ∃ r, rest = ' ' :: r) ∧
        joinSp ((c :: cs) :: ts) = (c :: cs) ++ rest ∧ (ts = [] → rest = []) ∧
        (ts ≠ [] → rest = ' ' :: joinSp ts) := by
      cases ts with
      | nil => exact ⟨[], Or.inl rfl, by simp [joinSp], (fun _ => rfl), fun h => absurd rfl h⟩
      | cons u us => exact ⟨' ' :: joinSp (u :: us), Or.inr ⟨_, rfl⟩, rfl, (fun h => by cases h), fun _ => rfl⟩
    obtain ⟨hj, hnil, hcons⟩ := hjoin
    have htd := takeWhile_tok e hsp rest hrest
    rw [hj, pySplitWs.go]
    have hdw : ((c :: cs) ++ rest).dropWhile e.isSpace = (c :: cs) ++ rest := by
      simp [List.dropWhile, hc]
    simp only [hdw, htd.1, htd.2]
    have hne' : ((c :: cs) ++ rest).isEmpty = false := rfl
    simp only [hne', Bool.false_eq_true, if_false]
    by_cases hts : ts = []
    · subst hts
      rw [hnil rfl]
      obtain ⟨f'', rfl⟩ : ∃ f'', f' = f'' + 1 := ⟨f' - 1, by simp at hf; omega⟩
      simp [pySplitWs.go]
    · rw [hcons hts]
      obtain ⟨f'', rfl⟩ : ∃ f'', f' = f'' + 1 := ⟨f' - 1, by simp at hf; omega⟩
      rw [split_go_space, ih (fun t ht => h t (by simp [ht])) _ _ (by simp at hf; omega)]
      simp

theorem joinSp_length (ts : List Str) (h : ∀ t ∈ ts, t ≠ []) : ts.length ≤ (joinSp ts).length := by
  induction ts with
  | nil => simp
  | cons t ts ih =>
    have ht : 1 ≤ t.length := by
      cases t with
      | nil => exact absurd rfl (h [] (by simp))
      | cons _ _ => simp
    have := ih (fun u hu => h u (by simp [hu]))
    cases ts with
    | nil => simp [joinSp]; omega
    | cons u us => simp only [joinSp, List.length_append, List.length_cons] at this ⊢; omega

/-- `" ".join(tokens).split() == tokens` -/
theorem pySplitWs_join (e : Env) (ts : List Str) (h : ∀ t ∈ ts, TokStr e t) :
    pySplitWs e (" ".toList.intercalate ts) = ts := by
  rw [intercalate_eq_joinSp]
  unfold pySplitWs
  rw [split_go_join e ts h _ _ (by
    have := joinSp_length ts (fun t ht => (h t ht).1)
    omega)]
  simp


/-! ### token lists -/

open Proofs.DatesFormatParse in
theorem natStr_no_space (e : Env) (n : Nat) : ∀ c ∈ natStr n, e.isSpace c = false := by
  rw [natStr_eq]
  intro c hc
  exact not_space_of_digit e (nstr_AllD n c hc)

/-- a serialized token is a token -/
theorem tokStr_serPrim (e : BEnv) {p : PVal} {t : PT} (hpt : primHasType p t = true)
    (hok : tokenOK e p = true) : TokStr e.py (serPrim p) := by
  cases p <;> cases t <;> simp [primHasType] at hpt
  · rename_i s
    simp only [tokenOK, Bool.and_eq_true, Bool.not_eq_true', List.all_eq_true,
      List.isEmpty_eq_false_iff] at hok
    exact ⟨hok.1, fun c hc => by simpa using hok.2 c hc⟩
  · rename_i i
    refine ⟨?_, ?_⟩
    · simp only [serPrim, intStr]; split <;> simp [natStr_ne_nil]
    · simp only [serPrim, intStr]
      split
      · intro c hc
        simp only [List.mem_cons] at hc
        rcases hc with rfl | hc
        · simp [Env.isSpace, isAscii, isAsciiSpace]
        · exact natStr_no_space e.py _ c hc
      · exact natStr_no_space e.py _
  · rename_i b
    cases b <;> refine ⟨by simp [serPrim], ?_⟩ <;> intro c hc <;> simp [serPrim] at hc <;>
      rcases hc with rfl | rfl | rfl | rfl | hc <;> try (simp [Env.isSpace, isAscii, isAsciiSpace])
    all_goals (first | (subst hc; simp [Env.isSpace, isAscii, isAsciiSpace]) | skip)

/-- the strings of a token list -/
def tokStrs (ys : List Val) : List Str :=
  ys.filterMap fun y => match y with | .prim p => some (serPrim p) | _ => none

def joinTok (ys : List Val) : Str := " ".toList.intercalate (tokStrs ys)

/-- the payload `encode_primitive` makes of a token list -/
def tokData (ys : List Val) : Data :=
  .list (ys.map fun y => match y with | .prim p => Data.prim (.str (serPrim p)) | _ => Data.none)

/-- what `tokensOK` says -/
def Toks (e : BEnv) (t : PT) (ys : List Val) : Prop :=
  ∀ y ∈ ys, ∃ p, y = .prim p ∧ primHasType p t = true ∧ tokenOK e p = true

theorem toks_of {e : BEnv} {t : PT} {x : Val} (h : tokensOK e t x = true) :
    ∃ ys, x = .list ys ∧ Toks e t ys := by
  cases x <;> simp [tokensOK] at h
  rename_i ys
  refine ⟨ys, rfl, fun y hy => ?_⟩
  have := h y hy
  cases y <;> simp at this
  rename_i p
  exact ⟨p, rfl, this.1, this.2⟩

theorem encodePrimitive_toks {e : BEnv} {t : PT} {ys : List Val} (h : Toks e t ys) :
    encodePrimitive (.list ys) = .ok (tokData ys) := by
  simp only [encodePrimitive, tokData]
  rw [mapM_ok _ (fun y => match y with | .prim p => Data.prim (.str (serPrim p)) | _ => Data.none) ys]
  · rfl
  · intro y hy
    obtain ⟨p, rfl, hpt, _⟩ := h y hy
    cases p <;> cases t <;> simp [primHasType] at hpt <;> simp [serPrim]

theorem tokData_parts {e : BEnv} {t : PT} (g : Data → Option Str)
    (hg : ∀ s, g (.prim (.str s)) = some s) : ∀ (l : List Val), Toks e t l →
    (l.map fun y => match y with | .prim p => Data.prim (.str (serPrim p)) | _ => Data.none).map g =
      (tokStrs l).map some := by
  intro l hl
  induction l with
  | nil => rfl
  | cons a l ih =>
    obtain ⟨p, rfl, _, _⟩ := hl a (by simp)
    have := ih (fun y hy => hl y (by simp [hy]))
    simp only [List.map_cons, tokStrs, List.filterMap_cons, hg] at this ⊢
    rw [this]

/-- one part of `" ".join(...)` in `encode_data` -/
def encPart (M : NsMap) : Data → Option Str
  | .prim (.str s) => some s
  | .prim (.qname t) => some (qnameText M t)
  | .prim p => some (serPrim p)
  | _ => none

theorem encodeData_list_cons (M : NsMap) (d : Data) (ds : List Data) :
    encodeData M (.list (d :: ds)) =
      (if ((d :: ds).map (encPart M)).all Option.isSome
        then some (some (" ".toList.intercalate (((d :: ds).map (encPart M)).filterMap id))) else none) := rfl

theorem encodeData_toks {e : BEnv} {t : PT} {ys : List Val} (M : NsMap) (h : Toks e t ys) :
    encodeData M (tokData ys) = some (if ys.isEmpty then none else some (joinTok ys)) := by
  cases ys with
  | nil => rfl
  | cons y ys' =>
    have := tokData_parts (e := e) (t := t) (encPart M) (fun s => rfl) (y :: ys') h
    simp only [tokData, List.map_cons] at this ⊢
    rw [encodeData_list_cons, List.map_cons, this]
    simp [joinTok]

theorem parseVar_toks (e : BEnv) (cfg : ParserConfig) (vc : VarCore) {t : PT} {ys : List Val}
    (nsmap : NsMap) (htok : vc.tokens = true) (hty : vc.types = [.prim t]) (h : Toks e t ys) :
    parseVar e cfg vc (some (joinTok ys)) nsmap = .ok ⟨.list ys, false⟩ := by
  have hsplit : pySplitWs e.py (joinTok ys) = tokStrs ys := by
    apply pySplitWs_join
    intro s hs
    simp only [tokStrs, List.mem_filterMap] at hs
    obtain ⟨y, hy, hys⟩ := hs
    obtain ⟨p, rfl, hpt, hok⟩ := h y hy
    simp only [Option.some.injEq] at hys
    subst hys
    exact tokStr_serPrim e hpt hok
  have hmap : ∀ (l : List Val), Toks e t l →
      (tokStrs l).mapM (fun s => deserialize e s [.prim t] nsmap) =
        some (l.filterMap fun y => match y with | .prim p => some p | _ => none) ∧
      (l.filterMap fun y => match y with | .prim p => some p | _ => none).map Val.prim = l := by
    intro l hl
    induction l with
    | nil => exact ⟨rfl, rfl⟩
    | cons a l ih =>
      obtain ⟨p, rfl, hpt, _⟩ := hl a (by simp)
      obtain ⟨ih1, ih2⟩ := ih (fun y hy => hl y (by simp [hy]))
      constructor
      · simp only [tokStrs, List.filterMap_cons, List.mapM_cons] at ih1 ⊢
        rw [deserialize_serPrim e p t nsmap hpt, ih1]; rfl
      · simp only [List.filterMap_cons, List.map_cons, ih2]
  obtain ⟨h1, h2⟩ := hmap ys h
  simp only [parseVar, htok, hty, hsplit, Option.getD_none, if_true, h1, h2]

end Proofs.C01
