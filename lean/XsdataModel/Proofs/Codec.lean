/- Helper lemmas: base16 / base64 codecs against the XSD lexical relations. -/
import XsdataModel.Conv.Bytes
import XsdataModel.Spec.Xsd

namespace Xs.Conv
open Py Xs.Spec

/-- every octet is below 256 -/
def AllBytes (bs : Bytes) : Prop := ∀ b ∈ bs, b < 256

/-! ### base16 -/

theorem hexVal_eq (c : Char) : hexVal c = hexDigitVal c := by
  unfold hexVal hexDigitVal isAsciiDigit
  simp only [Bool.and_eq_true, decide_eq_true_eq]

theorem hexDigit_val : ∀ v, v < 16 → hexDigitVal (hexDigit v) = some v := by decide

theorem hexEncode_valid (bs : Bytes) (h : AllBytes bs) : XsdHexBinary (hexEncode bs) bs := by
  induction bs with
  | nil => exact .nil
  | cons b bs ih =>
    have hb : b < 256 := h b (by simp)
    have := XsdHexBinary.pair (hexDigit (b / 16)) (hexDigit (b % 16)) (b / 16) (b % 16) (hexEncode bs) bs
      (hexDigit_val _ (by omega)) (hexDigit_val _ (by omega)) (ih (fun x hx => h x (by simp [hx])))
    have e : b / 16 * 16 + b % 16 = b := by omega
    rw [e] at this
    exact this

theorem unhexlify_lex (s : Str) (bs : Bytes) (h : XsdHexBinary s bs) : unhexlify s = some bs := by
  induction h with
  | nil => rfl
  | pair a b x y rest bs ha hb _ ih =>
    unfold unhexlify
    simp [hexVal_eq, ha, hb, ih]

/-! ### base64 -/

theorem b64Char_alpha : ∀ v, v < 64 → b64Char v = b64AlphaChar (v) := by decide +kernel

theorem b64Val_alpha : ∀ v, v < 64 → b64Val (b64AlphaChar (v)) = some v := by decide +kernel

theorem b64Alpha_ne_pad : ∀ v, v < 64 → (b64AlphaChar (v) = '=') = False := by decide +kernel

theorem b64Loop_data0 (c : Char) (cs : Str) (v : Nat) (hv : v < 64) (hc : c = b64AlphaChar (v)) :
    b64Loop (c :: cs) 0 0 0 false = b64Loop cs 1 v 0 false := by
  subst hc
  rw [b64Loop]
  simp [b64Alpha_ne_pad v hv, b64Val_alpha v hv]

theorem b64Loop_data1 (c : Char) (cs : Str) (l v : Nat) (hv : v < 64) (hc : c = b64AlphaChar (v)) :
    b64Loop (c :: cs) 1 l 0 false = (b64Loop cs 2 (v % 16) 0 false).map ((l * 4 + v / 16) :: ·) := by
  subst hc
  rw [b64Loop]
  simp [b64Alpha_ne_pad v hv, b64Val_alpha v hv]

theorem b64Loop_data2 (c : Char) (cs : Str) (l v : Nat) (hv : v < 64) (hc : c = b64AlphaChar (v)) :
    b64Loop (c :: cs) 2 l 0 false = (b64Loop cs 3 (v % 4) 0 false).map ((l * 16 + v / 4) :: ·) := by
  subst hc
  rw [b64Loop]
  simp [b64Alpha_ne_pad v hv, b64Val_alpha v hv]

theorem b64Loop_data3 (c : Char) (cs : Str) (l v : Nat) (hv : v < 64) (hc : c = b64AlphaChar (v)) :
    b64Loop (c :: cs) 3 l 0 false = (b64Loop cs 0 0 0 false).map ((l * 64 + v) :: ·) := by
  subst hc
  rw [b64Loop]
  simp [b64Alpha_ne_pad v hv, b64Val_alpha v hv]

theorem b64Loop_lex (s : Str) (bs : Bytes) (h : XsdBase64 s bs) : b64Loop s 0 0 0 false = some bs := by
  induction h with
  | nil => rfl
  | one a ha =>
    rw [b64Loop_data0 _ _ (a / 4) (by omega) rfl, b64Loop_data1 _ _ _ (a % 4 * 16) (by omega) rfl]
    simp [b64Loop]
    omega
  | two a b ha hb =>
    rw [b64Loop_data0 _ _ (a / 4) (by omega) rfl, b64Loop_data1 _ _ _ (a % 4 * 16 + b / 16) (by omega) rfl,
      b64Loop_data2 _ _ _ (b % 16 * 4) (by omega) rfl]
    simp [b64Loop]
    omega
  | quad a b c rest bs ha hb hc _ ih =>
    rw [b64Loop_data0 _ _ (a / 4) (by omega) rfl, b64Loop_data1 _ _ _ (a % 4 * 16 + b / 16) (by omega) rfl,
      b64Loop_data2 _ _ _ (b % 16 * 4 + c / 64) (by omega) rfl, b64Loop_data3 _ _ _ (c % 64) (by omega) rfl, ih]
    simp
    omega

theorem b64Decode_lex (s : Str) (bs : Bytes) (h : XsdBase64 s bs) : b64Decode s = some bs := by
  have hl := b64Loop_lex s bs h
  unfold b64Decode
  cases h with
  | nil => rfl
  | one a ha =>
    have := b64Alpha_ne_pad (a / 4) (by omega)
    split
    · rename_i heq; injection heq with h1 _; simp_all
    · exact hl
  | two a b ha hb =>
    have := b64Alpha_ne_pad (a / 4) (by omega)
    split
    · rename_i heq; injection heq with h1 _; simp_all
    · exact hl
  | quad a b c rest bs' ha hb hc hr =>
    have := b64Alpha_ne_pad (a / 4) (by omega)
    split
    · rename_i heq; injection heq with h1 _; simp_all
    · exact hl

theorem b64Encode_valid (bs : Bytes) (h : AllBytes bs) : XsdBase64 (b64Encode bs) bs := by
  induction bs using b64Encode.induct with
  | case1 => exact .nil
  | case2 a =>
    have ha : a < 256 := h a (by simp)
    unfold b64Encode
    rw [b64Char_alpha _ (by omega), b64Char_alpha _ (by omega)]
    exact .one a ha
  | case3 a b =>
    have ha : a < 256 := h a (by simp)
    have hb : b < 256 := h b (by simp)
    unfold b64Encode
    rw [b64Char_alpha _ (by omega), b64Char_alpha _ (by omega), b64Char_alpha _ (by omega)]
    exact .two a b ha hb
  | case4 a b c rest ih =>
    have ha : a < 256 := h a (by simp)
    have hb : b < 256 := h b (by simp)
    have hc : c < 256 := h c (by simp)
    unfold b64Encode
    rw [b64Char_alpha _ (by omega), b64Char_alpha _ (by omega), b64Char_alpha _ (by omega),
      b64Char_alpha _ (by omega)]
    exact .quad a b c _ _ ha hb hc (ih (fun x hx => h x (by simp [hx])))

theorem removeWs_noSpace (e : Env) (s : Str) (h : ∀ c ∈ s, e.isSpace c = false) : removeWs e s = s := by
  unfold removeWs
  rw [List.filter_eq_self]
  intro c hc
  simp [h c hc]

end Xs.Conv
