import XsdataModel.Bind.Gen
open Py Xs.Bind
inductive J
  | null | bool (b : Bool) | num (i : Int) | str (s : Str) | arr (xs : List J) | obj (kvs : List (Str × J))
deriving Repr, DecidableEq

deriving instance DecidableEq for Val

example : "ab".toList = ['a','b'] := by decide
example : (J.arr [J.str "ab".toList, .obj [("k".toList, .null)]]) = (J.arr [J.str ['a','b'], .obj [(['k'], .null)]]) := by decide
example : Val.list [.prim (.int 3)] = Val.list [.prim (.int 3)] := by decide
example : deOne ⟨Env.ascii, fun _ => true, fun _ => true⟩ "12".toList (.prim .int) [] = some (.int 12) := by decide
