/- Lemmas about the association-list model of Python dicts (Xml/Dict.lean). -/
import XsdataModel.Xml.Dict

namespace Py
variable {κ ν : Type} [DecidableEq κ]

@[simp] theorem dget_nil (k : κ) : dget ([] : List (κ × ν)) k = none := rfl

theorem dget_cons (k' : κ) (v : ν) (r : List (κ × ν)) (k : κ) :
    dget ((k', v) :: r) k = if k' = k then some v else dget r k := rfl

theorem dget_dset_same (m : List (κ × ν)) (k : κ) (v : ν) : dget (dset m k v) k = some v := by
  induction m with
  | nil => simp [dset, dget]
  | cons e r ih =>
    obtain ⟨k', v'⟩ := e
    by_cases h : k' = k
    · simp [dset, dget, h]
    · simp [dset, dget, h, ih]

theorem dget_dset_other (m : List (κ × ν)) (k k' : κ) (v : ν) (h : k ≠ k') :
    dget (dset m k v) k' = dget m k' := by
  induction m with
  | nil => simp [dset, dget, h]
  | cons e r ih =>
    obtain ⟨k0, v0⟩ := e
    by_cases h0 : k0 = k
    · subst h0; simp [dset, dget, h]
    · by_cases h1 : k0 = k'
      · subst h1; simp [dset, dget, h0]
      · simp [dset, dget, h0, h1, ih]

theorem dget_dset (m : List (κ × ν)) (k k' : κ) (v : ν) :
    dget (dset m k v) k' = if k = k' then some v else dget m k' := by
  by_cases h : k = k'
  · subst h; simp [dget_dset_same]
  · simp [h, dget_dset_other]

/-- assigning to a new key appends -/
theorem dset_absent (m : List (κ × ν)) (k : κ) (v : ν) (h : dget m k = none) :
    dset m k v = m ++ [(k, v)] := by
  induction m with
  | nil => rfl
  | cons e r ih =>
    obtain ⟨k0, v0⟩ := e
    by_cases h0 : k0 = k
    · simp [dget, h0] at h
    · simp [dget, h0] at h
      simp [dset, h0, ih h]

theorem dset_length_absent (m : List (κ × ν)) (k : κ) (v : ν) (h : dget m k = none) :
    (dset m k v).length = m.length + 1 := by
  rw [dset_absent m k v h]; simp

theorem dset_length_present (m : List (κ × ν)) (k : κ) (v v0 : ν) (h : dget m k = some v0) :
    (dset m k v).length = m.length := by
  induction m with
  | nil => simp [dget] at h
  | cons e r ih =>
    obtain ⟨k0, v1⟩ := e
    by_cases h0 : k0 = k
    · simp [dset, h0]
    · simp [dget, h0] at h
      simp [dset, h0, ih h]

theorem dset_length_le (m : List (κ × ν)) (k : κ) (v : ν) : m.length ≤ (dset m k v).length := by
  cases h : dget m k with
  | none => rw [dset_length_absent m k v h]; omega
  | some v0 => rw [dset_length_present m k v v0 h]; omega

/-- membership ↔ lookup, for keys -/
theorem dget_none_iff (m : List (κ × ν)) (k : κ) : dget m k = none ↔ ∀ e ∈ m, e.1 ≠ k := by
  induction m with
  | nil => simp [dget]
  | cons e r ih =>
    obtain ⟨k0, v0⟩ := e
    by_cases h0 : k0 = k
    · simp [dget, h0]
    · simp [dget, h0, ih]

theorem dget_some_mem (m : List (κ × ν)) (k : κ) (v : ν) (h : dget m k = some v) : (k, v) ∈ m := by
  induction m with
  | nil => simp [dget] at h
  | cons e r ih =>
    obtain ⟨k0, v0⟩ := e
    by_cases h0 : k0 = k
    · simp [dget, h0] at h; subst h0; subst h; simp
    · simp [dget, h0] at h
      exact List.mem_cons_of_mem _ (ih h)

/-- keys are pairwise distinct -/
def NoDupKeys : List (κ × ν) → Prop
  | [] => True
  | (k, _) :: r => (∀ e ∈ r, e.1 ≠ k) ∧ NoDupKeys r

theorem mem_dset (m : List (κ × ν)) (k : κ) (v : ν) (e : κ × ν) (h : e ∈ dset m k v) :
    e = (k, v) ∨ e ∈ m := by
  induction m with
  | nil => simp [dset] at h; exact Or.inl h
  | cons e0 r ih =>
    obtain ⟨k0, v0⟩ := e0
    by_cases h0 : k0 = k
    · subst h0
      simp [dset] at h
      rcases h with h | h
      · exact Or.inl h
      · exact Or.inr (List.mem_cons_of_mem _ h)
    · simp [dset, h0] at h
      rcases h with h | h
      · right; subst h; simp
      · rcases ih h with h' | h'
        · exact Or.inl h'
        · right; exact List.mem_cons_of_mem _ h'

end Py

namespace Py
variable {κ ν : Type} [DecidableEq κ]

theorem dget_append (a b : List (κ × ν)) (k : κ) :
    dget (a ++ b) k = match dget a k with
      | some v => some v
      | none => dget b k := by
  induction a with
  | nil => simp [dget]
  | cons e r ih =>
    obtain ⟨k0, v0⟩ := e
    by_cases h0 : k0 = k
    · simp [dget, h0]
    · simp [dget, h0, ih]

theorem dget_append_left (a b : List (κ × ν)) (k : κ) (v : ν) (h : dget a k = some v) :
    dget (a ++ b) k = some v := by
  rw [dget_append, h]

theorem dget_append_right (a b : List (κ × ν)) (k : κ) (h : dget a k = none) :
    dget (a ++ b) k = dget b k := by
  rw [dget_append, h]

theorem NoDupKeys_append_single (m : List (κ × ν)) (k : κ) (v : ν) (hn : NoDupKeys m)
    (h : dget m k = none) : NoDupKeys (m ++ [(k, v)]) := by
  induction m with
  | nil => simp [NoDupKeys]
  | cons e r ih =>
    obtain ⟨k0, v0⟩ := e
    simp only [NoDupKeys] at hn
    by_cases h0 : k0 = k
    · simp [dget, h0] at h
    · simp [dget, h0] at h
      simp only [List.cons_append, NoDupKeys]
      refine ⟨?_, ih hn.2 h⟩
      intro e he
      rcases List.mem_append.mp he with hm | hm
      · exact hn.1 e hm
      · simp at hm; subst hm; exact fun e' => h0 e'.symm

theorem NoDupKeys_dget_of_mem (m : List (κ × ν)) (k : κ) (v : ν) (hn : NoDupKeys m) (h : (k, v) ∈ m) :
    dget m k = some v := by
  induction m with
  | nil => simp at h
  | cons e r ih =>
    obtain ⟨k0, v0⟩ := e
    simp only [NoDupKeys] at hn
    rcases List.mem_cons.mp h with he | hm
    · cases he; simp [dget]
    · have : k0 ≠ k := fun e' => hn.1 (k, v) hm e'.symm
      simp [dget, this, ih hn.2 hm]

theorem NoDupKeys_dset (m : List (κ × ν)) (k : κ) (v : ν) (hn : NoDupKeys m) : NoDupKeys (dset m k v) := by
  induction m with
  | nil => simp [dset, NoDupKeys]
  | cons e r ih =>
    obtain ⟨k0, v0⟩ := e
    simp only [NoDupKeys] at hn
    by_cases h0 : k0 = k
    · simp only [dset, h0, if_true, NoDupKeys]
      exact ⟨by subst h0; exact hn.1, hn.2⟩
    · simp only [dset, h0, if_false, NoDupKeys]
      refine ⟨?_, ih hn.2⟩
      intro e he
      rcases mem_dset r k v e he with h1 | h1
      · subst h1; exact fun e' => h0 e'.symm
      · exact hn.1 e h1

theorem NoDupKeys_sublist_tail (e : κ × ν) (m : List (κ × ν)) (hn : NoDupKeys (e :: m)) : NoDupKeys m := by
  obtain ⟨k, v⟩ := e
  exact hn.2

end Py

namespace Py
variable {κ ν : Type} [DecidableEq κ]

theorem mem_dpop (m : List (κ × ν)) (k : κ) (e : κ × ν) (h : e ∈ dpop m k) : e ∈ m := by
  induction m with
  | nil => simp [dpop] at h
  | cons e0 r ih =>
    obtain ⟨k0, v0⟩ := e0
    by_cases h0 : k0 = k
    · simp [dpop, h0] at h; exact List.mem_cons_of_mem _ h
    · simp [dpop, h0] at h
      rcases h with h | h
      · subst h; simp
      · exact List.mem_cons_of_mem _ (ih h)

theorem NoDupKeys_dpop (m : List (κ × ν)) (k : κ) (hn : NoDupKeys m) : NoDupKeys (dpop m k) := by
  induction m with
  | nil => simp [dpop, NoDupKeys]
  | cons e0 r ih =>
    obtain ⟨k0, v0⟩ := e0
    simp only [NoDupKeys] at hn
    by_cases h0 : k0 = k
    · simp [dpop, h0]; exact hn.2
    · simp only [dpop, h0, if_false, NoDupKeys]
      exact ⟨fun e he => hn.1 e (mem_dpop r k e he), ih hn.2⟩

theorem dget_dpop_other (m : List (κ × ν)) (k k' : κ) (h : k ≠ k') : dget (dpop m k) k' = dget m k' := by
  induction m with
  | nil => simp [dpop]
  | cons e0 r ih =>
    obtain ⟨k0, v0⟩ := e0
    by_cases h0 : k0 = k
    · subst h0; simp [dpop, dget, h]
    · by_cases h1 : k0 = k'
      · subst h1; simp [dpop, dget, h0]
      · simp [dpop, dget, h0, h1, ih]

end Py
