/- C04 — converter-typed fields in the dictionary round trip: property theorems (only).

A field of a primitive type this layer does not model (`TypeRef.other name`) is written as the
string its converter gives and read back through the same converter.  `dict_rt` covers such
fields whenever the held lexical form is canonical (`leafBack`); the theorems here say that this
is exactly what a converter round trip `deserialize (serialize v) = v` provides, and instantiate
it with the round-trip theorems of the converter models of C05 / C06. -/
import XsdataModel.Dict.Leaf
import XsdataModel.Proofs.C04RoundTrip
import XsdataModel.Proofs.C04Witness
import XsdataModel.Props.C05Types
import XsdataModel.Props.C04

namespace Props.C04
open Py Xs.Bind Xs.Dict Proofs.C04 Proofs.C04Witness

/-- **leaf_value_in_fragment**: in an environment that knows the converter `L` under `name`, the
serialized form of every value of the type is an admissible value (`itemOKj`) of a field declared
with that type — the hypothesis `dict_rt` needs for the field. -/
theorem leaf_value_in_fragment {α} (e : DEnv) (name : Str) (L : LeafRT α) (v : α) (hv : L.dom v)
    (ok : ClassId → Val → Bool) (Γ : Ctx) (fac : Factory) (var : XmlVar) (hty : var.types = [.other name]) :
    itemOKj (e.withLeaf name L) ok Γ fac var (.prim (.str (L.ser v))) = true := by
  simp [itemOKj, leafBack, hty, DEnv.withLeaf, L.canon_ser v hv]

/-- **leaf_field_rt**: the field-level round trip — the encoder writes `L.ser v` as a JSON string
and `bind_value` gives the same lexical form back, for every parser configuration. -/
theorem leaf_field_rt {α} (e : DEnv) (name : Str) (L : LeafRT α) (v : α) (hv : L.dom v)
    (rec : Rec) (Γ : Ctx) (cfg : ParserConfig) (m : XmlMeta) (var : XmlVar) (hvar : varTyped var = true)
    (hty : var.types = [.other name]) :
    encPrim (.str (L.ser v)) = .str (L.ser v) ∧
    bindItemWith (e.withLeaf name L) rec Γ cfg m var (.str (L.ser v)) = ND.pure (.prim (.str (L.ser v))) := by
  refine ⟨rfl, bindItem_leaf _ rec Γ cfg m var hvar _ ?_⟩
  simp [leafBack, hty, DEnv.withLeaf, L.canon_ser v hv]

/-! ## the converters of C05 / C06 as leaves -/

open Xs.Conv Xs.Dates in
/-- `XmlDate` (ProxyConverter over `XmlDate.from_string` / `str`): `Props.C05.xmldate_rt` -/
def xmlDateLeaf (e : CEnv) (kw : Kw) : LeafRT XmlDate where
  ser := fun v => v.str
  de := fun s => match atomDeserialize e .xmlDate s kw with
    | some (.date v) => some v
    | _ => none
  dom := Props.C06.validDate
  rt := fun v h => by simp [(Props.C05.xmldate_rt e kw v h).2]

open Xs.Conv Xs.Dates in
/-- `XmlTime`: `Props.C05.xmltime_rt` -/
def xmlTimeLeaf (e : CEnv) (kw : Kw) : LeafRT XmlTime where
  ser := fun v => v.str
  de := fun s => match atomDeserialize e .xmlTime s kw with
    | some (.time v) => some v
    | _ => none
  dom := Props.C06.validTime
  rt := fun v h => by simp [(Props.C05.xmltime_rt e kw v h).2]

open Xs.Conv Xs.Dates in
/-- `XmlDateTime`: `Props.C05.xmldatetime_rt` -/
def xmlDateTimeLeaf (e : CEnv) (kw : Kw) : LeafRT XmlDateTime where
  ser := fun v => v.str
  de := fun s => match atomDeserialize e .xmlDateTime s kw with
    | some (.dateTime v) => some v
    | _ => none
  dom := Props.C06.validDateTime
  rt := fun v h => by simp [(Props.C05.xmldatetime_rt e kw v h).2]

open Xs.Conv in
/-- an enumeration over pairwise distinct ints (member = its index): `Props.C05.enum_int_rt` -/
def intEnumLeaf (e : CEnv) (kw : Kw) (vals : List Int) (hnd : vals.Nodup) : LeafRT Nat where
  ser := fun i => intSerialize (vals.getD i 0)
  de := fun s => enumDeserialize e (Props.C05.intEnum vals) s kw
  dom := fun i => i < vals.length
  rt := fun i h => by
    have := (Props.C05.enum_int_rt e vals i h kw hnd).2
    simpa [List.getD_eq_getElem?_getD, List.getElem?_eq_getElem h] using this

/-! ## an instance with a converter-typed field -/

/-- the universe `Doc` / `Item` of the witnesses with the field `Doc.title` declared as `XmlDate` -/
def leafCtx : Ctx :=
  { okwCtx with classes := okwCtx.classes.map fun ci =>
      { ci with metas := ci.metas.map fun pm =>
          (pm.1, { pm.2 with elements := pm.2.elements.map fun qv =>
            (qv.1, qv.2.map fun v => if v.name = "title".toList then { v with types := [.other "XmlDate".toList] } else v) }) } }

/-- the ASCII environment with the `XmlDate` converter of C05 / C06 -/
def leafEnv : DEnv := benv0.withLeaf "XmlDate".toList (xmlDateLeaf Props.C05.asciiCEnv {})

def aDate : Xs.Dates.XmlDate := ⟨2001, 1, 31, some 60⟩

/-- the witness instance with `title = XmlDate(2001, 1, 31, +01:00)`, held as `serialize(title)` -/
def leafValue : Val :=
  match okw_value with
  | .obj c fs => .obj c (fs.map fun kv => if kv.1 = "title".toList then (kv.1, .prim (.str aDate.str)) else kv)
  | v => v

example : Props.C06.validDate aDate := by
  refine ⟨by decide, ?_⟩
  simp [Props.C06.validOffset, aDate]

/-- **dict_rt_leaf_example**: `dict_rt` at work on an instance with a converter-typed field, both
factories: the hypothesis for the field comes from `leaf_value_in_fragment`, i.e. from
`Props.C05.xmldate_rt` — the evaluation below only confirms it on this value. -/
theorem dict_rt_leaf_example (fac : Factory) (cfg : ParserConfig) :
    ∃ j, encode leafCtx fac {} 3 leafValue = .ok j ∧ j.native = true ∧
      decode leafEnv leafCtx cfg 3 (.cls "Doc".toList) j = ND.pure leafValue := by
  apply dict_rt
  cases fac <;> rfl

end Props.C04
