/-
C08 — the kinds of source the parser accepts, down to `process_context`.

`PushParser.from_string / from_bytes / from_path / parse` (parsers/mixins.py) turn what the caller
has into the `source` of `handler.parse(source, ns_map)`; `XmlEventHandler.parse`
(parsers/handlers/native.py) turns that into the event iterator it hands to `process_context`:
`iterwalk` for an ElementTree tree / element, `etree.iterparse(source, EVENTS)` otherwise.

External: `str.encode`, the file system, and the tokeniser (expat behind `iterparse`), which reads
the bytes of a stream or opens the named file.  They are the `World`.
-/
import XsdataModel.Backends.Handler

namespace Xs.Backends
open Py Xs.Bind

abbrev Bytes := List UInt8

structure World where
  /-- `str.encode()` (UTF-8) -/
  encode : Str → Bytes
  /-- the content of the file a resolved path names (`none`: it cannot be opened) -/
  fs : Str → Option Bytes
  /-- the events expat reports for a byte sequence, with the queued parser nodes' plans filled in -/
  tokenise : Bytes → List Tok

/-- what the caller has -/
inductive Src
  | str (s : Str)              -- `parser.from_string(s)`
  | bytes (b : Bytes)          -- `parser.from_bytes(b)`
  | path (p : Str)             -- `parser.from_path(p)`
  | file (content : Bytes)     -- `parser.parse(file_object)`
  | etTree (t : XTree)         -- `parser.parse(ElementTree)`
  | etElement (t : XTree)      -- `parser.parse(Element)`

/-- the `source` argument of `handler.parse` -/
inductive HSource
  | stream (content : Bytes)   -- a `BytesIO` / an open file
  | name (p : Str)             -- a file name
  | tree (t : XTree)
  | element (t : XTree)

/-- `from_string(s) = from_bytes(s.encode())`, `from_bytes(b) = parse(io.BytesIO(b))`,
`from_path(p) = parse(str(p.resolve()))`, `parse(source)` passes `source` on -/
def toHSource (W : World) : Src → HSource
  | .str s => .stream (W.encode s)
  | .bytes b => .stream b
  | .path p => .name p
  | .file c => .stream c
  | .etTree t => .tree t
  | .etElement t => .element t

/-- `XmlEventHandler.parse`: the iterator handed to `process_context` (`none`: `iterparse` could not
open the file); `source.getroot()` for a tree -/
def nativeContext (W : World) (wk : List (Str × Str)) : HSource → Option (List Tok)
  | .tree t => some (iterwalk wk t []).1
  | .element t => some (iterwalk wk t []).1
  | .stream c => some (W.tokenise c)
  | .name p => (W.fs p).map W.tokenise

/-- the events that reach `process_context` for a source -/
def reaches (W : World) (wk : List (Str × Str)) (src : Src) : Option (List Tok) :=
  nativeContext W wk (toHSource W src)

/-- `XmlParser(handler=XmlEventHandler)` on a source: the calls made on the parser -/
def nativeParse (W : World) (wk : List (Str × Str)) (src : Src) : Option (List PEv) :=
  (reaches W wk src).map (pump [] [])

/-- the bytes a byte-level source stands for -/
def Src.content (W : World) : Src → Option Bytes
  | .str s => some (W.encode s)
  | .bytes b => some b
  | .path p => W.fs p
  | .file c => some c
  | .etTree _ => none
  | .etElement _ => none

/-! ### what does not depend on prefixes -/

/-- a parser call without the prefix bookkeeping -/
inductive CoreEv
  | start (q : QN) (attrs : List (QN × Str))
  | «end» (q : QN) (text tail : Option Str)
  | crash
deriving DecidableEq, Repr

def PEv.core : PEv → Option CoreEv
  | .registerNs _ _ => none
  | .start q a _ => some (.start q a)
  | .end q t tl => some (.end q t tl)
  | .crash => some .crash

mutual
/-- the element structure of a document: names, attributes, text and tails -/
def coreOf : XTree → List CoreEv
  | .node _ q a _ t kids tl => CoreEv.start q a :: (coreOfKids kids ++ [CoreEv.end q t tl])
def coreOfKids : List XTree → List CoreEv
  | [] => []
  | k :: ks => coreOf k ++ coreOfKids ks
end

end Xs.Backends
