/- Helper lemmas: decimal digit strings, `natStr`, `digitsVal`, `intBody`. -/
import XsdataModel.Conv.Basic
import XsdataModel.Proofs.Strip

namespace Xs.Conv
open Py

/-- value of an ASCII digit character -/
def charVal (c : Char) : Nat := c.toNat - 48

/-- all characters are ASCII digits -/
def AllDigits (s : Str) : Prop := ∀ c ∈ s, isAsciiDigit c = true

theorem digitChar_toNat : ∀ d, d < 10 → (Char.ofNat (48 + d)).toNat = 48 + d := by decide

theorem digitChar_isDigit : ∀ d, d < 10 → isAsciiDigit (Char.ofNat (48 + d)) = true := by decide

theorem digit_isAscii (c : Char) (h : isAsciiDigit c = true) : isAscii c = true := by
  simp [isAsciiDigit, isAscii] at *
  omega

theorem digit_not_space (e : Env) (c : Char) (h : isAsciiDigit c = true) : e.isSpace c = false := by
  rw [isSpace_ascii e c (digit_isAscii c h)]
  simp [isAsciiDigit, isAsciiSpace] at *
  omega

theorem digit_not_numSpace (e : Env) (c : Char) (h : isAsciiDigit c = true) : numSpace e c = false := by
  rw [numSpace_ascii e c (digit_isAscii c h)]
  simp [isAsciiDigit, isCSpace] at *
  omega

theorem digit_decVal (e : Env) (c : Char) (h : isAsciiDigit c = true) : e.decVal c = some (charVal c) := by
  rw [decVal_ascii e c (digit_isAscii c h)]
  simp [h, charVal]

theorem foldl_digits (ds : List Nat) (acc : Nat) :
    ds.foldl (fun a d => a * 10 + d) acc = acc * 10 ^ ds.length + ds.foldl (fun a d => a * 10 + d) 0 := by
  induction ds generalizing acc with
  | nil => simp
  | cons d ds ih =>
    simp only [List.foldl_cons, List.length_cons]
    rw [ih (acc * 10 + d), ih (0 * 10 + d)]
    simp [Nat.pow_succ]
    grind

theorem digitsVal_cons (d : Nat) (ds : List Nat) :
    digitsVal (d :: ds) = d * 10 ^ ds.length + digitsVal ds := by
  unfold digitsVal
  simp only [List.foldl_cons]
  rw [foldl_digits]
  simp

theorem digitsVal_append (a b : List Nat) :
    digitsVal (a ++ b) = digitsVal a * 10 ^ b.length + digitsVal b := by
  unfold digitsVal
  rw [List.foldl_append, foldl_digits]

theorem digitsVal_nil : digitsVal [] = 0 := rfl

/-- specification of the accumulator loop behind `natStr` -/
theorem natDigitsAux_spec (fuel n : Nat) (acc : Str) (hf : n < fuel) (hacc : AllDigits acc) :
    AllDigits (natDigitsAux fuel n acc) ∧ natDigitsAux fuel n acc ≠ [] ∧
    digitsVal ((natDigitsAux fuel n acc).map charVal) = n * 10 ^ acc.length + digitsVal (acc.map charVal) := by
  induction fuel generalizing n acc with
  | zero => omega
  | succ fuel ih =>
    have hd : n % 10 < 10 := Nat.mod_lt _ (by omega)
    have hacc' : AllDigits (Char.ofNat (48 + n % 10) :: acc) := by
      intro c hc
      rcases List.mem_cons.mp hc with rfl | h
      · exact digitChar_isDigit _ hd
      · exact hacc c h
    have hval : charVal (Char.ofNat (48 + n % 10)) = n % 10 := by
      simp [charVal, digitChar_toNat _ hd]
    unfold natDigitsAux
    by_cases h0 : n / 10 = 0
    · simp only [h0, if_true]
      refine ⟨hacc', by simp, ?_⟩
      simp only [List.map_cons, hval, digitsVal_cons, List.length_map]
      have : n % 10 = n := by omega
      rw [this]
    · simp only [h0, if_false]
      have hlt : n / 10 < fuel := by omega
      obtain ⟨h1, h2, h3⟩ := ih (n / 10) _ hlt hacc'
      refine ⟨h1, h2, ?_⟩
      rw [h3]
      simp only [List.map_cons, hval, digitsVal_cons, List.length_map, List.length_cons, Nat.pow_succ]
      have hn : n = 10 * (n / 10) + n % 10 := (Nat.div_add_mod n 10).symm
      generalize n / 10 = q at *
      generalize n % 10 = r at *
      subst hn
      grind

theorem natStr_spec (n : Nat) :
    AllDigits (natStr n) ∧ natStr n ≠ [] ∧ digitsVal ((natStr n).map charVal) = n := by
  have := natDigitsAux_spec (n + 1) n [] (by omega) (by intro c hc; cases hc)
  simpa [natStr, digitsVal_nil] using this

/-- the accumulator loop does not depend on the fuel (once sufficient) and appends to the accumulator -/
theorem natDigitsAux_acc (n : Nat) : ∀ (fuel : Nat) (acc : Str), n < fuel →
    natDigitsAux fuel n acc = natStr n ++ acc := by
  induction n using Nat.strongRecOn with
  | _ n ih =>
    intro fuel acc hf
    cases fuel with
    | zero => omega
    | succ f =>
      unfold natStr
      by_cases h0 : n / 10 = 0
      · simp [natDigitsAux, h0]
      · have hlt : n / 10 < n := by omega
        have h1 : natDigitsAux (f + 1) n acc = natDigitsAux f (n / 10) (Char.ofNat (48 + n % 10) :: acc) := by
          simp [natDigitsAux, h0]
        have h2 : natDigitsAux (n + 1) n [] = natDigitsAux n (n / 10) [Char.ofNat (48 + n % 10)] := by
          simp [natDigitsAux, h0]
        rw [h1, h2, ih (n / 10) hlt f _ (by omega), ih (n / 10) hlt n _ (by omega)]
        simp

/-- `str(10 * n + d) = str(n) + digit(d)` for `n > 0` -/
theorem natStr_step (n d : Nat) (hn : 0 < n) (hd : d < 10) :
    natStr (10 * n + d) = natStr n ++ [Char.ofNat (48 + d)] := by
  have h0 : (10 * n + d) / 10 = n := by omega
  have hm : (10 * n + d) % 10 = d := by omega
  have hne : ¬ (10 * n + d) / 10 = 0 := by omega
  have : natStr (10 * n + d) = natDigitsAux (10 * n + d) n [Char.ofNat (48 + d)] := by
    unfold natStr
    simp [natDigitsAux, h0, hm, hne]
    omega
  rw [this, natDigitsAux_acc n _ _ (by omega)]

/-- trailing zeros: `str(n * 10^j) = str(n) + "0" * j` for `n > 0` -/
theorem natStr_mul_pow10 (n j : Nat) (hn : 0 < n) :
    natStr (n * 10 ^ j) = natStr n ++ List.replicate j '0' := by
  induction j with
  | zero => simp
  | succ j ih =>
    have hpos : 0 < n * 10 ^ j := Nat.mul_pos hn (Nat.pow_pos (by omega))
    have e : n * 10 ^ (j + 1) = 10 * (n * 10 ^ j) + 0 := by rw [Nat.pow_succ]; grind
    rw [e, natStr_step _ 0 hpos (by omega), ih, List.replicate_succ']
    simp

/-- a number below `10^k` has at most `k` digits -/
theorem natStr_length_le (k : Nat) : ∀ n, n < 10 ^ k → 1 ≤ k → (natStr n).length ≤ k := by
  induction k with
  | zero => intro n _ h; omega
  | succ k ih =>
    intro n hn _
    by_cases hq : n / 10 = 0
    · have : natStr n = [Char.ofNat (48 + n % 10)] := by
        unfold natStr; simp [natDigitsAux, hq]
      rw [this]; simp
    · have hk : 1 ≤ k := by
        cases k with
        | zero => simp at hn; omega
        | succ k => omega
      have hlt : n / 10 < 10 ^ k := by
        rw [Nat.pow_succ] at hn; omega
      have e : n = 10 * (n / 10) + n % 10 := by omega
      rw [e, natStr_step _ _ (by omega) (by omega)]
      have := ih (n / 10) hlt hk
      simp; omega

/-- a number of at least `10^k` has more than `k` digits -/
theorem natStr_length_gt (k : Nat) : ∀ n, 10 ^ k ≤ n → k < (natStr n).length := by
  induction k with
  | zero =>
    intro n _
    have := (natStr_spec n).2.1
    cases h : natStr n with
    | nil => exact absurd h this
    | cons a r => simp
  | succ k ih =>
    intro n hn
    have h10 : 10 ^ k ≤ n / 10 := by rw [Nat.pow_succ] at hn; omega
    have hpos : 0 < n / 10 := Nat.lt_of_lt_of_le (Nat.pow_pos (by omega)) h10
    have e : n = 10 * (n / 10) + n % 10 := by omega
    rw [e, natStr_step _ _ hpos (by omega)]
    have := ih (n / 10) h10
    simp; omega

/-- `intBody` on a run of ASCII digits -/
theorem intBody_digits (e : Env) (cs : Str) (prev : Bool) (h : AllDigits cs) (hne : cs ≠ [] ∨ prev = true) :
    intBody e cs prev = some (cs.map charVal) := by
  induction cs generalizing prev with
  | nil =>
    rcases hne with h | h
    · exact absurd rfl h
    · simp [intBody, h]
  | cons c cs ih =>
    have hc : isAsciiDigit c = true := h c (by simp)
    have hnu : c ≠ '_' := by
      intro hx; subst hx; revert hc; decide
    unfold intBody
    simp only [hnu, if_false, digit_decVal e c hc]
    rw [ih true (fun d hd => h d (by simp [hd])) (Or.inr rfl)]
    simp

/-- the last element of a non-empty digit string -/
theorem exists_last (s : Str) (h : s ≠ []) : ∃ r z, s = r ++ [z] := by
  refine ⟨s.dropLast, s.getLast h, ?_⟩
  exact (List.dropLast_concat_getLast h).symm

end Xs.Conv
