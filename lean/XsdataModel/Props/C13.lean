/- C13 — property theorems (only). Helper lemmas: Proofs/SamplesReduce.lean,
   Proofs/SamplesOccur.lean. -/
import XsdataModel.Proofs.SamplesOccur
import XsdataModel.Bind.Parse
import XsdataModel.Proofs.SamplesComponents
import XsdataModel.Proofs.SamplesClasses
import XsdataModel.Proofs.SamplesMapNodup
import XsdataModel.Proofs.SamplesFields

namespace Props.C13
open Py Xs.Samples

/-- every name in the live `__EXPLICIT_TYPES__` is a type the model knows -/
theorem explicit_types_known : explicitTypes.all (fun p => p.1.isSome) = true := by decide

/-! ### occurrences: counting children, merging samples -/

/-- **merged_bounds_sound.** Take any set of samples (occurrences of one element; each is the
list of freshly built child attrs in document order, `min ≤ 1`, `max = 1`), run every one
through `add_attribute` and merge the results with `reduce_attributes`.  Then the merge does
not crash, and for every sample and every key the number of children with that key lies
within `[min, max]` of the merged attr; a key that some sample lacks has `min = 0`. -/
theorem merged_bounds_sound (samples : List (List Attr))
    (hfresh : ∀ s ∈ samples, ∀ a ∈ s, a.min ≤ 1 ∧ a.max = 1)
    (hlen : ∀ s ∈ samples, s.length ≤ maxsize) :
    ∃ R, reduceAttributes (samples.map (fun s => s.foldl addAttribute [])) = some R ∧
      ∀ s ∈ samples, ∀ k : Attr,
        (0 < s.countP (fun x => x.same k) →
          ∃ m, lookup R k = some m ∧ m.min ≤ s.countP (fun x => x.same k) ∧
            s.countP (fun x => x.same k) ≤ m.max) ∧
        (s.countP (fun x => x.same k) = 0 → ∀ m ∈ R, m.same k = true → m.min = 0) := by
  have hn : ∀ c ∈ samples.map (fun s => s.foldl addAttribute []), NodupKeys c := by
    intro c hc
    simp only [List.mem_map] at hc
    obtain ⟨s, _, rfl⟩ := hc
    exact fold_nodup s [] (by simp [NodupKeys])
  obtain ⟨R, hR, hadm⟩ := reduceAttributes_admits _ hn
  refine ⟨R, hR, ?_⟩
  intro s hs k
  have hocc := hadm (s.foldl addAttribute []) (by simp only [List.mem_map]; exact ⟨s, hs, rfl⟩)
  simp only [admitsAttrs, Bool.and_eq_true, List.all_eq_true] at hocc
  have hcount := addAttribute_fold_count s (hfresh s hs) k []
  simp only [lookup, List.find?_nil] at hcount
  constructor
  · intro hpos
    have hne : ¬ s.countP (fun x => x.same k) = 0 := by omega
    simp only [hne, if_false] at hcount
    obtain ⟨r, hr, hmin, hmax⟩ := hcount
    have hmem := List.mem_of_find?_eq_some hr
    have hrk : r.same k = true := by simpa using List.find?_some hr
    have h1 := hocc.1 r hmem
    have hlk : lookup R k = R.find? (fun m => m.same r) := by
      simp only [lookup]
      congr 1
      funext m
      exact (same_congr_right m hrk).symm
    cases hf : R.find? (fun m => m.same r) with
    | none => simp [hf] at h1
    | some m =>
      simp only [hf, Attr.within, Bool.and_eq_true, decide_eq_true_eq] at h1
      refine ⟨m, by rw [hlk, hf], by omega, ?_⟩
      by_cases hc : s.countP (fun x => x.same k) = 1
      · simp only [hc, if_true] at hmax; omega
      · simp only [hc, if_false] at hmax
        have := List.countP_le_length (p := fun x => x.same k) (l := s)
        have := hlen s hs
        omega
  · intro hzero m hm hmk
    simp only [hzero, if_true] at hcount
    have hnone : ∀ a ∈ s.foldl addAttribute [], a.same k = false := by
      intro a ha
      have := List.find?_eq_none.1 hcount a ha
      simpa using this
    have h2 := hocc.2 m hm
    simp only [Bool.or_eq_true, List.any_eq_true, decide_eq_true_eq] at h2
    rcases h2 with ⟨a, ha, ham⟩ | h2
    · have := same_trans ham hmk
      simp [hnone a ha] at this
    · exact h2

/-- the hypotheses of `merged_bounds_sound` are met by real inputs: two samples, `a b a b`
and `a c`, as `build_attr` makes them -/
example :
    let mk (n : String) : Attr := { tag := .element, name := n.toList, ns := none, index := 0, types := [], min := 1, max := 1 }
    let samples := [[mk "a", mk "b", mk "a", mk "b"], [mk "a", mk "c"]]
    (∀ s ∈ samples, ∀ a ∈ s, a.min ≤ 1 ∧ a.max = 1) ∧ (∀ s ∈ samples, s.length ≤ maxsize) := by
  decide


/-! ### whole documents: map every sample, reduce, and every mapped occurrence is admitted -/

/-- **xml_samples_admitted.** For any XML documents whatsoever: `ElementMapper.map` on each and
`reduce_classes` on the lot does not crash, every element occurrence finds its reduced class, every
attr of the occurrence is there with bounds containing its own, and whatever the occurrence lacks is
optional.  (This is the verdict the driver computes for `smp.e2e_xml`.) -/
theorem xml_samples_admitted (e : SEnv) (docs : List El) :
    allAdmitted (docs.flatMap (mapElement e)) = some true := by
  apply allAdmitted_true
  intro c hc
  simp only [List.mem_flatMap] at hc
  obtain ⟨d, _, hcd⟩ := hc
  exact mapElement_nodup e d c hcd

/-- **json_samples_admitted.** The same for JSON documents that `DictMapper.map` gets through. -/
theorem json_samples_admitted (e : SEnv) (docs : List (List (Str × JVal))) (name : Str) (css : List (List Cls))
    (h : docs.mapM (fun d => mapDict e d name) = some css) : allAdmitted css.flatten = some true := by
  apply allAdmitted_true
  intro c hc
  simp only [List.mem_flatten] at hc
  obtain ⟨cs, hcs, hccs⟩ := hc
  obtain ⟨d, _, hd⟩ := mapM_option_mem _ docs css h cs hcs
  exact mapDict_nodup e d name cs hd c hccs

/-- **json_documents_admitted.** The same for whole JSON documents as `process_json_documents` takes
them: an object, or an array of objects. -/
theorem json_documents_admitted (e : SEnv) (docs : List JVal) (name : Str) (css : List (List Cls))
    (h : docs.mapM (fun d => mapJsonDoc e d name) = .ok css) : allAdmitted css.flatten = some true := by
  apply allAdmitted_true
  intro c hc
  simp only [List.mem_flatten] at hc
  obtain ⟨cs, hcs, hccs⟩ := hc
  obtain ⟨d, _, hd⟩ := exceptMapM_mem _ docs css h cs hcs
  exact mapJsonDoc_nodup e d name cs hd c hccs

/-- the hypotheses of `json_samples_admitted` and `json_documents_admitted` are met by real documents:
`{"a": "x", "b": {"c": 1}}` maps without a leak, and so do the documents `{"a": 1}` and `[{"a": null}, {}]` -/
example :
    let e : SEnv := ⟨{ toEnv := Env.ascii, isAlphaNA := fun _ => false, floatRepr := fun s => s }⟩
    (∃ css, [[("a".toList, JVal.scalar (.str "x".toList)), ("b".toList, .dict [("c".toList, .scalar (.int 1))])]].mapM
      (fun d => mapDict e d "doc".toList) = some css) ∧
    (∃ css, [JVal.dict [("a".toList, .scalar (.int 1))], .list [.dict [("a".toList, .scalar .none)], .dict []]].mapM
      (fun d => mapJsonDoc e d "doc".toList) = .ok css) := by
  constructor
  · simp [mapDict, dictClass, dictAttrs, classAttribute, List.mapM_cons, List.mapM_nil]
  · simp [mapJsonDoc, mapJsonItem, mapDict, dictClass, dictAttrs, classAttribute, List.mapM_cons, List.mapM_nil,
      bind, Except.bind, pure, Except.pure, JVal.isDict]

/-! ### down to the fields of the generated dataclasses -/

/-- **xml_fields_admit_samples.** For any XML documents: run the mappers, `reduce_classes` and the
ClassAnalyzer handlers that touch occurrences of sample classes (`CalculateAttributePaths`,
`ProcessAttributeTypes`, `ResetAttributeSequences`, `SanitizeAttributesDefaultValue`,
`ResetAttributeSequenceNumbers`) and look at the dataclass fields that come out (`classFields`,
compared field by field with the real generator by `smp.fields`).  Every element occurrence of the
documents finds its class; unless that class is mixed, every attribute / child name / text of the
occurrence has a field, a child that repeats has a list field, no `max_occurs` is below and no
`min_occurs` above what the occurrence has, and every field the occurrence does not use has a
default — so the constructor call of the parser cannot miss a required argument and no child is
an unknown property. -/
theorem xml_fields_admit_samples (e : SEnv) (docs : List El) :
    ∃ cs, reduceClasses (docs.flatMap (mapElement e)) = some cs ∧
      ∀ occ ∈ docs.flatMap (mapElement e), ∃ m ∈ cs, m.qname = occ.qname ∧
        ∀ fs, classFields cs m = some fs →
          (∀ a ∈ occ.attrs, ∃ f ∈ fs, f.sameAttr a = true ∧ (1 < a.max → f.isList = true) ∧
            (∀ k, f.maxOccurs = some k → a.max ≤ k) ∧ (∀ k, f.minOccurs = some k → k ≤ a.min)) ∧
          (∀ f ∈ fs, (∃ a ∈ occ.attrs, f.sameAttr a = true) ∨ f.hasDefault = true) := by
  have hn : ∀ c ∈ docs.flatMap (mapElement e), NodupKeys c.attrs := by
    intro c hc
    simp only [List.mem_flatMap] at hc
    obtain ⟨d, _, hcd⟩ := hc
    exact mapElement_nodup e d c hcd
  obtain ⟨cs, hcs, hadm⟩ := reduceClasses_admits _ hn
  refine ⟨cs, hcs, ?_⟩
  intro occ hocc
  have := hadm occ hocc
  simp only [admits] at this
  cases hf : cs.find? (fun m => m.qname = occ.qname) with
  | none => simp [hf] at this
  | some m =>
    simp only [hf] at this
    refine ⟨m, List.mem_of_find?_eq_some hf, by simpa using List.find?_some hf, ?_⟩
    intro fs hfs
    exact classFields_admit cs m fs hfs occ.attrs this

/-- the interleaved sample `a b a b c`: list fields `a`, `b` sharing sequence 1, a single field `c` -/
example :
    let e : SEnv := ⟨{ toEnv := Env.ascii, isAlphaNA := fun _ => false, floatRepr := fun s => s }⟩
    let leaf (n v : String) : El := .mk n.toList (some v.toList) none [] []
    let doc : El := .mk "r".toList none none [] [leaf "a" "x", leaf "b" "y", leaf "a" "x", leaf "b" "y", leaf "c" "z"]
    ((reduceClasses (mapElement e doc)).bind fun cs => (cs.head?.bind (classFields cs)).map fun fs =>
      fs.map fun f => (f.name, f.isList, f.hasDefault, f.sequence))
      = some [("a".toList, true, true, some 1), ("b".toList, true, true, some 1), ("c".toList, false, false, none)] := by
  decide

/-- **filter_types_spec.** The types of a merged attr are never empty, carry no `xs:error`, and a
placeholder (`anyType` / `anySimpleType`, what an empty or null value is inferred as) survives only
when it is alone. -/
theorem filter_types_spec (types : List AType) :
    filterTypes types ≠ [] ∧
    (∀ t ∈ filterTypes types, t.native = true → t.qname = Tables.dtError → False) ∧
    (1 < (filterTypes types).length → ∀ t ∈ filterTypes types, t.native = true →
      t.qname ≠ Tables.dtAnyType ∧ t.qname ≠ Tables.dtAnySimpleType) := by
  have hd : Tables.dtString ≠ Tables.dtError := by decide
  simp only [filterTypes]
  generalize hts1 : (uniqueByQName types).filter (fun t => !(t.native && t.qname = Tables.dtError)) = ts1
  have h1 : ∀ t ∈ ts1, t.native = true → t.qname = Tables.dtError → False := by
    intro t ht hn hq
    rw [← hts1] at ht
    simp only [List.mem_filter] at ht
    simp [hn, hq] at ht
  by_cases hlen : ts1.length > 1
  · simp only [hlen, if_true]
    generalize hts2 : ts1.filter (fun t => !(t.native && (t.qname = Tables.dtAnyType || t.qname = Tables.dtAnySimpleType))) = ts2
    have h2 : ∀ t ∈ ts2, t ∈ ts1 ∧ (t.native = true → t.qname ≠ Tables.dtAnyType ∧ t.qname ≠ Tables.dtAnySimpleType) := by
      intro t ht
      rw [← hts2] at ht
      simp only [List.mem_filter] at ht
      refine ⟨ht.1, fun hn => ?_⟩
      have := ht.2
      simp only [hn, Bool.true_and, Bool.not_eq_true', Bool.or_eq_false_iff, decide_eq_false_iff_not] at this
      exact this
    cases hem : ts2.isEmpty with
    | true =>
      simp only [if_true]
      refine ⟨by simp, ?_, ?_⟩
      · intro t ht _ hq; simp only [List.mem_singleton] at ht; subst ht; exact hd hq
      · intro hl; simp at hl
    | false =>
      simp only [Bool.false_eq_true, if_false]
      refine ⟨by intro h; simp [h] at hem, ?_, ?_⟩
      · intro t ht hn hq; exact h1 t (h2 t ht).1 hn hq
      · intro _ t ht hn; exact (h2 t ht).2 hn
  · simp only [hlen, if_false]
    cases hem : ts1.isEmpty with
    | true =>
      simp only [if_true]
      refine ⟨by simp, ?_, ?_⟩
      · intro t ht _ hq; simp only [List.mem_singleton] at ht; subst ht; exact hd hq
      · intro hl; simp at hl
    | false =>
      simp only [Bool.false_eq_true, if_false]
      refine ⟨by intro h; simp [h] at hem, fun t ht hn hq => h1 t ht hn hq, ?_⟩
      intro hl; omega

/-! ### the nillable flag of a class -/

/-- **nillable_any_occurrence** (full strength since `reduce_classes` merges the flag over the group, repair
c13e-01): a class of which some occurrence is `xsi:nil` comes out of `reduce_classes` nillable, whatever
the order in which the occurrences were mapped — and a class is nillable only if some occurrence of its
name is `xsi:nil`. -/
theorem nillable_any_occurrence (classes cs : List Cls) (h : reduceClasses classes = some cs) :
    (∀ c ∈ classes, c.nillable = true → ∃ m ∈ cs, m.qname = c.qname ∧ m.nillable = true) ∧
    (∀ m ∈ cs, m.nillable = true → ∃ c ∈ classes, c.qname = m.qname ∧ c.nillable = true) := by
  obtain ⟨h1, h2⟩ := reduceClasses_flags classes cs h
  refine ⟨?_, h2⟩
  intro c hc hn
  obtain ⟨m, hm, hq, hnil, _⟩ := h1 c hc
  exact ⟨m, hm, hq, hnil hn⟩

/-- the occurrences `<i><a>1</a></i>` and `<i xsi:nil="true"/>` in the order in which `reduce_classes` gets them
for `<r><i xsi:nil="true"/><i><a>1</a></i></r>` (`ClassUtils.flatten` pops inner classes from the end): the former
witness of the flag taken from the first occurrence -/
def nillableWitness : List Cls :=
  [{ qname := "i".toList, ns := none, nillable := false, mixed := false,
     attrs := [{ tag := .element, name := "a".toList, ns := none, index := 0, types := [], min := 1, max := 1 }] },
   { qname := "i".toList, ns := none, nillable := true, mixed := false, attrs := [] }]

/-- on the former witness the class is nillable now, in either order -/
example : (reduceClasses nillableWitness).map (fun cs => cs.map (·.nillable)) = some [true] ∧
    (reduceClasses nillableWitness.reverse).map (fun cs => cs.map (·.nillable)) = some [true] := by decide

/-! ### the interleaving marker across occurrences -/

/-- **sequence_marker_kept** (full strength since `merge_attributes` keeps the restrictions path of
whichever occurrence has one): an attr that carries a sequence marker in some occurrence still
carries one after the occurrences are merged.  The hypothesis (no class lists an attr twice) holds
for everything the mappers produce (`mapElement_nodup`, `mapDict_nodup`). -/
theorem sequence_marker_kept (classes : List (List Attr)) (hn : ∀ c ∈ classes, NodupKeys c) :
    ∃ R, reduceAttributes classes = some R ∧
      ∀ c ∈ classes, ∀ a ∈ c, a.seq.isSome = true → ∀ m ∈ R, m.same a = true → m.seq.isSome = true := by
  obtain ⟨R, hR, _⟩ := reduceAttributes_admits classes hn
  refine ⟨R, hR, ?_⟩
  intro c hc a ha hsq m hm hs
  exact (reduceAttributes_wider classes hn R hR c hc a ha m hm hs).2.2 hsq

/-- the two occurrences `a b` and `a b a b` of one element, as `ElementMapper` maps them
(2 stands in for `sys.maxsize`): the former witness of the lost marker -/
def seqWitness : List (List Attr) :=
  let mk (n : String) (mx : Nat) (sq : Option Nat) : Attr :=
    { tag := .element, name := n.toList, ns := none, index := 0, types := [], min := 1, max := mx, seq := sq }
  [[mk "a" 1 none, mk "b" 1 none], [mk "a" 2 (some 1), mk "b" 2 (some 1)]]

/-- on the former witness the merged attrs now carry the marker -/
example : (∀ c ∈ seqWitness, NodupKeys c) ∧
    (reduceAttributes seqWitness).map (fun R => R.map (·.seq)) = some [some 1, some 1] := by decide

/-! #### what is still open (finding C13-sequence-numbers-positional) -/

/-- full strength: the merged attr carries the marker of *every* occurrence that has one -/
def sequence_marker_exact : Prop :=
  ∀ (classes : List (List Attr)) (R : List Attr), (∀ c ∈ classes, NodupKeys c) →
    reduceAttributes classes = some R →
    ∀ c ∈ classes, ∀ a ∈ c, a.seq.isSome = true → ∀ m ∈ R, m.same a = true → m.seq = a.seq

/-- the occurrences `x x b c b c` and `b c b c`: the block `b c` is number 2 in one, number 1 in the other -/
def seqNumberWitness : List (List Attr) :=
  let mk (n : String) (sq : Option Nat) : Attr :=
    { tag := .element, name := n.toList, ns := none, index := 0, types := [], min := 1, max := 2, seq := sq }
  [[mk "x" (some 1), mk "b" (some 2), mk "c" (some 2)], [mk "b" (some 1), mk "c" (some 1)]]

/-- it is false: sequence numbers are positional per occurrence -/
theorem sequence_marker_not_exact : ¬ sequence_marker_exact := by
  intro h
  have hr : reduceAttributes seqNumberWitness = some
      [{ tag := .element, name := "x".toList, ns := none, index := 0, types := [], min := 0, max := 2, seq := some 1 },
       { tag := .element, name := "b".toList, ns := none, index := 0, types := [], min := 1, max := 2, seq := some 2 },
       { tag := .element, name := "c".toList, ns := none, index := 0, types := [], min := 1, max := 2, seq := some 2 }] := by
    decide
  have := h seqNumberWitness _ (by decide) hr (seqNumberWitness.getLast (by decide)) (by decide)
    { tag := .element, name := "b".toList, ns := none, index := 0, types := [], min := 1, max := 2, seq := some 1 }
    (by decide) rfl
    { tag := .element, name := "b".toList, ns := none, index := 0, types := [], min := 1, max := 2, seq := some 2 }
    (by decide) (by decide)
  revert this
  decide

/-- the provable part: when all occurrences agree on the marker of every attr they share, the
merged attr carries exactly that marker -/
theorem sequence_marker_exact_partial (classes : List (List Attr)) (R : List Attr)
    (hagree : ∀ c ∈ classes, ∀ a ∈ c, ∀ c' ∈ classes, ∀ a' ∈ c', a.same a' = true → a.seq = a'.seq)
    (h : reduceAttributes classes = some R) :
    ∀ m ∈ R, ∀ c ∈ classes, ∀ a ∈ c, m.same a = true → m.seq = a.seq := by
  intro m hm c hc a ha hs
  obtain ⟨c0, hc0, a0, ha0, hs0, hq⟩ := reduceAttributes_origin classes R h m hm
  rw [← hq]
  exact hagree c0 hc0 a0 ha0 c hc a ha (same_trans hs0 hs)

/-- occurrences that agree: `a b a b` twice -/
example :
    let mk (n : String) : Attr :=
      { tag := .element, name := n.toList, ns := none, index := 0, types := [], min := 1, max := 2, seq := some 1 }
    let classes := [[mk "a", mk "b"], [mk "a", mk "b"]]
    ∀ c ∈ classes, ∀ a ∈ c, ∀ c' ∈ classes, ∀ a' ∈ c', a.same a' = true → a.seq = a'.seq := by
  decide

/-! ### the order of the merged attrs (finding C13-field-order-greedy-merge) -/

/-- full strength: the order `sorted_attrs` derives respects the order of every class it merged -/
def field_order_respected : Prop :=
  ∀ classes : List (List Attr), (∀ c ∈ classes, NodupKeys c) →
    ∀ c ∈ classes, SubseqKeys c (sortedAttrs (sortByLenDesc classes)) = true

/-- the occurrences `v c`, `v b`, `b c` (all consistent with `v b c`), in the order `reduce_classes` sees them -/
def orderWitness : List (List Attr) :=
  let mk (n : String) : Attr := { tag := .element, name := n.toList, ns := none, index := 0, types := [], min := 1, max := 1 }
  [[mk "v", mk "c"], [mk "v", mk "b"], [mk "b", mk "c"]]

/-- it is false: the merge is greedy, not topological -/
theorem field_order_not_respected : ¬ field_order_respected := by
  intro h
  have := h orderWitness (by decide) (orderWitness.getLast (by decide)) (by decide)
  revert this
  decide

/-- the provable part: when the largest class (first after the stable sort) knows every attr of the
others, the merged order is exactly its order — so every class that is a subsequence of the largest
one keeps its order -/
theorem field_order_partial (classes : List (List Attr)) (first : List Attr) (rest : List (List Attr))
    (hs : sortByLenDesc classes = first :: rest)
    (hsub : ∀ c ∈ rest, ∀ a ∈ c, findAttr first a ≠ none) :
    sortedAttrs (sortByLenDesc classes) = first := by
  have hfirst : ∀ (l pending : List Attr), insertObj [] pending l = pending ++ l := by
    intro l
    induction l with
    | nil => intro pending; simp [insertObj]
    | cons a l ih => intro pending; simp [insertObj, findAttr, ih]
  have hkeep : ∀ (l : List Attr), (∀ a ∈ l, findAttr first a ≠ none) → insertObj first [] l = first := by
    intro l
    induction l with
    | nil => intro _; simp [insertObj]
    | cons a l ih =>
      intro hl
      cases hf : findAttr first a with
      | none => exact absurd hf (hl a (by simp))
      | some pos =>
        simp only [insertObj, hf, List.append_nil, List.take_append_drop]
        exact ih (fun b hb => hl b (by simp [hb]))
  rw [hs]
  simp only [sortedAttrs, List.foldl_cons, hfirst, List.nil_append]
  clear hs
  induction rest with
  | nil => rfl
  | cons c rest ih =>
    simp only [List.foldl_cons]
    rw [hkeep c (hsub c (by simp))]
    exact ih (fun c' hc' => hsub c' (by simp [hc']))

/-- a largest occurrence that knows everything: `v b c` next to `v c` and `b c` -/
example :
    let mk (n : String) : Attr := { tag := .element, name := n.toList, ns := none, index := 0, types := [], min := 1, max := 1 }
    let classes := [[mk "v", mk "c"], [mk "v", mk "b", mk "c"], [mk "b", mk "c"]]
    sortByLenDesc classes = [mk "v", mk "b", mk "c"] :: [[mk "v", mk "c"], [mk "b", mk "c"]] ∧
    ∀ c ∈ [[mk "v", mk "c"], [mk "b", mk "c"]], ∀ a ∈ c, findAttr [mk "v", mk "b", mk "c"] a ≠ none := by
  decide

/-- `SubseqKeys` looks at the keys of the second list only -/
theorem subseqKeys_congr (l₁ : List Attr) : ∀ (c l₂ : List Attr), l₁.map keyOf = l₂.map keyOf →
    SubseqKeys c l₁ = SubseqKeys c l₂ := by
  induction l₁ with
  | nil =>
    intro c l₂ h
    cases l₂ with
    | nil => rfl
    | cons _ _ => simp at h
  | cons y ys ih =>
    intro c l₂ h
    cases l₂ with
    | nil => simp at h
    | cons z zs =>
      simp only [List.map_cons, List.cons.injEq] at h
      cases c with
      | nil => simp [SubseqKeys]
      | cons x xs =>
        have hxy : x.same y = x.same z := same_congr_right x ((same_iff_key y z).2 h.1)
        simp only [SubseqKeys, hxy]
        split
        · exact ih xs zs h.2
        · exact ih (x :: xs) zs h.2

/-- **field_order_respected_partial.** The provable part with the exact hypothesis: on every input
outside the region of the finding — `orderRespected classes`, the decidable check that the greedy
order is a linear extension of every class's order — `reduce_attributes` returns the attrs in an
order in which every merged class finds its own attrs in its own order. -/
theorem field_order_respected_partial (classes : List (List Attr)) (hn : ∀ c ∈ classes, NodupKeys c)
    (h : orderRespected classes = true) :
    ∃ R, reduceAttributes classes = some R ∧ ∀ c ∈ classes, SubseqKeys c R = true := by
  obtain ⟨R, hR, _⟩ := reduceAttributes_admits classes hn
  refine ⟨R, hR, ?_⟩
  intro c hc
  rw [subseqKeys_congr R c _ (reduceAttributes_order classes hn R hR)]
  simp only [orderRespected, List.all_eq_true] at h
  exact h c hc

/-- a later occurrence with a run of two new children in front of a known one:
`id customer priority total` + `id giftwrap coupon total` — the run keeps its order -/
example :
    let mk (n : String) : Attr := { tag := .element, name := n.toList, ns := none, index := 0, types := [], min := 1, max := 1 }
    let classes := [[mk "id", mk "customer", mk "priority", mk "total"], [mk "id", mk "giftwrap", mk "coupon", mk "total"]]
    (∀ c ∈ classes, NodupKeys c) ∧ orderRespected classes = true ∧
    (reduceAttributes classes).map (fun R => R.map (·.name)) =
      some ["id".toList, "customer".toList, "priority".toList, "giftwrap".toList, "coupon".toList, "total".toList] := by
  decide

/-- the witness of the finding is outside the hypothesis -/
example : orderRespected orderWitness = false := by decide

/-! ### type inference -/

/-- `match_type` answers with the string fallback or with the datatype of a table entry whose
strict test accepts the value, and every entry in front of it rejects the value -/
theorem match_type_first (e : SEnv) (tbl : List (Option PyT × Str)) (s : Str) :
    (matchTypeIn e tbl s = Tables.dtString ∧ ∀ t q, (some t, q) ∈ tbl → testStrict e t s = false) ∨
    ∃ pre t post, tbl = pre ++ (some t, matchTypeIn e tbl s) :: post ∧ testStrict e t s = true ∧
      ∀ t' q', (some t', q') ∈ pre → testStrict e t' s = false := by
  induction tbl with
  | nil => left; simp [matchTypeIn]
  | cons p rest ih =>
    obtain ⟨t0, q0⟩ := p
    cases t0 with
    | none =>
      have hm : matchTypeIn e ((none, q0) :: rest) s = matchTypeIn e rest s := by
        simp [matchTypeIn]
      rw [hm]
      rcases ih with ⟨h1, h2⟩ | ⟨pre, t, post, h1, h2, h3⟩
      · left
        refine ⟨h1, ?_⟩
        intro t q hmem
        simp only [List.mem_cons, Prod.mk.injEq] at hmem
        rcases hmem with ⟨h, _⟩ | hmem
        · cases h
        · exact h2 t q hmem
      · right
        refine ⟨(none, q0) :: pre, t, post, by rw [List.cons_append]; exact congrArg _ h1, h2, ?_⟩
        intro t' q' hmem
        simp only [List.mem_cons, Prod.mk.injEq] at hmem
        rcases hmem with ⟨h, _⟩ | hmem
        · cases h
        · exact h3 t' q' hmem
    | some t0 =>
      cases ht : testStrict e t0 s with
      | true =>
        right
        refine ⟨[], t0, rest, ?_, ht, by simp⟩
        simp [matchTypeIn, ht]
      | false =>
        have hm : matchTypeIn e ((some t0, q0) :: rest) s = matchTypeIn e rest s := by
          simp [matchTypeIn, ht]
        rw [hm]
        rcases ih with ⟨h1, h2⟩ | ⟨pre, t, post, h1, h2, h3⟩
        · left
          refine ⟨h1, ?_⟩
          intro t q hmem
          simp only [List.mem_cons, Prod.mk.injEq] at hmem
          rcases hmem with ⟨h, _⟩ | hmem
          · cases h; exact ht
          · exact h2 t q hmem
        · right
          refine ⟨(some t0, q0) :: pre, t, post, by rw [List.cons_append]; exact congrArg _ h1, h2, ?_⟩
          intro t' q' hmem
          simp only [List.mem_cons, Prod.mk.injEq] at hmem
          rcases hmem with ⟨h, _⟩ | hmem
          · cases h; exact ht
          · exact h3 t' q' hmem

/-- in the live table every datatype belongs to one python type, and none is the string fallback -/
theorem explicit_types_functional :
    explicitTypes.all (fun p => p.2 ≠ Tables.dtString && explicitTypes.all (fun p' => p'.2 ≠ p.2 || p'.1 = p.1)) = true := by
  decide

/-- **infer_sound.** When `match_type` infers the datatype that the live table pairs with the
python type `t`, the strict lexical test for `t` accepted the value. -/
theorem infer_sound (e : SEnv) (s : Str) (t : PyT) (q : Str) (hq : (some t, q) ∈ explicitTypes)
    (h : matchType e s = q) : testStrict e t s = true := by
  have hf := explicit_types_functional
  simp only [List.all_eq_true, Bool.and_eq_true, Bool.or_eq_true, decide_eq_true_eq, ne_eq,
    decide_eq_false_iff_not] at hf
  rcases match_type_first e explicitTypes s with ⟨h1, _⟩ | ⟨pre, t', post, h1, h2, _⟩
  · have := (hf _ hq).1
    simp only [matchType] at h
    rw [h] at h1
    exact absurd h1 this
  · simp only [matchType] at h
    rw [h] at h1
    have hmem : (some t', q) ∈ explicitTypes := by rw [h1]; simp
    have := (hf _ hq).2 _ hmem
    simp at this
    cases this; exact h2

open Xs.Bind in
/-- a value inferred as `int` is read by the binding layer's int converter and written back as it
was spelled (up to surrounding white space) -/
theorem infer_int_roundtrip (e : SEnv) (be : BEnv) (hpy : be.py = e.py) (s : Str) (q : Str) (nsmap : NsMap)
    (hq : (some PyT.int, q) ∈ explicitTypes) (h : matchType e s = q) :
    ∃ v, deOne be s (.prim .int) nsmap = some v ∧ serPrim v = e.py.strip s := by
  have ht := infer_sound e s .int q hq h
  simp only [testStrict] at ht
  cases hi : e.py.pyInt s with
  | none => simp [hi] at ht
  | some i =>
    simp only [hi, decide_eq_true_eq] at ht
    exact ⟨.int i, by simp [deOne, hpy, hi], by simp [serPrim, ht]⟩

open Xs.Bind in
/-- the same for `bool` -/
theorem infer_bool_roundtrip (e : SEnv) (be : BEnv) (hpy : be.py = e.py) (s : Str) (q : Str) (nsmap : NsMap)
    (hq : (some PyT.bool, q) ∈ explicitTypes) (h : matchType e s = q) :
    ∃ v, deOne be s (.prim .bool) nsmap = some v ∧ serPrim v = e.py.strip s := by
  have ht := infer_sound e s .bool q hq h
  have hv : e.py.strip s = "true".toList ∨ e.py.strip s = "false".toList := by
    simp only [testStrict, deBool] at ht
    split at ht
    · rename_i b _
      simp only [decide_eq_true_eq] at ht
      cases b
      · right; simpa [serBool] using ht
      · left; simpa [serBool] using ht
    · cases ht
  rcases hv with hv | hv
  · exact ⟨.bool true, by simp [deOne, hpy, hv], by simp [serPrim, hv]⟩
  · refine ⟨.bool false, ?_, by simp [serPrim, hv]⟩
    simp only [deOne, hpy, hv]
    decide

open Xs.Conv in
/-- **infer_decimal_roundtrip.** A value inferred as `Decimal` is read by the decimal converter of the
converter model (C05) and `format(d, "f")` writes it back as it was spelled (up to surrounding white
space) — the strict test is no longer an assumption about the outside world. -/
theorem infer_decimal_roundtrip (e : SEnv) (s : Str) (q : Str)
    (hq : (some PyT.decimal, q) ∈ explicitTypes) (h : matchType e s = q) :
    ∃ d, decimalDeserialize e.py s = some d ∧ decimalSerialize d = e.py.strip s := by
  have ht := infer_sound e s .decimal q hq h
  simp only [testStrict, Xs.Conv.test, Xs.Conv.deserialize, deserializeFrom, deserializeOne, atomDeserialize] at ht
  cases hd : decimalDeserialize e.conv.toEnv s with
  | none => simp [hd] at ht
  | some d =>
    simp only [hd, Option.map_some, Bool.not_true, Bool.false_eq_true, if_false, decide_eq_true_eq] at ht
    exact ⟨d, rfl, ht.symm⟩

open Xs.Conv in
/-- **infer_float_roundtrip.** A value inferred as `float` is a literal `float()` accepts, and unless it
is an infinity or NaN the float converter writes it back as it was spelled; the only function taken
from outside is `repr` of the parsed float. -/
theorem infer_float_roundtrip (e : SEnv) (s : Str) (q : Str)
    (hq : (some PyT.float, q) ∈ explicitTypes) (h : matchType e s = q) :
    ∃ f, floatDeserialize e.conv s = some f ∧ (f.isInf = true ∨ f.isNan = true ∨ floatSerialize f = e.py.strip s) := by
  have ht := infer_sound e s .float q hq h
  simp only [testStrict, Xs.Conv.test, Xs.Conv.deserialize, deserializeFrom, deserializeOne, atomDeserialize] at ht
  cases hd : floatDeserialize e.conv s with
  | none => simp [hd] at ht
  | some f =>
    simp only [hd, Option.map_some, Bool.not_true, Bool.false_eq_true, if_false] at ht
    refine ⟨f, rfl, ?_⟩
    by_cases hi : f.isInf = true
    · exact Or.inl hi
    · by_cases hn : f.isNan = true
      · exact Or.inr (Or.inl hn)
      · simp only [hi, hn, Bool.or_self, Bool.false_eq_true, if_false, decide_eq_true_eq] at ht
        exact Or.inr (Or.inr ht.symm)

/-- the live table has entries for `Decimal` and `float`, and the decimal test is really computed:
`12.50` is a strict Decimal (a float would write `12.5`), `1e5` is not -/
example :
    let e : SEnv := ⟨{ toEnv := Env.ascii, isAlphaNA := fun _ => false, floatRepr := fun _ => "12.5".toList }⟩
    (explicitTypes.any (fun p => p.1 = some PyT.decimal) && explicitTypes.any (fun p => p.1 = some PyT.float)) = true ∧
    testStrict e .decimal "12.50".toList = true ∧ testStrict e .float "12.50".toList = false ∧
    testStrict e .decimal "1e5".toList = false := by
  decide

example : (some PyT.int, Tables.explicitTypesDt.head!.2) ∈ explicitTypes := by decide

/-- both hypotheses of `infer_sound` (and of the `infer_*_roundtrip` theorems) are met together by sample values:
`12` is inferred as the datatype the table pairs with `int`, `true` as the one of `bool`; `007` is a string -/
example :
    let e : SEnv := ⟨{ toEnv := Env.ascii, isAlphaNA := fun _ => false, floatRepr := fun _ => "7.0".toList }⟩
    (some PyT.int, matchType e "12".toList) ∈ explicitTypes ∧ (some PyT.bool, matchType e "true".toList) ∈ explicitTypes ∧
    matchType e "007".toList = Tables.dtString := by
  decide

/-! ### the generated union reads leniently (finding C13-union-member-order) -/

open Xs.Bind in
/-- full strength: whichever member of the union `int | str` (members tried in the converter's
fixed order) reads a sample value, the value is written back as it was spelled -/
def union_parse_faithful : Prop :=
  ∀ (be : BEnv) (s : Str) (v : PVal), deserialize be s [.prim .int, .prim .str] [] = some v → serPrim v = s

open Xs.Bind in
/-- it is false: `007` was inferred as a string (its strict int test fails) but `int` reads it -/
theorem union_parse_unfaithful : ¬ union_parse_faithful := by
  intro h
  have := h ⟨Env.ascii, fun _ => true, fun _ => true⟩ "007".toList (.int 7) (by decide)
  revert this
  decide

/-- the witness really is inferred as a string next to an int sample -/
theorem union_witness_types :
    let e : SEnv := ⟨{ toEnv := Env.ascii, isAlphaNA := fun _ => false, floatRepr := fun s => s }⟩
    testStrict e .int "007".toList = false ∧ testStrict e .int "12".toList = true := by
  decide

open Xs.Bind in
/-- the provable part: a value that the int converter rejects, or reads and writes back
unchanged, survives the union -/
theorem union_parse_faithful_partial (be : BEnv) (s : Str) (v : PVal)
    (hstrict : ∀ i, be.py.pyInt s = some i → intStr i = s)
    (h : deserialize be s [.prim .int, .prim .str] [] = some v) : serPrim v = s := by
  simp only [deserialize, List.findSome?_cons, deOne] at h
  cases hi : be.py.pyInt s with
  | none => simp [hi] at h; subst h; simp [serPrim]
  | some i => simp [hi] at h; subst h; simp [serPrim, hstrict i hi]

example : ∀ i, Env.ascii.pyInt "abc".toList = some i → intStr i = "abc".toList := by decide
example : ∀ i, Env.ascii.pyInt "12".toList = some i → intStr i = "12".toList := by
  intro i h
  have : Env.ascii.pyInt "12".toList = some 12 := by decide
  rw [this] at h; cases h; decide


/-! ### connected components of the repeat ranges -/

/-- two indices end up in one component -/
def SameComp (lists : List (List Nat)) (x y : Nat) : Prop :=
  ∃ c ∈ connectedComponents lists, x ∈ c ∧ y ∈ c

/-- **components_correct.** `connected_components` returns a partition of the indices that occur
in the input lists (no repeats, pairwise disjoint, every component sorted); each input list lies
inside one component; and two indices share a component exactly when a chain of input lists,
consecutive ones overlapping, links them — the components are the maximal overlapping groups. -/
theorem components_correct (lists : List (List Nat)) :
    (connectedComponents lists).Nodup ∧
    (∀ c ∈ connectedComponents lists, ∀ d ∈ connectedComponents lists, ∀ x, x ∈ c → x ∈ d → c = d) ∧
    (∀ c ∈ connectedComponents lists, c.Pairwise (· ≤ ·)) ∧
    (∀ l ∈ lists, l ≠ [] → ∃ c ∈ connectedComponents lists, ∀ x ∈ l, x ∈ c) ∧
    (∀ x y, SameComp lists x y ↔ (∃ l ∈ lists, x ∈ l) ∧ (∃ l ∈ lists, y ∈ l) ∧ Chain lists x y) := by
  obtain ⟨hcover, hnodup, hdisj, hclosed, hconn, hsorted⟩ := components_spec lists
  refine ⟨hnodup, hdisj, hsorted, hclosed, ?_⟩
  intro x y
  constructor
  · rintro ⟨c, hc, hx, hy⟩
    exact ⟨(hcover x).1 ⟨c, hc, hx⟩, (hcover y).1 ⟨c, hc, hy⟩, hconn c hc x hx y hy⟩
  · rintro ⟨hx, hy, hch⟩
    obtain ⟨c, hc, hxc⟩ := (hcover x).2 hx
    refine ⟨c, hc, hxc, ?_⟩
    clear hx hy
    induction hch with
    | refl => exact hxc
    | step l hl hxl hyl _ ih =>
      have hne : l ≠ [] := by intro h; subst h; simp at hxl
      obtain ⟨d, hd, hsub⟩ := hclosed l hl hne
      have : c = d := hdisj c hc d hd _ hxc (hsub _ hxl)
      subst this
      exact ih (hsub _ hyl)

/-- **components_order_independent.** Which indices share a component does not depend on the order
in which the lists are given. -/
theorem components_order_independent (l₁ l₂ : List (List Nat)) (h : l₁.Perm l₂) (x y : Nat) :
    SameComp l₁ x y ↔ SameComp l₂ x y := by
  have key : ∀ a b : List (List Nat), (∀ l, l ∈ a → l ∈ b) → SameComp a x y → SameComp b x y := by
    intro a b hsub hs
    obtain ⟨hx, hy, hc⟩ := ((components_correct a).2.2.2.2 x y).1 hs
    refine ((components_correct b).2.2.2.2 x y).2 ⟨?_, ?_, hc.mono hsub⟩
    · obtain ⟨l, hl, hxl⟩ := hx; exact ⟨l, hsub l hl, hxl⟩
    · obtain ⟨l, hl, hyl⟩ := hy; exact ⟨l, hsub l hl, hyl⟩
  exact ⟨key l₁ l₂ (fun l hl => h.mem_iff.1 hl), key l₂ l₁ (fun l hl => h.mem_iff.2 hl)⟩

/-- the interleaved sample `a b a b c`: one sequence group made of the first four children -/
example : sequentialGroups ["a".toList, "b".toList, "a".toList, "b".toList, "c".toList] = [[0, 1, 2, 3]] := by decide

end Props.C13
