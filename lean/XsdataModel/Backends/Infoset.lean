/-
C09 — from the bytes of a document to the result of the parser, for the native handler.

    bytes --(tokeniser: expat + ElementTree's TreeBuilder behind `etree.iterparse`)--> events
          --(`XmlEventHandler.process_context`: `pump`)--> calls on the parser (`PEv`)
          --(`NodeParser.start/end`: the binding layer, `Bind/Parse.lean`)--> object

The tokeniser is external.  What the rest relies on is stated as a contract (`TokeniserContract`):
for a well-formed document the events are the events of its *infoset* — the element tree with the
declarations written on each element, attribute values and character data decoded (whatever the
encoding, CDATA sections, character references, comments, processing instructions, quotes were).
The contract is checked on generated spellings by the correspondence (`c08.pump` / `c08.inscope`
on the documents of harness/c09_rewrite.py); given the contract, the theorems of Props/C09.lean
are about bytes.

The binding layer consumes the calls as a `Tree` (`assemble`: the element structure the calls
spell out, each element with the prefix map it was passed).
-/
import XsdataModel.Backends.Handler
import XsdataModel.Bind.Parse

namespace Xs.Backends
open Py Xs.Bind

abbrev ByteStr := List UInt8

/-- an element under construction: name, attributes, the map passed at `start`, children so far (reversed) -/
structure Open where
  q : QN
  attrs : List (QN × Str)
  ns : NsMap
  kids : List Tree

/-- the element tree a sequence of parser calls spells out (`none`: not the calls of one whole
document).  `register_namespace` calls do not take part. -/
def assembleGo : List Open → List PEv → Option Tree
  | _, [] => none
  | stack, .registerNs _ _ :: rest => assembleGo stack rest
  | stack, .start q a m :: rest => assembleGo (⟨q, a, m, []⟩ :: stack) rest
  | [], .end _ _ _ :: _ => none
  | o :: stack, .end _ t tl :: rest =>
    let el := Tree.node o.q o.attrs o.ns t o.kids.reverse tl
    match stack with
    | [] => if rest.all (fun ev => match ev with | .registerNs _ _ => true | _ => false) then some el else none
    | p :: ps => assembleGo ({ p with kids := el :: p.kids } :: ps) rest
  | _, .crash :: _ => none

def assemble (calls : List PEv) : Option Tree := assembleGo [] calls

/-- the in-scope bindings as a prefix map: innermost element first, within an element the last
declaration of a prefix first (`NsMap.get` takes the first match) -/
def inScopeMap (frames : List (List (Str × Str))) : NsMap :=
  frames.flatMap (fun f => f.reverse.map (fun d => (orNone d.1, d.2)))

mutual
/-- the infoset as the binding layer sees it: every element with its in-scope namespaces -/
def specTree (frames : List (List (Str × Str))) : XTree → Tree
  | .node d q a _ t kids tl => .node q a (inScopeMap (d :: frames)) t (specKidsT (d :: frames) kids) tl
def specKidsT (frames : List (List (Str × Str))) : List XTree → List Tree
  | [] => []
  | k :: ks => specTree frames k :: specKidsT frames ks
end

/-- what the rest of the system assumes about `etree.iterparse(source, EVENTS)` (expat +
TreeBuilder): `infoset b` is the meaning of the bytes — defined by the XML recommendation, not by
this model — and the events are its events -/
structure TokeniserContract where
  iterparse : ByteStr → List Tok
  infoset : ByteStr → Option XTree
  events_of_infoset : ∀ b t, infoset b = some t → iterparse b = toks t

/-- `XmlParser(handler=XmlEventHandler).from_bytes(b, clazz)`: value and number of warnings
(`Err.parser`: also what a document that is not well-formed ends in) -/
def nativeResult (C : TokeniserContract) (e : BEnv) (Γ : Ctx) (cfg : ParserConfig) (clazz : ClassId) (b : ByteStr) :
    Except Err (Val × Nat) :=
  match assemble (pump [] [] (C.iterparse b)) with
  | some tree => parseRoot e Γ cfg clazz tree
  | none => .error (.parser "not well-formed")

end Xs.Backends
