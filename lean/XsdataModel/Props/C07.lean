/- C07 — property theorems (only). Helper lemmas: Proofs/Names.lean, Proofs/Rename.lean. -/
import XsdataModel.Proofs.Names
import XsdataModel.Proofs.Rename
import XsdataModel.Proofs.RenameClasses
import XsdataModel.Py.TblEnv
import XsdataModel.Names.TblUEnv

namespace Props.C07
open Py Xs.Text Xs.Filters Xs.Rename Proofs.Names Proofs.Rename Proofs.RenameClasses

/-! ## tables the proofs are about (regenerated from /repo on every run) -/

def allCases : List NameCase :=
  [.original, .pascal, .camel, .snake, .screamingSnake, .mixed, .mixedSnake, .mixedPascal]

def defaultPrefixes : List Str :=
  [Tables.classSafePrefix, Tables.fieldSafePrefix, Tables.moduleSafePrefix, Tables.packageSafePrefix]

/-- the ASCII alphabet `text.__alnum_ascii__` is exactly the model's `isAsciiAlnum` -/
theorem alnum_table_agrees :
    Tables.alnumAscii = ((List.range 128).map Char.ofNat).filter isAsciiAlnum := by decide +kernel

/-- the default `GeneratorConventions` are the ones the rest of this file talks about -/
theorem default_conventions :
    classConv = ⟨.pascal, "type".toList⟩ ∧ fieldConv = ⟨.snake, "value".toList⟩ ∧
    constantConv = ⟨.screamingSnake, "value".toList⟩ ∧ moduleConv = ⟨.snake, "mod".toList⟩ ∧
    packageConv = ⟨.snake, "pkg".toList⟩ := by decide +kernel

/-- every naming case combined with every default safe prefix is a "good" convention:
the prefix is a word of lower-case ASCII letters and no reserved word ends in what the case
function makes of `_prefix`. (Checked against the extracted `stop_words`.) -/
theorem default_prefixes_good :
    ∀ c ∈ allCases, ∀ p ∈ defaultPrefixes, goodPrefix ⟨c, p⟩ = true := by decide +kernel

example : goodPrefix classConv = true ∧ goodPrefix fieldConv = true ∧ goodPrefix constantConv = true ∧
    goodPrefix moduleConv = true ∧ goodPrefix packageConv = true := by decide +kernel

/-! ## safe_name: termination, reserved words, identifiers -/

/-- **safe_name terminates**: for every Unicode environment, every naming case, every good
prefix and *every* name (all of Unicode) the recursion ends within three calls. -/
theorem safe_name_terminates (e : Env) (u : UEnv) (cv : Conv) (hg : goodPrefix cv = true)
    (name : Str) : ∃ r, safeNameFuel e u cv 3 name = .ok r ∧ safeName e u cv name = .ok r := by
  obtain ⟨_, r, _, _, _, hf, _⟩ := run_total e u cv hg name
  exact ⟨r, hf, fuel_mono' e u cv r 3 61 name hf⟩

/-- **`Filters` accepts exactly the prefixes whose first ASCII alphanumeric is a letter**; the
five defaults pass, a prefix such as `_`, `1`, `é` or the empty string is rejected with the
generator's own error (model: `filtersInit = false` ↔ CodegenError). -/
theorem default_prefixes_accepted :
    filtersInit [Tables.classSafePrefix, Tables.fieldSafePrefix, Tables.constantSafePrefix,
      Tables.moduleSafePrefix, Tables.packageSafePrefix] = true ∧
    (∀ c ∈ allCases, ∀ p ∈ defaultPrefixes, validPrefix (Conv.mk c p).pfx = true) := by decide +kernel

example : filtersInit ["type".toList, ['_'], "value".toList] = false ∧ validPrefix ['1', 'a'] = false ∧
    validPrefix [] = false ∧ validPrefix [Char.ofNat 0xE9] = false ∧ validPrefix "_x-1".toList = true := by
  decide +kernel

/-- **safe_name terminates for every convention `Filters` accepts**: whatever the case, the
accepted prefix and the name (all of Unicode), eleven calls suffice (each rewrite makes the slug
longer and no reserved word has more than 8 characters — checked on the extracted table). -/
theorem safe_name_terminates_accepted (e : Env) (u : UEnv) (cv : Conv) (hv : validPrefix cv.pfx = true)
    (name : Str) : ∃ r, safeNameFuel e u cv 11 name = .ok r ∧ safeName e u cv name = .ok r := by
  obtain ⟨_, r, _, _, hf, _⟩ := run_valid e u cv hv name
  exact ⟨r, hf, fuel_mono' e u cv r 11 53 name hf⟩

example : validPrefix fieldConv.pfx = true ∧ validPrefix "class".toList = true ∧
    safeName Env.ascii UEnv.ascii ⟨.snake, "class".toList⟩ "class".toList = .ok "class_class".toList := by
  decide +kernel

/-- without the validation the function itself still diverges on a rejected prefix: this is what
`Filters.validate_safe_prefixes` keeps out (model: the fuel runs out). -/
theorem safe_name_alone_diverges_for_rejected_prefix :
    validPrefix ['_'] = false ∧
    safeName Env.ascii UEnv.ascii ⟨.snake, ['_']⟩ "class".toList = .recursionError := by
  decide +kernel

/-- **never a reserved word**: the result is not in `text.stop_words`. -/
theorem safe_name_not_reserved (e : Env) (u : UEnv) (cv : Conv) (hv : validPrefix cv.pfx = true)
    (name r : Str) (h : safeName e u cv name = .ok r) : isReserved r = false := by
  obtain ⟨_, r', _, _, hf, hnr⟩ := run_valid e u cv hv name
  have := fuel_mono' e u cv r' 11 53 name hf
  unfold safeName defaultFuel at h
  rw [this] at h
  cases h
  exact hnr

/-- **always an identifier**: for all eight naming cases (originalCase included, now that it
strips the characters Python does not allow), every accepted prefix and every input name the
result satisfies `str.isidentifier()`. -/
theorem safe_name_identifier (e : Env) (u : UEnv) (cv : Conv) (hv : validPrefix cv.pfx = true)
    (name r : Str) (h : safeName e u cv name = .ok r) : u.isIdentifier r = true := by
  obtain ⟨n, r', hD, hr, hf, _⟩ := run_valid e u cv hv name
  have := fuel_mono' e u cv r' 11 53 name hf
  unfold safeName defaultFuel at h
  rw [this] at h
  cases h
  by_cases hc : cv.case = .original
  · rw [hc] at hr
    simp only [applyCase, Option.some.injEq] at hr
    subst hr
    exact original_identifier u n hD.2
  · obtain ⟨r2, hr2, hh, hok⟩ := applyCase_shape u cv.case hc n hD.2
    rw [hr] at hr2
    cases hr2
    exact isIdentifier_of_shape u _ hh hok

example : validPrefix Tables.fieldSafePrefix = true ∧
    safeName tblEnv tblUEnv ⟨.original, Tables.fieldSafePrefix⟩ ['a', Char.ofNat 0x2070] = .ok ['a'] ∧
    safeName tblEnv tblUEnv ⟨.original, Tables.fieldSafePrefix⟩ [Char.ofNat 0x2070] = .ok "value_".toList := by
  decide +kernel

/-! ## names that Python would rewrite inside a class body

A name that starts with two underscores (and does not end with two) is *mangled* when it is
written inside a class body: the type hint `T.__a` of a field of `T` is compiled as
`T._T__a`. All cases except `originalCase` start with a letter; `originalCase` (repair
`c07e-01`) now collapses a leading run of underscores to one. -/

def startsDunder : Str → Bool
  | '_' :: '_' :: _ => true
  | _ => false

theorem not_dunder_of_headAlpha (s : Str) (hh : headAlpha s = true) : startsDunder s = false := by
  cases s with
  | nil => rfl
  | cons a t =>
    have ha : a ≠ '_' := by
      intro h0; subst h0
      have : isAsciiAlpha '_' = false := by decide
      simp [headAlpha, this] at hh
    unfold startsDunder
    split
    · rename_i heq
      simp only [List.cons.injEq] at heq
      exact absurd heq.1 ha
    · rfl

/-- **never mangled**: for all eight naming cases, every accepted prefix and every input name,
the result of `safe_name` does not start with two underscores. -/
theorem safe_name_never_mangled (e : Env) (u : UEnv) (cv : Conv) (hv : validPrefix cv.pfx = true)
    (name r : Str) (h : safeName e u cv name = .ok r) : startsDunder r = false := by
  obtain ⟨n, r', hD, hr, hf, _⟩ := run_valid e u cv hv name
  have := fuel_mono' e u cv r' 11 53 name hf
  unfold safeName defaultFuel at h
  rw [this] at h
  cases h
  by_cases hc : cv.case = .original
  · rw [hc] at hr
    simp only [applyCase, Option.some.injEq] at hr
    subst hr
    cases hres : originalCase u n with
    | nil => rfl
    | cons a t =>
      cases t with
      | nil => simp [startsDunder]
      | cons b t' =>
        by_cases hab : a = '_' ∧ b = '_'
        · exfalso
          obtain ⟨rfl, rfl⟩ := hab
          exact collapseLead_not_dunder (originalCore u n) t' hres
        · unfold startsDunder
          split
          · rename_i heq
            simp only [List.cons.injEq] at heq
            exact absurd ⟨heq.1, heq.2.1⟩ hab
          · rfl
  · obtain ⟨r2, hr2, hh, _⟩ := applyCase_shape u cv.case hc n hD.2
    rw [hr] at hr2
    cases hr2
    exact not_dunder_of_headAlpha _ hh

example : safeName tblEnv tblUEnv ⟨.original, Tables.classSafePrefix⟩ "__a".toList = .ok "_a".toList ∧
    safeName tblEnv tblUEnv ⟨.original, Tables.classSafePrefix⟩ "___Inner".toList = .ok "_Inner".toList ∧
    safeName tblEnv tblUEnv ⟨.original, Tables.classSafePrefix⟩ "_USERName".toList = .ok "_USERName".toList := by
  decide +kernel

/-! ## a field named like a class

`C07-field-named-like-inner-class`: the field of an element and the inner class of its anonymous
type are both named after the element, each by its own convention, at render time. Whether the
two strings differ is a property of the pair of conventions, not of the schema. -/

/-- **field and class names never coincide** when the field case always starts with a lower-case
letter (snakeCase, camelCase) and the class case always starts with a capital (pascalCase,
mixedPascalCase, screamingSnakeCase): for all accepted prefixes and ANY two input names. The
default pair (snake, pascal) is one of the six. -/
theorem field_name_never_a_class_name (e : Env) (u : UEnv) (cvF cvC : Conv)
    (hvF : validPrefix cvF.pfx = true) (hvC : validPrefix cvC.pfx = true)
    (hF : startsLower cvF.case = true) (hC : startsUpper cvC.case = true)
    (a b rf rc : Str) (hf : safeName e u cvF a = .ok rf) (hcn : safeName e u cvC b = .ok rc) : rf ≠ rc := by
  obtain ⟨n1, r1, hD1, hr1, hf1, _⟩ := run_valid e u cvF hvF a
  obtain ⟨n2, r2, hD2, hr2, hf2, _⟩ := run_valid e u cvC hvC b
  have e1 := fuel_mono' e u cvF r1 11 53 a hf1
  have e2 := fuel_mono' e u cvC r2 11 53 b hf2
  unfold safeName defaultFuel at hf hcn
  rw [e1] at hf
  rw [e2] at hcn
  cases hf
  cases hcn
  have h1 := (applyCase_head u cvF.case n1 rf hD1.2 hr1).2 hF
  have h2 := (applyCase_head u cvC.case n2 rc hD2.2 hr2).1 hC
  intro heq
  subst heq
  cases rf with
  | nil => simp [headLower] at h1
  | cons c t => exact upper_lower_disjoint c h2 h1

theorem default_pair_separates : startsLower fieldConv.case = true ∧ startsUpper classConv.case = true := by
  decide

/-- the finding, in the model: with class names in snakeCase (or field names in pascalCase, or
both in originalCase, ...) the element `b` gives field `b` and inner class `b` -/
theorem field_named_like_inner_class :
    safeName Env.ascii UEnv.ascii fieldConv ['b'] = safeName Env.ascii UEnv.ascii ⟨.snake, classConv.pfx⟩ ['b'] ∧
    safeName Env.ascii UEnv.ascii ⟨.pascal, fieldConv.pfx⟩ ['b'] = safeName Env.ascii UEnv.ascii classConv ['b'] ∧
    safeName Env.ascii UEnv.ascii ⟨.original, fieldConv.pfx⟩ ['b'] =
      safeName Env.ascii UEnv.ascii ⟨.original, classConv.pfx⟩ ['b'] := by
  decide +kernel


/-! ## wrapper fields (round c07f)

`CreateWrapperFields` replaces an element whose class holds exactly one element by that inner
element: the field takes the inner element's NAME, which a sibling may already have. -/

/-- **after `CreateWrapperFields` the fields of the class have pairwise different slugs whenever
anything was wrapped** — for every class, every set of wrapped attrs and every kind of source class
(inner or root-level: the model has no such distinction because the code must not make one). -/
theorem wrapper_fields_slugs_distinct (cands : List (Attr × Option Attr))
    (h : anyWrapped cands = true) :
    ((createWrapperFields true cands).map Attr.slug).Nodup := by
  unfold createWrapperFields
  simp only [h, Bool.and_self, if_true]
  exact rename_nodup _

/-- nothing wrapped, or option off: the attrs are untouched -/
theorem wrapper_fields_noop (enabled : Bool) (cands : List (Attr × Option Attr))
    (h : enabled = false ∨ anyWrapped cands = false) :
    createWrapperFields enabled cands = cands.map (·.1) := by
  unfold createWrapperFields
  rcases h with h | h <;> simp [h]

/-- the seeded shape: `<items type=ItemsType>(item+)` next to `<item>`: the wrapped field `item`
and the sibling `item` are told apart -/
example : (createWrapperFields true
      [(⟨Tables.tagElement, "items".toList, none⟩, some ⟨Tables.tagElement, "item".toList, none⟩),
       (⟨Tables.tagElement, "item".toList, none⟩, none)]).map (·.name) =
    ["item_Element".toList, "item".toList] := by decide +kernel

/-! ## keywords

"Keyword" = hard keyword: `keyword.kwlist` of the interpreter that runs xsdata (extracted into
`Tables.kwlist`). The soft keywords (`match`, `case`, `type`, `_`; `Tables.softkwlist`) are
ordinary identifiers everywhere a class, field, module or package name is written, so they are
outside the property (`soft_keywords_are_identifiers`). -/

def NeverKeyword (e : Env) (u : UEnv) (cv : Conv) : Prop :=
  ∀ name r, safeName e u cv name = .ok r → Tables.kwlist.contains r = false

/-- **table fact the keyword theorem rests on**: every hard keyword of the running interpreter
is listed in `text.stop_words`. Re-checked against the regenerated tables on every run: drop a
keyword from `stop_words` (or run under an interpreter with a new keyword) and this breaks. -/
theorem kwlist_subset_stop_words :
    Tables.kwlist.all (fun k => Tables.stopWords.contains k) = true := by decide +kernel

/-- **safe_name never returns a Python keyword** — every naming case, every accepted prefix,
every name (all of Unicode), every Unicode environment. -/
theorem safe_name_never_keyword (e : Env) (u : UEnv) (cv : Conv) (hv : validPrefix cv.pfx = true) :
    NeverKeyword e u cv := by
  intro name r h
  have hnr := safe_name_not_reserved e u cv hv name r h
  cases hk : Tables.kwlist.contains r
  · rfl
  · exfalso
    have hmem : r ∈ Tables.kwlist := by simpa using hk
    have := (List.all_eq_true.1 kwlist_subset_stop_words) r hmem
    unfold isReserved at hnr
    rw [hnr] at this
    cases this

example : validPrefix fieldConv.pfx = true ∧
    safeName Env.ascii UEnv.ascii fieldConv "await".toList = .ok "await_value".toList ∧
    safeName Env.ascii UEnv.ascii moduleConv "lambda".toList = .ok "lambda_mod".toList := by
  decide +kernel

/-- soft keywords are valid identifiers (for every Unicode environment they are ASCII), which is
why the property does not ask for them to be avoided -/
theorem soft_keywords_are_identifiers (u : UEnv) :
    Tables.softkwlist.all (fun k => u.isIdentifier k) = true := by
  have h : Tables.softkwlist.all (fun k => headAlphaOrUnderscore k && okChars k) = true := by
    decide +kernel
  rw [List.all_eq_true] at h ⊢
  intro k hk
  have := h k hk
  simp only [Bool.and_eq_true] at this
  exact isIdentifier_of_shape' u k this.1 this.2

/-! ## de-duplication by slug -/

/-- **the slug survives every word-splitting case**, so two names with different slugs keep
different names under any convention — as long as `safe_name` does not rewrite them. -/
theorem slug_invariant (u : UEnv) (c : NameCase) (hc : c ≠ .original) (v r : Str)
    (h : applyCase u c v = some r) : alnum r = alnum v := alnum_applyCase u c hc v r h

/-- names that go through `safe_name` unchanged ("plain": first step returns) stay distinct
when their slugs are distinct. -/
theorem plain_names_distinct (e : Env) (u : UEnv) (cv : Conv) (hc : cv.case ≠ .original)
    (n1 n2 r1 r2 : Str) (h1 : safeNameStep e u cv n1 = .done r1) (h2 : safeNameStep e u cv n2 = .done r2)
    (hs : alnum n1 ≠ alnum n2) : r1 ≠ r2 := by
  have key : ∀ n r, safeNameStep e u cv n = .done r → alnum r = alnum n := by
    intro n r h
    unfold safeNameStep at h
    split at h
    · cases h
    · split at h
      · cases h
      · simp only [] at h
        split at h
        · cases h
        · split at h
          · cases h
          · split at h
            · cases h
            · rename_i r' hr
              split at h
              · cases h
              · cases h; exact alnum_applyCase u cv.case hc n r hr
  intro heq
  apply hs
  rw [← key n1 r1 h1, ← key n2 r2 h2, heq]

example : safeNameStep Env.ascii UEnv.ascii fieldConv "fooBar".toList = .done "foo_bar".toList ∧
    safeNameStep Env.ascii UEnv.ascii fieldConv "foo-baz".toList = .done "foo_baz".toList ∧
    alnum "fooBar".toList ≠ alnum "foo-baz".toList := by decide +kernel

/-- … but the rewriting does collide: the slugs of `1` and `value_1` differ, the handlers see
no duplicate, and both enumeration members are named `VALUE_1`; likewise `class`/`class_value`. -/
def SafeNamesInjectiveOnSlugs (e : Env) (u : UEnv) (cv : Conv) : Prop :=
  ∀ n1 n2 r1 r2, safeName e u cv n1 = .ok r1 → safeName e u cv n2 = .ok r2 →
    alnum n1 ≠ alnum n2 → r1 ≠ r2

theorem safe_prefix_collision_constants : ¬ SafeNamesInjectiveOnSlugs Env.ascii UEnv.ascii constantConv := by
  intro h
  exact h "1".toList "value_1".toList "VALUE_1".toList "VALUE_1".toList
    (by decide +kernel) (by decide +kernel) (by decide +kernel) rfl

theorem safe_prefix_collision_fields : ¬ SafeNamesInjectiveOnSlugs Env.ascii UEnv.ascii fieldConv := by
  intro h
  exact h "class".toList "class_value".toList "class_value".toList "class_value".toList
    (by decide +kernel) (by decide +kernel) (by decide +kernel) rfl

theorem safe_prefix_collision_classes : ¬ SafeNamesInjectiveOnSlugs Env.ascii UEnv.ascii classConv := by
  intro h
  exact h "None".toList "NoneType".toList "NoneType".toList "NoneType".toList
    (by decide +kernel) (by decide +kernel) (by decide +kernel) rfl

/-! ## the "next free index" loops -/

/-- `ClassUtils.unique_name` always terminates (the model's fuel `|reserved|+1` is never
exhausted) and the slug of its result is not reserved — for every name and reserved set. -/
theorem unique_name_fresh (name : Str) (R : List Str) :
    ∃ n, uniqueName name R = some n ∧ R.contains (alnum n) = false := uniqueName_fresh name R

/-- `RenameDuplicateClasses.next_qname` terminates with an index `k ≥ 1` whose comparison key
(`alnum` of the new name, or of the new qname) is not reserved. -/
theorem next_qname_fresh (useNames : Bool) (ns : Option Str) (name : Str) (R : List Str) :
    ∃ k, 1 ≤ k ∧ nextQName useNames ns name R = some (buildQName ns (indexed name k)) ∧
      R.contains (alnum (if useNames then indexed name k else buildQName ns (indexed name k))) = false := by
  obtain ⟨k, hk, h1, hfree⟩ := nextQNameIdx_spec useNames ns name R 1
  exact ⟨k, h1, by simp [nextQName, hk], hfree⟩

/-- `DisambiguateChoices.next_available_name` terminates with a name whose slug differs from
the slug of every existing inner class. -/
theorem next_available_name_fresh (name : Str) (inner : List Str) :
    ∃ n, nextAvailableName name inner = some n ∧ (inner.map alnum).contains (alnum n) = false := by
  unfold nextAvailableName
  simp only []
  cases hc : (inner.map alnum).contains (alnum name)
  · exact ⟨name, by simp, hc⟩
  · obtain ⟨k, hk, _, hfree⟩ := firstFree_spec name (inner.map alnum) 1
    refine ⟨indexed name k, ?_, hfree⟩
    simp only [if_true]
    rw [show (inner.map alnum).length + 1 = (List.map alnum inner).length + 1 from rfl, hk]
    rfl

/-! ## rename_duplicate_attributes / RenameDuplicateClasses -/

/-- what `RenameDuplicateAttributes` is for: afterwards no two attrs share a slug -/
def SlugsDistinctAfterRename : Prop :=
  ∀ attrs : List Attr, ((renameDuplicateAttrs attrs).map Attr.slug).Nodup

/-- **full strength** (since the name picked "by preference" is re-checked): for *every* attr
list all slugs are pairwise different afterwards — invariant over the groups in processing
order; every renamed attr receives a slug no other attr has at that moment. -/
theorem slugs_distinct_after_rename : SlugsDistinctAfterRename := rename_nodup

def attrsPref : List Attr :=
  [⟨"Element".toList, "a".toList, none⟩, ⟨"Attribute".toList, "a".toList, none⟩,
   ⟨"Element".toList, "a_Attribute".toList, none⟩]

/-- the former witnesses: `a`, `a`(Attribute), `a_Attribute` and the namespace `http://www` -/
example : (renameDuplicateAttrs attrsPref).map (·.name) =
      ["a".toList, "a_Attribute_1".toList, "a_Attribute".toList] ∧
    (renameDuplicateAttrs [⟨"Element".toList, "a".toList, none⟩,
        ⟨"Element".toList, "a".toList, some "http://www".toList⟩]).map (·.name) =
      ["a".toList, "_a_1".toList] := by decide +kernel

/-- … and then the generated field names are pairwise different too, provided every renamed
name passes `safe_name` unchanged (word-splitting cases). The hypothesis is what
C07-safe-prefix-collision (still open) is about. -/
theorem field_names_distinct_partial (e : Env) (u : UEnv) (cv : Conv) (hc : cv.case ≠ .original)
    (attrs : List Attr)
    (hplain : ∀ a ∈ renameDuplicateAttrs attrs, ∃ r, safeNameStep e u cv a.name = .done r) :
    ((renameDuplicateAttrs attrs).map (fun a => safeNameStep e u cv a.name)).Nodup := by
  have hs := rename_nodup attrs
  rw [List.Nodup, List.pairwise_map] at hs ⊢
  apply hs.imp_of_mem
  intro a b ha hb hne heq
  obtain ⟨r1, h1⟩ := hplain a ha
  obtain ⟨r2, h2⟩ := hplain b hb
  rw [h1, h2] at heq
  cases heq
  exact plain_names_distinct e u cv hc a.name b.name r1 r1 h1 h2 hne rfl

example : (renameDuplicateAttrs attrsPref).map (fun a => safeNameStep Env.ascii UEnv.ascii fieldConv a.name) =
    [.done "a".toList, .done "a_attribute_1".toList, .done "a_attribute".toList] := by decide +kernel

/-- **`add_abstract_suffix` consults the reserved names**: in both branches (the `_abstract`
suffix, or the numeric fallback when that key is taken) the key it records was not reserved
before, and the reserved set grows by exactly that key. -/
theorem abstract_suffix_fresh (useNames : Bool) (st : RState) (i : Nat) (c : Cls)
    (hc : st.cur[i]? = some c) :
    ∃ k, (addAbstractSuffix useNames st i c).reserved = k :: builtReserved useNames st ∧
      (builtReserved useNames st).contains k = false := by
  have hb : builtReserved useNames { st with reserved := builtReserved useNames st } =
      builtReserved useNames st := by
    unfold builtReserved
    by_cases h0 : st.reserved.isEmpty = true
    · simp only [h0, if_true]
      cases hm : st.cur.map (fun c => alnum (getter useNames c)) with
      | nil => simp
      | cons a t => simp
    · simp [h0]
  unfold addAbstractSuffix
  generalize c.qname ++ "_abstract".toList = newq
  simp only []
  by_cases hcon : (builtReserved useNames st).contains
      (alnum (if useNames = true then (splitQName newq).2 else newq)) = true
  · -- numeric fallback
    rw [if_pos hcon]
    unfold addNumericSuffix
    simp only [hc, hb]
    obtain ⟨k, hk, _, hfree⟩ := nextQNameIdx_spec useNames (splitQName c.qname).1 (splitQName c.qname).2
      (builtReserved useNames st) 1
    simp only [hk]
    exact ⟨_, rfl, hfree⟩
  · rw [if_neg hcon]
    exact ⟨_, rfl, by simpa using hcon⟩

/-- both branches on concrete containers: `a` (abstract element) next to `A` takes `_abstract`; with a
class `a_abstract` already present that key is reserved and the numeric suffix is used instead -/
example :
    let a : Cls := ⟨"a".toList, true, true, "l".toList⟩
    let cA : Cls := ⟨"A".toList, false, false, "l".toList⟩
    let st1 : RState := ⟨[a, cA], []⟩
    let st2 : RState := ⟨[a, cA, ⟨"a_abstract".toList, false, false, "l".toList⟩], []⟩
    st1.cur[0]? = some a ∧ st2.cur[0]? = some a ∧
    (addAbstractSuffix true st1 0 a).cur.map (·.qname) = ["a_abstract".toList, "A".toList] ∧
    (addAbstractSuffix true st2 0 a).cur.map (·.qname) = ["a_1".toList, "A".toList, "a_abstract".toList] := by
  decide +kernel

/-- `RenameDuplicateClasses.should_use_names` -/
def useNamesOf (style : Str) (cs : List Cls) : Bool :=
  Tables.requireUniqueNames.contains style || ((cs.map (·.location)).eraseDups.length == 1)

/-- what `RenameDuplicateClasses` is for: afterwards no two classes share a comparison key
(`alnum` of the name, or of the qualified name when names need not be unique) -/
def ClassKeysDistinctAfterRename : Prop :=
  ∀ (style : Str) (cs : List Cls), (∀ c ∈ cs, wfQ c.qname = true) →
    ((renameClasses style cs).map
      (fun q => alnum (if useNamesOf style cs then (splitQName q).2 else q))).Nodup

/-- **full strength** (since `add_abstract_suffix` consults the reserved names): for every
structure style and every list of classes with well-formed qualified names (`{ns}name` with
non-empty parts, or a name not starting with `{`), all comparison keys are pairwise different
afterwards. Invariant: the reserved set contains every current key once it is built, every
rename picks a key outside it, and at most one class per group keeps its key. -/
theorem class_keys_distinct_after_rename : ClassKeysDistinctAfterRename := by
  intro style cs hwf
  have h := renameClasses_nodup_aux (useNamesOf style cs) cs hwf
  simp only [] at h
  unfold renameClasses
  simp only [List.map_map]
  have hf : ((fun q => alnum (if useNamesOf style cs = true then (splitQName q).2 else q)) ∘ fun c : Cls => c.qname) =
      K (useNamesOf style cs) := by
    funext c
    simp only [Function.comp, K, getter, Cls.name]
  rw [hf]
  exact h

example : (∀ c ∈ [(⟨"{urn:x}a".toList, true, true, "l1".toList⟩ : Cls), ⟨"{urn:x}A".toList, false, false, "l2".toList⟩,
      ⟨"a_abstract".toList, false, false, "l1".toList⟩], wfQ c.qname = true) ∧
    wfQ "{ns}".toList = false ∧ wfQ "{}a".toList = false := by decide +kernel

/-- the former witness: `a` (abstract element), `A`, `a_abstract` now end with three different keys -/
example : renameClasses "filenames".toList
    [⟨"a".toList, true, true, "l".toList⟩, ⟨"A".toList, false, false, "l".toList⟩,
     ⟨"a_abstract".toList, false, false, "l".toList⟩] =
    ["a_1".toList, "A".toList, "a_abstract".toList] := by decide +kernel

end Props.C07
