"""More sections for Tables.lean. Each function gets the line writer `w`."""
import extract_tables as T
from extract_tables import chars, extra, lean_bool, nats, strs  # noqa: F401


# ---------------------------------------------------------------- C14 / C19
@extra
def ctx_tables(w):
    """Constants the binding context / qname helpers consult."""
    from xsdata.models import enums
    from xsdata.utils import namespaces

    w("-- C14/C19: xsdata/models/enums.py NamespaceType, DataType qname index; utils/namespaces.py lru sizes")
    w(f"def nsAny : List Char := {chars(enums.NamespaceType.ANY_NS)}")
    w(f"def nsOther : List Char := {chars(enums.NamespaceType.OTHER_NS)}")
    w(f"def nsLocal : List Char := {chars(enums.NamespaceType.LOCAL_NS)}")
    w(f"def nsTarget : List Char := {chars(enums.NamespaceType.TARGET_NS)}")
    w(f"def dataTypeQNames : List (List Char) := {strs(list(enums.__DataTypeQNameIndex__))}")
    w(f"def lruMaxBuildQName : Nat := {int(namespaces.build_qname.cache_parameters()['maxsize'])}")
    w(f"def lruMaxSplitQName : Nat := {int(namespaces.split_qname.cache_parameters()['maxsize'])}")
    w("")
