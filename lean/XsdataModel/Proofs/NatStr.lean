/- `str(n)` (Py.natStr): digits only, injective. -/
import XsdataModel.Py.Basic

namespace Py

def isDigitChar (c : Char) : Bool := 48 ≤ c.toNat && c.toNat ≤ 57

/-- value of a digit string (most significant first) -/
def valOf (s : List Char) : Nat := s.foldl (fun acc c => acc * 10 + (c.toNat - 48)) 0

theorem digitChar_toNat (d : Nat) (h : d < 10) : (Char.ofNat (48 + d)).toNat = 48 + d := by
  have : d = 0 ∨ d = 1 ∨ d = 2 ∨ d = 3 ∨ d = 4 ∨ d = 5 ∨ d = 6 ∨ d = 7 ∨ d = 8 ∨ d = 9 := by omega
  rcases this with rfl | rfl | rfl | rfl | rfl | rfl | rfl | rfl | rfl | rfl <;> decide

theorem natDigitsAux_acc (fuel : Nat) : ∀ (n : Nat) (acc : List Char),
    natDigitsAux fuel n acc = natDigitsAux fuel n [] ++ acc := by
  induction fuel with
  | zero => intro n acc; simp [natDigitsAux]
  | succ f ih =>
    intro n acc
    simp only [natDigitsAux]
    by_cases h : n / 10 = 0
    · simp [h]
    · simp only [h, if_false]
      rw [ih (n / 10) (Char.ofNat (48 + n % 10) :: acc), ih (n / 10) [Char.ofNat (48 + n % 10)]]
      simp

theorem valOf_snoc (x : List Char) (c : Char) : valOf (x ++ [c]) = valOf x * 10 + (c.toNat - 48) := by
  simp [valOf, List.foldl_append]

theorem valOf_natDigitsAux (fuel : Nat) : ∀ n, n < 10 ^ fuel → valOf (natDigitsAux fuel n []) = n := by
  induction fuel with
  | zero => intro n h; simp at h; subst h; simp [natDigitsAux, valOf]
  | succ f ih =>
    intro n h
    simp only [natDigitsAux]
    have hd := digitChar_toNat (n % 10) (Nat.mod_lt _ (by decide))
    by_cases h0 : n / 10 = 0
    · simp only [h0, if_true]
      simp [valOf, hd]
      omega
    · simp only [h0, if_false]
      rw [natDigitsAux_acc, valOf_snoc, hd]
      have : n / 10 < 10 ^ f := by
        rw [Nat.pow_succ] at h
        omega
      rw [ih _ this]
      omega

theorem lt_ten_pow (n : Nat) : n < 10 ^ (n + 1) := by
  have h1 : n < 10 ^ n := Nat.lt_pow_self (by decide)
  have h2 : 10 ^ n ≤ 10 ^ (n + 1) := Nat.pow_le_pow_right (by decide) (by omega)
  omega

theorem valOf_natStr (n : Nat) : valOf (natStr n) = n := by
  unfold natStr
  exact valOf_natDigitsAux (n + 1) n (lt_ten_pow n)

theorem natStr_injective (a b : Nat) (h : natStr a = natStr b) : a = b := by
  have := congrArg valOf h
  simpa [valOf_natStr] using this

theorem natDigitsAux_digits (fuel : Nat) : ∀ (n : Nat) (acc : List Char),
    (∀ c ∈ acc, isDigitChar c = true) → ∀ c ∈ natDigitsAux fuel n acc, isDigitChar c = true := by
  induction fuel with
  | zero => intro n acc h; simpa [natDigitsAux] using h
  | succ f ih =>
    intro n acc h
    simp only [natDigitsAux]
    have hd := digitChar_toNat (n % 10) (Nat.mod_lt _ (by decide))
    have hc : isDigitChar (Char.ofNat (48 + n % 10)) = true := by
      simp [isDigitChar, hd]; omega
    have h' : ∀ c ∈ Char.ofNat (48 + n % 10) :: acc, isDigitChar c = true := by
      intro c hc'
      rcases List.mem_cons.mp hc' with rfl | hm
      · exact hc
      · exact h c hm
    by_cases h0 : n / 10 = 0
    · simpa [h0] using h'
    · simp only [h0, if_false]
      exact ih _ _ h'

theorem natStr_digits (n : Nat) : ∀ c ∈ natStr n, isDigitChar c = true := by
  unfold natStr
  exact natDigitsAux_digits _ _ _ (by simp)

theorem natStr_ne_nil (n : Nat) : natStr n ≠ [] := by
  unfold natStr
  simp only [natDigitsAux]
  by_cases h0 : n / 10 = 0
  · simp [h0]
  · simp only [h0, if_false]
    rw [natDigitsAux_acc]
    simp

end Py
