/- helper lemmas for Props/C10Dict -/
import XsdataModel.DictDec.Keys
import XsdataModel.Proofs.C10

namespace Proofs.C10Dict
open Py Xs.Bind Xs.DictDec

theorem keySetEq_insert_false {k : Str} {derived : List Str} (v : JShape) (pre post : List (Str × JShape))
    (hd : derived.contains k = false) :
    keySetEq ((pre ++ (k, v) :: post).map (·.1)) derived = false := by
  have hk : k ∉ derived := by simpa using hd
  have : ((pre ++ (k, v) :: post).map (·.1)).all (derived.contains ·) = false := by
    rw [List.all_eq_false]; exact ⟨k, by simp, by simpa using hk⟩
  unfold keySetEq
  rw [this, Bool.false_and]

/-- a candidate that declares the keys and whose attempt succeeds makes the ranking succeed -/
theorem foldl_bestStep_isSome (ks : List Str) :
    ∀ (cands : List Cand) (acc : Option (ClassId × Nat)),
      (acc.isSome || cands.any (fun c => localNamesMatch ks c.localNames && c.attempt.isSome)) = true →
      (cands.foldl (bestStep ks) acc).isSome = true := by
  intro cands
  induction cands with
  | nil => intro acc h; simpa using h
  | cons c cs ih =>
    intro acc h
    rw [List.foldl_cons]
    apply ih
    simp only [List.any_cons, Bool.or_eq_true, Bool.and_eq_true] at h ⊢
    rcases h with h | ⟨hm, ha⟩ | h
    · left
      cases acc with
      | none => simp at h
      | some p =>
        obtain ⟨i, b⟩ := p
        unfold bestStep
        split
        · cases c.attempt with
          | none => rfl
          | some sc => simp only; split <;> rfl
        · rfl
    · left
      cases hatt : c.attempt with
      | none => simp [hatt] at ha
      | some sc =>
        cases acc with
        | none => simp [bestStep, hm, hatt]
        | some p => obtain ⟨i, b⟩ := p; simp only [bestStep, hm, hatt, if_true]; split <;> rfl
    · right; simpa [Bool.and_eq_true] using h

theorem bestStep_congr {keys keys' : List Str} {c : Cand}
    (h : localNamesMatch keys c.localNames = localNamesMatch keys' c.localNames) (acc : Option (ClassId × Nat)) :
    bestStep keys acc c = bestStep keys' acc c := by
  simp [bestStep, h]

theorem foldl_bestStep_congr {keys keys' : List Str} :
    ∀ (cands : List Cand), (∀ c ∈ cands, localNamesMatch keys c.localNames = localNamesMatch keys' c.localNames) →
      ∀ acc, cands.foldl (bestStep keys) acc = cands.foldl (bestStep keys') acc := by
  intro cands
  induction cands with
  | nil => intro _ acc; rfl
  | cons c cs ih =>
    intro h acc
    rw [List.foldl_cons, List.foldl_cons, bestStep_congr (h c (List.mem_cons_self ..))]
    exact ih (fun c' h' => h c' (List.mem_cons_of_mem _ h')) _

/-! ### single branches of `workStep` / `candidateConfig` (unfoldings) -/

/-- the candidates are tried with conversions strict and the two other flags as given -/
theorem candidate_config_spec (cfg : ParserConfig) :
    (candidateConfig cfg).failOnConverterWarnings = true
    ∧ (candidateConfig cfg).failOnUnknownProperties = cfg.failOnUnknownProperties
    ∧ (candidateConfig cfg).failOnUnknownAttributes = cfg.failOnUnknownAttributes := ⟨rfl, rfl, rfl⟩

/-- (formerly known finding `C10-dict-best-strict-conversion`, repaired):
with `fail_on_converter_warnings` off, when no candidate binds under the strict copy the
candidates are ranked under the caller's own configuration; with the flag on the strict failure stands. -/
theorem best_lenient_fallback (cfg : ParserConfig) (keys : List Str) (cands : List CandC)
    {err : Err} (hs : bindBest cfg keys (cands.map (·.under (candidateConfig cfg))) = .error err) :
    (workStep cfg (.best keys cands)).1 =
      if cfg.failOnConverterWarnings then .error err
      else (match bindBest cfg keys (cands.map (·.under cfg)) with
        | .ok c => .ok (.chose c)
        | .error e => .error e) := by
  simp only [workStep, hs]
  split <;> rfl

/-- a strict success is final: the lenient attempts are not consulted -/
theorem best_strict_first (cfg : ParserConfig) (keys : List Str) (cands : List CandC)
    {c : ClassId} (hs : bindBest cfg keys (cands.map (·.under (candidateConfig cfg))) = .ok c) :
    (workStep cfg (.best keys cands)).1 = .ok (.chose c) := by
  simp only [workStep, hs]

end Proofs.C10Dict
