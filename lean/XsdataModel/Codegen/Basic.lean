/-
L7 (code generator) — primitives shared by the order-sensitive steps of
`xsdata.codegen`: Python string ordering, `sorted`, de-duplication ("set"
contents as lists in an *explicit* iteration order), dict look-up.

A Python `set`/`dict` is modelled as a `List` whose order is the iteration
order the interpreter happens to use.  Every theorem of C12 quantifies over
that order.
-/
import XsdataModel.Py.Basic

namespace Xs.Codegen
open Py

/-- `a <= b` on Python `str`: lexicographic by code point (a proper prefix is smaller). -/
def strLe (a b : Str) : Bool := decide (a ≤ b)

/-- `sorted(xs)` for a collection of `str` -/
def pySorted (xs : List Str) : List Str := xs.mergeSort strLe

/-- `sorted(xs, key=key)` (stable, like CPython's) for a `str`-valued key -/
def pySortedBy {α} (key : α → Str) (xs : List α) : List α :=
  xs.mergeSort (fun a b => strLe (key a) (key b))

/-- `sorted(xs, key=key)` for a numeric key -/
def pySortedByNat {α} (key : α → Nat) (xs : List α) : List α :=
  xs.mergeSort (fun a b => decide (key a ≤ key b))

/-- keep the first occurrence of every element (contents of `set(xs)` in first-seen order) -/
def dedup : List Str → List Str
  | [] => []
  | x :: xs => x :: (dedup xs).filter (· != x)

/-- `d.get(k)` on a dict given as association list (first binding wins; keys are unique in a dict) -/
def dget {β} (d : List (Str × β)) (k : Str) : Option β := List.lookup k d

/-- `k in d` -/
def dhas {β} (d : List (Str × β)) (k : Str) : Bool := (dget d k).isSome

/-- `d[k].append(x)` on a `defaultdict(list)` kept in insertion order -/
def groupInsert {α κ} [BEq κ] (k : κ) (x : α) : List (κ × List α) → List (κ × List α)
  | [] => [(k, [x])]
  | (k', xs) :: rest =>
    if k' == k then (k', xs ++ [x]) :: rest else (k', xs) :: groupInsert k x rest

/-- `collections.group_by(items, key)`: a dict key ↦ items, keys in first-seen
order, items in input order. -/
def groupBy {α κ} [BEq κ] (key : α → κ) (xs : List α) : List (κ × List α) :=
  xs.foldl (fun acc x => groupInsert (key x) x acc) []

end Xs.Codegen
