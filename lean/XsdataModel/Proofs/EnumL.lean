/- Helper lemmas for EnumConverter: `str.split()` on a token, first-match search. -/
import XsdataModel.Conv.Factory
import XsdataModel.Proofs.IntL

namespace Xs.Conv
open Py

theorem splitWsAux_nospace (e : Env) (s cur : Str) (h : ∀ c ∈ s, e.isSpace c = false)
    (hne : s ≠ [] ∨ cur ≠ []) : splitWsAux e s cur = [cur.reverse ++ s] := by
  induction s generalizing cur with
  | nil =>
    rcases hne with h0 | h0
    · exact absurd rfl h0
    · cases cur with
      | nil => exact absurd rfl h0
      | cons x xs => simp [splitWsAux]
  | cons c cs ih =>
    have hc : e.isSpace c = false := h c (by simp)
    unfold splitWsAux
    simp only [hc, Bool.false_eq_true, if_false]
    rw [ih (c :: cur) (fun d hd => h d (by simp [hd])) (Or.inr (by simp))]
    simp

/-- `s.split()` of a non-empty string without white space is `[s]` -/
theorem splitWs_token (e : Env) (s : Str) (hne : s ≠ []) (h : ∀ c ∈ s, e.isSpace c = false) :
    splitWs e s = [s] := by
  unfold splitWs
  rw [splitWsAux_nospace e s [] h (Or.inl hne)]
  simp

theorem intStr_nospace (e : Env) (i : Int) : ∀ c ∈ intStr i, e.isSpace c = false := by
  obtain ⟨hd, _, _⟩ := natStr_spec i.natAbs
  intro c hc
  unfold intStr at hc
  split at hc
  · rcases List.mem_cons.mp hc with rfl | hm
    · rw [isSpace_ascii e _ (by decide)]; decide
    · exact digit_not_space e c (hd c hm)
  · exact digit_not_space e c (hd c hc)

theorem intStr_ne_nil (i : Int) : intStr i ≠ [] := by
  obtain ⟨_, hne, _⟩ := natStr_spec i.natAbs
  unfold intStr
  split
  · simp
  · exact hne

theorem intStr_strip (e : Env) (i : Int) : e.strip (intStr i) = intStr i := by
  rw [strip_eq_stripBy]
  exact stripBy_tight _ _ (digits_tight _ _ (intStr_ne_nil i) (intStr_nospace e i))

end Xs.Conv
