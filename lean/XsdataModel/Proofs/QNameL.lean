/- Helper lemmas for the QName converter: association lists, `text.split`, NCNames. -/
import XsdataModel.Conv.QName
import XsdataModel.Proofs.Digits
import XsdataModel.Spec.Xsd

namespace Xs.Conv
open Py

/-! ### prefix maps -/

/-- a Python dict has unique keys -/
def KeysNodup (m : NsMap) : Prop := (m.map (·.1)).Nodup

theorem get_of_mem (m : NsMap) (p : Option Str) (u : Str) (hk : KeysNodup m) (h : (p, u) ∈ m) :
    m.get p = some u := by
  induction m with
  | nil => cases h
  | cons kv rest ih =>
    obtain ⟨k, v⟩ := kv
    unfold KeysNodup at hk
    simp only [List.map_cons, List.nodup_cons] at hk
    unfold NsMap.get
    rcases List.mem_cons.mp h with heq | hmem
    · injection heq with h1 h2
      subst h1; subst h2
      simp
    · have hne : k ≠ p := by
        intro hkp
        subst hkp
        exact hk.1 (List.mem_map.mpr ⟨(k, u), hmem, rfl⟩)
      simp only [hne, if_false]
      exact ih hk.2 hmem

theorem get_set_same (m : NsMap) (k : Option Str) (v : Str) : (m.set k v).get k = some v := by
  induction m with
  | nil => simp [NsMap.set, NsMap.get]
  | cons kv rest ih =>
    obtain ⟨k', v'⟩ := kv
    unfold NsMap.set
    by_cases h : k' = k
    · simp [h, NsMap.get]
    · simp [h, NsMap.get, ih]

theorem set_ne_nil (m : NsMap) (k : Option Str) (v : Str) : (m.set k v).isEmpty = false := by
  cases m with
  | nil => simp [NsMap.set]
  | cons kv rest =>
    obtain ⟨k', v'⟩ := kv
    unfold NsMap.set
    split <;> simp

theorem find_mem (m : NsMap) (u : Str) (p : Option Str) (v : Str)
    (h : m.find? (·.2 = u) = some (p, v)) : (p, u) ∈ m := by
  have h1 := List.find?_some h
  have h2 := List.mem_of_find?_eq_some h
  simp at h1
  subst h1
  exact h2

/-! ### `text.split` -/

theorem partitionChar_absent (c : Char) (s : Str) (h : c ∉ s) : partitionChar c s = (s, false, []) := by
  induction s with
  | nil => rfl
  | cons x xs ih =>
    have hx : x ≠ c := by intro hx; subst hx; exact h (by simp)
    have hxs : c ∉ xs := fun hm => h (by simp [hm])
    simp [partitionChar, hx, ih hxs]

theorem partitionChar_at (c : Char) (a b : Str) (h : c ∉ a) :
    partitionChar c (a ++ c :: b) = (a, true, b) := by
  induction a with
  | nil => simp [partitionChar]
  | cons x xs ih =>
    have hx : x ≠ c := by intro hx; subst hx; exact h (by simp)
    have hxs : c ∉ xs := fun hm => h (by simp [hm])
    simp [partitionChar, hx, ih hxs]

theorem textSplit_absent (c : Char) (s : Str) (h : c ∉ s) : textSplit s c = (none, s) := by
  simp [textSplit, partitionChar_absent c s h]

theorem textSplit_at (c : Char) (a b : Str) (h : c ∉ a) (hb : b ≠ []) :
    textSplit (a ++ c :: b) c = (some a, b) := by
  cases b with
  | nil => exact absurd rfl hb
  | cons y ys => simp [textSplit, partitionChar_at c a (y :: ys) h]

/-! ### NCNames -/

/-- characters `is_ncname` lets through -/
def ncChar (e : CEnv) (c : Char) : Bool :=
  e.isAlpha c || e.isDigit c || Tables.ncnamePunctuation.contains c.toNat || c = '_'

/-- the Unicode tables are consistent: no character `is_ncname` lets through is
white space for `str.strip()` (true of every Unicode version; checked on the
running interpreter by the harness at start-up) -/
def EnvOk (e : CEnv) : Prop := ∀ c, e.isSpace c = true → ncChar e c = false

theorem ncName_chars (e : CEnv) (name : Str) (h : isNcName e name = true) :
    name ≠ [] ∧ ∀ c ∈ name, ncChar e c = true := by
  cases name with
  | nil => simp [isNcName] at h
  | cons a r =>
    simp only [isNcName, Bool.and_eq_true, Bool.or_eq_true, decide_eq_true_eq, List.all_eq_true] at h
    refine ⟨by simp, ?_⟩
    intro c hc
    rcases List.mem_cons.mp hc with rfl | hm
    · rcases h.1 with h1 | h1
      · simp [ncChar, h1]
      · simp [ncChar, h1]
    · have := h.2 c hm
      simp only [ncChar, Bool.or_eq_true, decide_eq_true_eq]
      rcases this with (h1 | h1) | h1
      · exact Or.inl (Or.inl (Or.inl h1))
      · exact Or.inl (Or.inl (Or.inr h1))
      · exact Or.inl (Or.inr h1)

theorem ncName_head (e : CEnv) (name : Str) (h : isNcName e name = true) :
    ∃ a r, name = a :: r ∧ (e.isAlpha a = true ∨ a = '_') := by
  cases name with
  | nil => simp [isNcName] at h
  | cons a r =>
    simp only [isNcName, Bool.and_eq_true, Bool.or_eq_true, decide_eq_true_eq] at h
    exact ⟨a, r, rfl, h.1⟩

/-- an ASCII character that is not a letter, digit, `.`, `-`, `_` cannot occur in an NCName -/
theorem ncChar_ascii_false (e : CEnv) (c : Char) (hasc : isAscii c = true)
    (h1 : isAsciiAlpha c = false) (h2 : isAsciiDigit c = false)
    (h3 : ¬ c.toNat ∈ Tables.ncnamePunctuation) (h4 : (c = '_') = False) : ncChar e c = false := by
  simp [ncChar, CEnv.isAlpha, Env.isDigit, hasc, h1, h2, h3, h4]

theorem ncName_not_mem (e : CEnv) (name : Str) (h : isNcName e name = true) (c : Char)
    (hc : ncChar e c = false) : c ∉ name := by
  intro hm
  have := (ncName_chars e name h).2 c hm
  simp [hc] at this

theorem ncChar_not_space (e : CEnv) (hok : EnvOk e) (c : Char) (h : ncChar e c = true) :
    e.isSpace c = false := by
  cases hs : e.isSpace c with
  | false => rfl
  | true => rw [hok c hs] at h; cases h

/-! ### facts about NCNames used by the round trip -/

theorem colon_not_ncChar (e : CEnv) : ncChar e ':' = false :=
  ncChar_ascii_false e ':' (by decide) (by decide) (by decide) (by decide) (by decide)

theorem space_not_ncChar (e : CEnv) : ncChar e ' ' = false :=
  ncChar_ascii_false e ' ' (by decide) (by decide) (by decide) (by decide) (by decide)

theorem brace_not_ncChar (e : CEnv) : ncChar e '{' = false :=
  ncChar_ascii_false e '{' (by decide) (by decide) (by decide) (by decide) (by decide)

theorem ncName_tight (e : CEnv) (hok : EnvOk e) (l : Str) (h : isNcName e l = true) :
    Tight e.isSpace l := by
  obtain ⟨hne, hall⟩ := ncName_chars e l h
  exact digits_tight' l hne (fun c hc => ncChar_not_space e hok c (hall c hc))
where
  digits_tight' (ds : Str) (hne : ds ≠ []) (hp : ∀ c ∈ ds, e.isSpace c = false) : Tight e.isSpace ds := by
    right
    constructor
    · cases ds with
      | nil => exact absurd rfl hne
      | cons a r => exact ⟨a, r, rfl, hp a (by simp)⟩
    · obtain ⟨r, z, h⟩ := exists_last ds hne
      exact ⟨r, z, h, hp z (by simp [h])⟩

/-- a prefix that can be written in front of `:local` and read back -/
def GoodPrefix (e : CEnv) (p : Str) : Prop :=
  ∃ a r, p = a :: r ∧ e.isSpace a = false ∧ a ≠ '{' ∧ ':' ∉ p

theorem ncName_goodPrefix (e : CEnv) (hok : EnvOk e) (p : Str) (h : isNcName e p = true) : GoodPrefix e p := by
  obtain ⟨hne, hall⟩ := ncName_chars e p h
  cases p with
  | nil => exact absurd rfl hne
  | cons a r =>
    refine ⟨a, r, rfl, ncChar_not_space e hok a (hall a (by simp)), ?_, ncName_not_mem e _ h ':' (colon_not_ncChar e)⟩
    intro ha
    have := hall a (by simp)
    rw [ha, brace_not_ncChar e] at this
    cases this

theorem splitQName_nobrace (a : Char) (r : Str) (h : a ≠ '{') : splitQName (a :: r) = (none, a :: r) := by
  unfold splitQName
  split
  · rename_i heq; injection heq with h1 _; exact absurd h1 h
  · rfl

theorem contains_false_of_not_mem (l : Str) (c : Char) (h : c ∉ l) : l.contains c = false := by
  simp [h]

/-- reading back a bare local name -/
theorem deser_bare (e : CEnv) (hok : EnvOk e) (l : Str) (m : NsMap) (h : isNcName e l = true) :
    qnameDeserialize e l (some m) =
      some (match (if m.isEmpty then none else m.get none) with
        | some u => if u.isEmpty then l else '{' :: u ++ '}' :: l
        | none => l) := by
  obtain ⟨a, r, rfl, ha⟩ := ncName_head e l h
  have hab : a ≠ '{' := by
    intro hx
    have := (ncName_chars e _ h).2 a (by simp)
    rw [hx, brace_not_ncChar e] at this; cases this
  have hstrip : e.strip (a :: r) = a :: r := by
    rw [strip_eq_stripBy]; exact stripBy_tight _ _ (ncName_tight e hok _ h)
  have hcolon : ':' ∉ a :: r := ncName_not_mem e _ h ':' (colon_not_ncChar e)
  have hspace : (a :: r).contains ' ' = false :=
    contains_false_of_not_mem _ _ (ncName_not_mem e _ h ' ' (space_not_ncChar e))
  unfold qnameDeserialize qnameResolve
  simp only [hstrip, hab, if_false, textSplit_absent ':' _ hcolon, Bool.false_and, hspace, h,
    Bool.not_true, Bool.or_self, Bool.false_eq_true]
  cases hm : (if m.isEmpty then none else m.get none) with
  | none => simp_all
  | some v =>
    simp_all
    split <;> rfl

/-- reading back `prefix:local` -/
theorem deser_prefixed (e : CEnv) (hok : EnvOk e) (p l u : Str) (m : NsMap)
    (hp : GoodPrefix e p) (hl : isNcName e l = true) (hu : u ≠ []) (hm : m.isEmpty = false)
    (hget : m.get (some p) = some u) :
    qnameDeserialize e (p ++ ':' :: l) (some m) = some ('{' :: u ++ '}' :: l) := by
  obtain ⟨a, r, rfl, hsp, hab, hcolon⟩ := hp
  obtain ⟨hlne, hlall⟩ := ncName_chars e l hl
  have htight : Tight e.isSpace ((a :: r) ++ ':' :: l) := by
    right
    refine ⟨⟨a, r ++ ':' :: l, rfl, hsp⟩, ?_⟩
    obtain ⟨r', z, hz⟩ := exists_last l hlne
    exact ⟨(a :: r) ++ ':' :: r', z, by simp [hz], ncChar_not_space e hok z (hlall z (by simp [hz]))⟩
  have hstrip : e.strip ((a :: r) ++ ':' :: l) = (a :: r) ++ ':' :: l := by
    rw [strip_eq_stripBy]; exact stripBy_tight _ _ htight
  have hspace : l.contains ' ' = false :=
    contains_false_of_not_mem _ _ (ncName_not_mem e _ hl ' ' (space_not_ncChar e))
  have huE : u.isEmpty = false := by cases u <;> simp_all
  unfold qnameDeserialize qnameResolve
  rw [hstrip]
  simp only [List.cons_append, hab, if_false]
  have hsplit := textSplit_at ':' (a :: r) l hcolon hlne
  simp only [List.cons_append] at hsplit
  simp only [hsplit, hm, hget, huE, hspace, hl]
  have hsp' : ¬ ' ' ∈ l := ncName_not_mem e _ hl ' ' (space_not_ncChar e)
  simp [hu, hsp', hl]

/-- surrounding XSD white space is irrelevant to `QNameConverter.deserialize` -/
theorem qnameDeserialize_pad (e : CEnv) (pre post s : Str) (m : Option NsMap)
    (hpre : AllXsdSpace pre) (hpost : AllXsdSpace post) (ht : Tight e.isSpace s) :
    qnameDeserialize e (pre ++ s ++ post) m = qnameDeserialize e s m := by
  have h1 : e.strip (pre ++ s ++ post) = s := strip_xsd_pad e.toEnv pre s post hpre hpost ht
  have h2 : e.strip s = s := by rw [strip_eq_stripBy]; exact stripBy_tight _ _ ht
  unfold qnameDeserialize qnameResolve
  rw [h1, h2]

theorem prefixed_tight (e : CEnv) (hok : EnvOk e) (p l : Str) (hp : GoodPrefix e p)
    (hl : isNcName e l = true) : Tight e.isSpace (p ++ ':' :: l) := by
  obtain ⟨a, r, rfl, hsp, _, _⟩ := hp
  obtain ⟨hlne, hlall⟩ := ncName_chars e l hl
  right
  refine ⟨⟨a, r ++ ':' :: l, rfl, hsp⟩, ?_⟩
  obtain ⟨r', z, hz⟩ := exists_last l hlne
  exact ⟨(a :: r) ++ ':' :: r', z, by simp [hz], ncChar_not_space e hok z (hlall z (by simp [hz]))⟩

/-! ### ASCII NCNames -/

/-- NCNames written with ASCII letters, digits, `.`, `-`, `_` (and the middle dot) -/
def isAsciiNcName (s : Str) : Bool :=
  match s with
  | [] => false
  | c :: cs =>
    (isAsciiAlpha c || c = '_') &&
    cs.all (fun ch => isAsciiAlpha ch || isAsciiDigit ch || ch = '.' || ch = '-' || ch = '_')

theorem punct_table :
    46 ∈ Tables.ncnamePunctuation ∧ 45 ∈ Tables.ncnamePunctuation ∧ 95 ∈ Tables.ncnamePunctuation ∧
    183 ∈ Tables.ncnamePunctuation := by decide

theorem asciiAlpha_isAscii (c : Char) (h : isAsciiAlpha c = true) : isAscii c = true := by
  simp [isAsciiAlpha, isAscii] at *
  omega

/-- `is_ncname` accepts every ASCII NCName, in every Unicode environment -/
theorem isNcName_of_ascii (e : CEnv) (s : Str) (h : isAsciiNcName s = true) : isNcName e s = true := by
  cases s with
  | nil => simp [isAsciiNcName] at h
  | cons c cs =>
    simp only [isAsciiNcName, Bool.and_eq_true, Bool.or_eq_true, decide_eq_true_eq, List.all_eq_true] at h
    simp only [isNcName, Bool.and_eq_true, Bool.or_eq_true, decide_eq_true_eq, List.all_eq_true]
    obtain ⟨p46, p45, p95, _⟩ := punct_table
    refine ⟨?_, ?_⟩
    · rcases h.1 with h1 | h1
      · left; simp [CEnv.isAlpha, asciiAlpha_isAscii c h1, h1]
      · right; exact h1
    · intro ch hch
      rcases h.2 ch hch with (((h1 | h1) | h1) | h1) | h1
      · left; left; simp [CEnv.isAlpha, asciiAlpha_isAscii ch h1, h1]
      · left; right; simp [Env.isDigit, digit_isAscii ch h1, h1]
      · right; subst h1; simpa using p46
      · right; subst h1; simpa using p45
      · right; subst h1; simpa using p95

/-! ### `is_uri` on RFC 2396 URI references -/

open Xs.Spec in
/-- every RFC 2396 URI character is in both character sets of the regex (tables
regenerated from the compiled `URI_REGEX`) -/
theorem rfc_table :
    rfcUriChars.all (fun c => Tables.uriBodyChars.contains c.toNat && Tables.uriFragmentChars.contains c.toNat
      && c != '#' && c != Char.ofNat 10) = true := by decide +kernel

open Xs.Spec in
theorem rfcUriChar_tables (c : Char) (h : rfcUriChar c = true) :
    Tables.uriBodyChars.contains c.toNat = true ∧ Tables.uriFragmentChars.contains c.toNat = true ∧
    c ≠ '#' ∧ c ≠ Char.ofNat 10 := by
  have hm : c ∈ rfcUriChars := by simpa [rfcUriChar] using h
  have := List.all_eq_true.mp rfc_table c hm
  simp only [Bool.and_eq_true, bne_iff_ne, ne_eq] at this
  exact ⟨this.1.1.1, this.1.1.2, this.1.2, this.2⟩

theorem partitionChar_spec (c : Char) (s : Str) :
    s = (partitionChar c s).1 ++ (if (partitionChar c s).2.1 then c :: (partitionChar c s).2.2 else []) ∧
    ((partitionChar c s).2.1 = false → (partitionChar c s).2.2 = []) := by
  induction s with
  | nil => simp [partitionChar]
  | cons x xs ih =>
    unfold partitionChar
    by_cases hx : x = c
    · subst hx; simp
    · simp only [hx, if_false]
      obtain ⟨h1, h2⟩ := ih
      refine ⟨?_, h2⟩
      simp only [List.cons_append]
      rw [← h1]

theorem dropFinalNewline_id (s : Str) (h : Char.ofNat 10 ∉ s) : dropFinalNewline s = s := by
  unfold dropFinalNewline
  split
  · rename_i r heq
    exfalso
    apply h
    have : Char.ofNat 10 ∈ s.reverse := by rw [heq]; exact List.mem_cons_self
    simpa using this
  · rfl

open Xs.Spec in
/-- `is_uri` accepts every RFC 2396 URI reference (the fragment may be empty) -/
theorem isUri_of_rfc (u : Str) (h : isRfcUriRef u = true) : isUri (some u) = true := by
  simp only [isRfcUriRef, Bool.and_eq_true, Bool.not_eq_true', List.all_eq_true] at h
  obtain ⟨⟨hne, hbody⟩, hfrag⟩ := h
  obtain ⟨hsplit, hnf⟩ := partitionChar_spec '#' u
  have hnl : Char.ofNat 10 ∉ u := by
    intro hm
    rw [hsplit] at hm
    rcases List.mem_append.mp hm with h1 | h1
    · exact (rfcUriChar_tables _ (hbody _ h1)).2.2.2 rfl
    · split at h1
      · rcases List.mem_cons.mp h1 with h2 | h2
        · revert h2; decide
        · exact (rfcUriChar_tables _ (hfrag _ h2)).2.2.2 rfl
      · cases h1
  simp only [isUri, hne, Bool.not_false, Bool.true_and, uriMatch, dropFinalNewline_id u hnl,
    Bool.and_eq_true, List.all_eq_true, decide_eq_true_eq]
  refine ⟨?_, ?_⟩
  · intro c hc
    have := rfcUriChar_tables c (hbody c hc)
    exact ⟨this.1, this.2.2.1⟩
  · cases hf : (partitionChar '#' u).2.1 with
    | false => simp
    | true =>
      simp only [if_true, List.all_eq_true]
      exact fun c hc => (rfcUriChar_tables c (hfrag c hc)).2.1

/-! ### generated prefixes -/

def goodPrefixB (p : Str) : Bool :=
  match p with
  | [] => false
  | a :: _ => isAscii a && !isAsciiSpace a && a != '{' && !p.contains ':'

theorem goodPrefixB_sound (e : CEnv) (p : Str) (h : goodPrefixB p = true) : GoodPrefix e p := by
  cases p with
  | nil => simp [goodPrefixB] at h
  | cons a r =>
    simp only [goodPrefixB, Bool.and_eq_true, Bool.not_eq_true', bne_iff_ne, ne_eq] at h
    obtain ⟨⟨⟨h1, h2⟩, h3⟩, h4⟩ := h
    refine ⟨a, r, rfl, ?_, h3, ?_⟩
    · rw [isSpace_ascii e.toEnv a h1]; exact h2
    · intro hm
      have : (a :: r).contains ':' = true := by simp [hm]
      rw [this] at h4; cases h4

/-- every prefix of the `Namespace` enum can be written and read back -/
theorem standard_prefixes_good : Tables.standardNamespaces.all (fun x => goodPrefixB x.2) = true := by
  decide

theorem standardPrefix_good (e : CEnv) (u p : Str) (h : standardPrefix u = some p) : GoodPrefix e p := by
  unfold standardPrefix at h
  cases hf : Tables.standardNamespaces.find? (·.1 = u) with
  | none => simp [hf] at h
  | some x =>
    simp [hf] at h
    have hm := List.mem_of_find?_eq_some hf
    have := List.all_eq_true.mp standard_prefixes_good x hm
    subst h
    exact goodPrefixB_sound e _ this

theorem nsN_good (e : CEnv) (n : Nat) : GoodPrefix e ('n' :: 's' :: natStr n) := by
  refine ⟨'n', 's' :: natStr n, rfl, ?_, by decide, ?_⟩
  · rw [isSpace_ascii e.toEnv _ (by decide)]; decide
  · intro hm
    simp only [List.mem_cons] at hm
    rcases hm with h | h | h
    · revert h; decide
    · revert h; decide
    · have := (natStr_spec n).1 ':' h
      revert this; decide

theorem loop_good (e : CEnv) (hk : Str → Bool) (fuel k : Nat) : GoodPrefix e (generatePrefix.loop hk fuel k) := by
  induction fuel generalizing k with
  | zero => simp only [generatePrefix.loop]; exact nsN_good e k
  | succ f ih =>
    simp only [generatePrefix.loop]
    split
    · exact ih (k + 1)
    · exact nsN_good e k

theorem generatePrefix_good (e : CEnv) (u : Str) (m : NsMap) : GoodPrefix e (generatePrefix u m).1 := by
  unfold generatePrefix
  cases hs : (if u.isEmpty then none else standardPrefix u) with
  | none => simp only; exact loop_good e _ _ _
  | some p =>
    simp only
    have : standardPrefix u = some p := by
      by_cases hu : u.isEmpty
      · simp [hu] at hs
      · simpa [hu] using hs
    split
    · exact loop_good e _ _ _
    · exact standardPrefix_good e u p this

theorem generatePrefix_map (u : Str) (m : NsMap) :
    (generatePrefix u m).2 = m.set (some (generatePrefix u m).1) u := by
  unfold generatePrefix
  cases (if u.isEmpty then none else standardPrefix u) <;> simp only <;> (try split) <;> rfl

end Xs.Conv
