/- Helper lemmas for Props/C18.lean: `Decimal(str(d))` gives `d` back
(`str` in the decimal module's scientific notation). -/
import XsdataModel.Proofs.FloatL
import XsdataModel.Proofs.DecimalL
import XsdataModel.Code.PycodeWF

namespace Xs.Conv
open Py Xs.Spec

theorem numChar_isSpace (e : Env) (c : Char) (h : numChar c = true) : e.isSpace c = false ∧ c ≠ '_' := by
  simp only [numChar, decChar, Bool.or_eq_true, decide_eq_true_eq] at h
  rcases h with (((h | rfl) | rfl) | rfl) | rfl
  · rcases h with h | rfl
    · exact ⟨digit_not_space e c h, by intro hx; subst hx; revert h; decide⟩
    · exact ⟨by rw [isSpace_ascii e _ (by decide)]; decide, by decide⟩
  all_goals exact ⟨by rw [isSpace_ascii e _ (by decide)]; decide, by decide⟩

/-- `Decimal(s)` reads sign, digits with an optional point, and an optional
exponent as the decimal they denote (coefficient digits and exponent exactly) -/
theorem decimalParse_exp (e : Env) (sg : Sign) (ip fp : Str) (dot : Bool) (ex : Option (Bool × Sign × Str))
    (hip : AllDigits ip) (hfp : AllDigits fp) (hne : ip ≠ [] ∨ (dot = true ∧ fp ≠ []))
    (hdot : dot = false → fp = []) (hex : ExpOk ex) :
    decimalParse e (sg.str ++ (decBody ip fp dot ++ expPart ex))
      = some (.fin sg.neg (digitsNat (ip ++ fp)) (expVal ex - (fp.length : Int))) := by
  have hb := decBody_chars ip fp dot hip hfp
  have hbne := decBody_ne_nil ip fp dot hne
  have hall : ∀ c ∈ sg.str ++ (decBody ip fp dot ++ expPart ex), numChar c = true := by
    intro c hc
    rcases List.mem_append.mp hc with h1 | h1
    · exact sign_chars sg c h1
    · rcases List.mem_append.mp h1 with h2 | h2
      · simp [numChar, hb c h2]
      · exact expPart_chars ex hex c h2
  have htight : Tight e.isSpace (sg.str ++ (decBody ip fp dot ++ expPart ex)) :=
    digits_tight _ _ (by simp [hbne]) (fun c hc => (numChar_isSpace e c (hall c hc)).1)
  obtain ⟨a, r, har⟩ : ∃ a r, decBody ip fp dot = a :: r := by
    cases hd : decBody ip fp dot with
    | nil => exact absurd hd hbne
    | cons a r => exact ⟨a, r, rfl⟩
  obtain ⟨_, _, hm, hp, hlow, hi, hn, hs⟩ := decChar_props e a (hb a (by simp [har]))
  have hparse := parseDecimalBody_exp e ip fp dot ex hip hfp hne hdot hex
  unfold decimalParse
  have hstrip : e.strip (sg.str ++ (decBody ip fp dot ++ expPart ex)) = sg.str ++ (decBody ip fp dot ++ expPart ex) :=
    stripBy_tight _ _ htight
  have hfilter : (sg.str ++ (decBody ip fp dot ++ expPart ex)).filter (· ≠ '_')
      = sg.str ++ (decBody ip fp dot ++ expPart ex) := by
    rw [List.filter_eq_self]
    intro ch hc
    simp [(numChar_isSpace e ch (hall ch hc)).2]
  simp only [hstrip, hfilter]
  rw [har] at hparse ⊢
  rw [List.cons_append, takeSign_head sg a _ hm hp]
  simp only [List.map_cons, hlow]
  have e1 : ((a :: (r ++ expPart ex).map lowerAscii) == ['i', 'n', 'f']) = false := by
    simp [hi]
  have e2 : ((a :: (r ++ expPart ex).map lowerAscii) == ['i', 'n', 'f', 'i', 'n', 'i', 't', 'y']) = false := by
    simp [hi]
  have e3 : (['n', 'a', 'n'].isPrefixOf (a :: (r ++ expPart ex).map lowerAscii)) = false := by
    simp [List.isPrefixOf, Ne.symm hn]
  have e4 : (['s', 'n', 'a', 'n'].isPrefixOf (a :: (r ++ expPart ex).map lowerAscii)) = false := by
    simp [List.isPrefixOf, Ne.symm hs]
  rw [List.cons_append] at hparse
  simp only [e1, e2, e3, e4, Bool.false_or, Bool.false_eq_true, if_false, hparse]
  simp [digitsNat, List.map_append]

end Xs.Conv

namespace Xs.Code
open Py Xs.Conv Xs.Spec

theorem digitsNat_natStr (c : Nat) : digitsNat (natStr c) = c := (natStr_spec c).2.2

theorem allDigits_zeros (k : Nat) : AllDigits (List.replicate k '0') := by
  intro ch hc
  rw [List.eq_of_mem_replicate hc]; decide

theorem digitsNat_zero_cons (s : Str) : digitsNat ('0' :: s) = digitsNat s := by
  have h0 : charVal '0' = 0 := by decide
  simp [digitsNat, List.map_cons, h0, digitsVal_cons]

theorem digitsNat_zeros (k : Nat) (s : Str) : digitsNat (List.replicate k '0' ++ s) = digitsNat s := by
  induction k with
  | zero => simp
  | succ k ih => rw [List.replicate_succ, List.cons_append, digitsNat_zero_cons, ih]

theorem expPart_signed (i : Int) :
    expPart (some (true, (if i < 0 then Sign.minus else Sign.plus), natStr i.natAbs)) = 'E' :: signedDec i := by
  by_cases h : i < 0 <;> simp [expPart, signedDec, h, Sign.str]

theorem expVal_signed (i : Int) :
    expVal (some (true, (if i < 0 then Sign.minus else Sign.plus), natStr i.natAbs)) = i := by
  by_cases h : i < 0
  · simp [expVal, h, Sign.neg, digitsNat_natStr]; omega
  · simp [expVal, h, Sign.neg, digitsNat_natStr]; omega

theorem expOk_signed (i : Int) :
    ExpOk (some (true, (if i < 0 then Sign.minus else Sign.plus), natStr i.natAbs)) :=
  ⟨(natStr_spec _).2.1, (natStr_spec _).1⟩

/-- the sign `str` writes -/
def sgOf (neg : Bool) : Sign := if neg then .minus else .none

theorem sgOf_str (neg : Bool) : (sgOf neg).str = (if neg then ['-'] else []) := by
  cases neg <;> rfl

theorem sgOf_neg (neg : Bool) : (sgOf neg).neg = neg := by cases neg <;> rfl

/-- what `str` writes for a finite Decimal, taken apart: sign, integer digits,
fraction digits, exponent - denoting exactly the coefficient and the exponent -/
theorem decStr_fin_parts (neg : Bool) (c : Nat) (x : Int) :
    ∃ (ip fp : Str) (dot : Bool) (ex : Option (Bool × Sign × Str)),
      decStr (.fin neg c x) = (sgOf neg).str ++ (decBody ip fp dot ++ expPart ex) ∧
      AllDigits ip ∧ AllDigits fp ∧ (ip ≠ [] ∨ (dot = true ∧ fp ≠ [])) ∧ (dot = false → fp = []) ∧ ExpOk ex ∧
      digitsNat (ip ++ fp) = c ∧ expVal ex - (fp.length : Int) = x := by
  obtain ⟨hds, hne, _⟩ := natStr_spec c
  have hval := digitsNat_natStr c
  have hlenpos : 0 < (natStr c).length := List.length_pos_iff.mpr hne
  simp only [decStr]
  rw [← sgOf_str neg]
  by_cases hA : x ≤ 0 ∧ x + ((natStr c).length : Int) > -6
  · rw [if_pos hA]
    by_cases h1 : x + ((natStr c).length : Int) ≤ 0
    · -- 0.000ddd
      rw [if_pos h1]
      refine ⟨['0'], List.replicate (-(x + ((natStr c).length : Int))).toNat '0' ++ natStr c, true, none,
        (by simp [decBody, expPart]), (by intro ch hc; simp at hc; subst hc; decide),
        allDigits_append _ _ (allDigits_zeros _) hds, Or.inl (by simp), (by simp), trivial, ?_, ?_⟩
      · rw [List.singleton_append, digitsNat_zero_cons, digitsNat_zeros, hval]
      · simp only [expVal, List.length_append, List.length_replicate]
        omega
    · rw [if_neg h1]
      by_cases h2 : x + ((natStr c).length : Int) ≥ ((natStr c).length : Int)
      · -- ddd
        rw [if_pos h2]
        refine ⟨natStr c, [], false, none, (by simp [decBody, expPart]), hds, (by intro ch hc; cases hc),
          Or.inl hne, (by simp), trivial, (by rw [List.append_nil, hval]), ?_⟩
        simp only [expVal, List.length_nil]
        omega
      · -- dd.ddd
        rw [if_neg h2]
        have hk : (x + ((natStr c).length : Int)).toNat < (natStr c).length := by omega
        have hk0 : 0 < (x + ((natStr c).length : Int)).toNat := by omega
        refine ⟨(natStr c).take (x + ((natStr c).length : Int)).toNat,
          (natStr c).drop (x + ((natStr c).length : Int)).toNat, true, none, (by simp [decBody, expPart]),
          fun ch hc => hds ch (List.mem_of_mem_take hc), fun ch hc => hds ch (List.mem_of_mem_drop hc),
          Or.inl ?_, (by simp), trivial, (by rw [List.take_append_drop, hval]), ?_⟩
        · intro hnil
          have : ((natStr c).take (x + ((natStr c).length : Int)).toNat).length = 0 := by rw [hnil]; rfl
          rw [List.length_take] at this
          omega
        · simp only [expVal, List.length_drop]
          omega
  · -- scientific notation
    rw [if_neg hA]
    by_cases h3 : (natStr c).length ≤ 1
    · rw [if_pos h3, ← expPart_signed]
      refine ⟨natStr c, [], false, _, (by simp [decBody]), hds, (by intro ch hc; cases hc), Or.inl hne, (by simp),
        expOk_signed (x + ((natStr c).length : Int) - 1), (by rw [List.append_nil, hval]), ?_⟩
      rw [expVal_signed]
      simp only [List.length_nil]
      omega
    · rw [if_neg h3, ← expPart_signed]
      refine ⟨(natStr c).take 1, (natStr c).drop 1, true, _, (by simp [decBody]),
        fun ch hc => hds ch (List.mem_of_mem_take hc), fun ch hc => hds ch (List.mem_of_mem_drop hc),
        Or.inl ?_, (by simp), expOk_signed (x + ((natStr c).length : Int) - 1), (by rw [List.take_append_drop, hval]), ?_⟩
      · intro hnil
        have : ((natStr c).take 1).length = 0 := by rw [hnil]; rfl
        rw [List.length_take] at this
        omega
      · rw [expVal_signed]
        simp only [List.length_drop]
        omega

theorem strip_word (e : Py.Env) (a z : Char) (mid : Str) (ha : isAscii a = true) (ha' : isAsciiSpace a = false)
    (hz : isAscii z = true) (hz' : isAsciiSpace z = false) : e.strip (a :: mid ++ [z]) = a :: mid ++ [z] :=
  stripBy_tight _ _ (Or.inr ⟨⟨a, mid ++ [z], rfl, by rw [isSpace_ascii e a ha]; exact ha'⟩,
    ⟨a :: mid, z, rfl, by rw [isSpace_ascii e z hz]; exact hz'⟩⟩)

/-- **`Decimal(str(d)) == d`, exactly** (sign, coefficient digits, exponent;
infinities; NaNs with sign, signaling flag and payload), in every Unicode environment -/
theorem decimalParse_decStr (e : Py.Env) (d : Dec) : decimalParse e (decStr d) = some d := by
  cases d with
  | inf neg =>
    cases neg with
    | false =>
      have ht : e.strip cs!"Infinity" = cs!"Infinity" :=
        strip_word e 'I' 'y' cs!"nfinit" (by decide) (by decide) (by decide) (by decide)
      simp only [decStr, decimalParse, Bool.false_eq_true, if_false, List.nil_append, ht]
      rw [if_pos (by decide)]
      rfl
    | true =>
      have ht : e.strip cs!"-Infinity" = cs!"-Infinity" :=
        strip_word e '-' 'y' cs!"Infinit" (by decide) (by decide) (by decide) (by decide)
      simp only [decStr, decimalParse, if_true, List.singleton_append, ht]
      rw [if_pos (by decide)]
      rfl
  | nan neg sg diag =>
    simp only [decStr]
    rw [decimalParse_nan e neg sg (if diag = 0 then [] else natStr diag)
      (by split
          · intro c hc; cases hc
          · exact (natStr_spec diag).1)]
    have hd : digitsVal ((if diag = 0 then [] else natStr diag).map charVal) = diag := by
      split
      · rename_i h0; simp [h0, digitsVal_nil]
      · exact (natStr_spec diag).2.2
    rw [hd]
  | fin neg c x =>
    obtain ⟨ip, fp, dot, ex, heq, hip, hfp, hne, hdot, hex, hc, hx⟩ := decStr_fin_parts neg c x
    rw [heq, decimalParse_exp e (sgOf neg) ip fp dot ex hip hfp hne hdot hex, sgOf_neg, hc, hx]

/-! ### the `repr` text `Decimal('…')` is read back -/

/-- a character that a `'…'` literal holds as itself -/
def plainQ (c : Char) : Prop := c ≠ '\\' ∧ rawBadQ '\'' c = false

theorem decodeLit_plain : ∀ (s : Str), (∀ c ∈ s, plainQ c) → decodeLit '\'' .normal s = some s
  | [], _ => rfl
  | c :: r, h => by
      obtain ⟨h1, h2⟩ := h c (by simp)
      simp [decodeLit, h1, h2, decodeLit_plain r (fun d hd => h d (by simp [hd]))]

theorem digit_plainQ (c : Char) (h : isAsciiDigit c = true) : plainQ c := by
  have hb : 48 ≤ c.toNat ∧ c.toNat ≤ 57 := by simpa [isAsciiDigit] using h
  refine ⟨?_, ?_⟩
  · rintro rfl; revert h; decide
  · have h0 : c.toNat ≠ 0 := by omega
    have hq : c ≠ '\'' := by rintro rfl; revert h; decide
    have hn : c ≠ '\n' := by rintro rfl; revert h; decide
    have hr : c ≠ '\r' := by rintro rfl; revert h; decide
    simp [rawBadQ, hq, hn, hr, h0]

theorem numChar_plainQ (c : Char) (h : numChar c = true) : plainQ c := by
  simp only [numChar, decChar, Bool.or_eq_true, decide_eq_true_eq] at h
  rcases h with (((h | rfl) | rfl) | rfl) | rfl
  · rcases h with h | rfl
    · exact digit_plainQ c h
    · exact ⟨by decide, by decide⟩
  all_goals exact ⟨by decide, by decide⟩

theorem decStr_plain (d : Dec) : ∀ c ∈ decStr d, plainQ c := by
  cases d with
  | inf neg =>
    cases neg
    · simp only [decStr, Bool.false_eq_true, if_false, List.nil_append]
      intro c hc
      simp only [List.mem_cons, List.mem_nil_iff, or_false] at hc
      rcases hc with rfl | rfl | rfl | rfl | rfl | rfl | rfl | rfl <;> exact ⟨by decide, by decide⟩
    · simp only [decStr, if_true, List.singleton_append]
      intro c hc
      simp only [List.mem_cons, List.mem_nil_iff, or_false] at hc
      rcases hc with rfl | rfl | rfl | rfl | rfl | rfl | rfl | rfl | rfl <;> exact ⟨by decide, by decide⟩
  | nan neg sg diag =>
    intro c hc
    simp only [decStr, List.mem_append] at hc
    rcases hc with ((hc | hc) | hc) | hc
    · cases neg
      · simp at hc
      · simp at hc; subst hc; exact ⟨by decide, by decide⟩
    · cases sg
      · simp at hc
      · simp at hc; subst hc; exact ⟨by decide, by decide⟩
    · simp only [List.mem_cons, List.mem_nil_iff, or_false] at hc
      rcases hc with rfl | rfl | rfl <;> exact ⟨by decide, by decide⟩
    · split at hc
      · cases hc
      · exact digit_plainQ c ((natStr_spec diag).1 c hc)
  | fin neg c x =>
    obtain ⟨ip, fp, dot, ex, heq, hip, hfp, _, _, hex, _, _⟩ := decStr_fin_parts neg c x
    rw [heq]
    intro ch hc
    apply numChar_plainQ
    rcases List.mem_append.mp hc with h1 | h1
    · exact sign_chars (sgOf neg) ch h1
    · rcases List.mem_append.mp h1 with h2 | h2
      · simp [numChar, decBody_chars ip fp dot hip hfp ch h2]
      · exact expPart_chars ex hex ch h2

theorem unquote_wrap (q : Char) (body : Str) (hq : q = '\'' ∨ q = '"') :
    unquote (q :: body ++ [q]) = some (q, body) := by
  have h1 : (q = '\'' || q = '"') = true := by
    rcases hq with h | h <;> subst h <;> decide
  simp [unquote, h1, List.getLast?_append, List.dropLast_concat]

/-- **`repr(d)` evaluates back to `d`**: the string literal denotes `str(d)`
and the constructor reads it exactly -/
theorem readDecimal_decRepr (d : Dec) : readDecimal (decRepr d) = some d := by
  unfold readDecimal decRepr
  generalize Tables.decimalName = nm
  have hshape : nm ++ cs!"('" ++ decStr d ++ cs!"')" = (nm ++ ['(']) ++ ((['\''] ++ decStr d ++ ['\'']) ++ [')']) := by
    simp
  rw [hshape]
  have hpre : (nm ++ ['(']).isPrefixOf ((nm ++ ['(']) ++ ((['\''] ++ decStr d ++ ['\'']) ++ [')'])) = true := by
    simp
  have hl : ∀ (l : Str), (l ++ [')']).getLast? = some ')' := by intro l; simp
  have hlast : ((nm ++ ['(']) ++ ((['\''] ++ decStr d ++ ['\'']) ++ [')'])).getLast? == some ')' := by
    rw [← List.append_assoc, hl]; simp
  simp only [hpre, hlast, Bool.and_self, if_true, List.drop_left, List.dropLast_concat]
  have hu := unquote_wrap '\'' (decStr d) (Or.inl rfl)
  simp only [List.cons_append, List.nil_append] at hu ⊢
  simp only [decodeStrLit, hu, decodeLit_plain (decStr d) (decStr_plain d)]
  exact decimalParse_decStr Py.Env.ascii d

end Xs.Code
