/- C02 — property theorems (only). -/
import XsdataModel.Gen.Occurs

namespace Props.C02
open Py Xs.Gen

end Props.C02
