/-
L8 — named model groups (`xs:group`) and `xs:all` in the occurrence arithmetic (C02).

* `GParticle` : content models with `xs:all` and *references* to named model groups, and their
  language `GMatches` (Spec part, written from the XSD definitions: a reference
  `<xs:group ref="g" minOccurs maxOccurs/>` is a particle with that range whose term is the
  model group of the definition; the children of `xs:all` come in any order);
* what `SchemaMapper` records for a reference (`Group.get_restrictions`: one path entry
  `("g", id(reference), min, max)`, an attr of tag `Group`), for the class of the definition
  (`Restrictions.from_element(definition)`: every path starts with `("g", id(definition), 1, 1)`),
  and what `FlattenAttributeGroups.process_attribute` → `ClassUtils.copy_group_attributes` →
  `clone_attribute` → `Restrictions.merge` make of it: the group attr is replaced, in place, by
  clones of the attrs of the (already flattened) group class, `path = reference's path ++ clone's
  path`; the clone keeps its own `min_occurs`/`max_occurs`/`index`.  The ids on the cloned part of
  the path are those of the *definition*, shared by every reference in every class;
* `xs:all`: `All.get_restrictions` gives a path entry of kind `"a"`.

`Restrictions.group` (set by `CalculateAttributePaths` from the last `"g"` entry) is read by no
code and is not part of `Site`.  After the UNGROUP step the classes go through the same FLATTEN
handlers as before: `occursG = gsites >>= occurs`.
-/
import XsdataModel.Gen.Occurs

namespace Xs.Gen
open Py

inductive GParticle
  | elem (name : Str) (min max : Nat)
  | seq (min max : Nat) (ps : List GParticle)
  | choice (min max : Nat) (ps : List GParticle)
  | all (min max : Nat) (ps : List GParticle)
  | ref (group : Str) (min max : Nat)
deriving Repr

/-- the named model groups of a schema, `<xs:group name="…">` with its model group, in document order -/
abbrev GroupDefs := List (Str × GParticle)

/-- the definition called `g` with its position in the schema -/
def lookupDef (defs : GroupDefs) (g : Str) : Option (Nat × GParticle) :=
  go defs 0
where
  go : GroupDefs → Nat → Option (Nat × GParticle)
    | [], _ => none
    | (n, b) :: rest, k => if n = g then some (k, b) else go rest (k + 1)

/-! ### the language (Spec) -/

mutual
/-- the words a particle accepts, given the language `sem g` of each named group -/
def GMatchesW (sem : Str → List Str → Prop) : GParticle → List Str → Prop
  | .elem name min max, w => ∃ k, repOK k min max ∧ w = List.replicate k name
  | .seq min max ps, w =>
      ∃ ws : List (List Str), repOK ws.length min max ∧ (∀ x ∈ ws, GSeqOnce sem ps x) ∧ w = ws.flatten
  | .choice min max ps, w =>
      ∃ ws : List (List Str), repOK ws.length min max ∧ (∀ x ∈ ws, GChoiceOnce sem ps x) ∧ w = ws.flatten
  | .all min max ps, w =>
      ∃ ws : List (List Str), repOK ws.length min max ∧
        (∀ x ∈ ws, ∃ y, GSeqOnce sem ps y ∧ x.Perm y) ∧ w = ws.flatten
  | .ref g min max, w =>
      ∃ ws : List (List Str), repOK ws.length min max ∧ (∀ x ∈ ws, sem g x) ∧ w = ws.flatten
def GSeqOnce (sem : Str → List Str → Prop) : List GParticle → List Str → Prop
  | [], w => w = []
  | p :: ps, w => ∃ a b, GMatchesW sem p a ∧ GSeqOnce sem ps b ∧ w = a ++ b
def GChoiceOnce (sem : Str → List Str → Prop) : List GParticle → List Str → Prop
  | [], _ => False
  | p :: ps, w => GMatchesW sem p w ∨ GChoiceOnce sem ps w
end

/-- the language of the named group `g`, references nested at most `fuel` deep (a reference that
does not resolve within `fuel` steps — dangling or circular — accepts nothing) -/
def groupLang (defs : GroupDefs) : Nat → Str → List Str → Prop
  | 0, _, _ => False
  | fuel + 1, g, w =>
    match lookupDef defs g with
    | none => False
    | some (_, body) => GMatchesW (groupLang defs fuel) body w

/-- the language of a content model in a schema with the named groups `defs`
(`defs.length` bounds the nesting depth of non-circular references) -/
def GMatches (defs : GroupDefs) (p : GParticle) (w : List Str) : Prop :=
  GMatchesW (groupLang defs defs.length) p w

/-! ### every reference resolves (no dangling, no circular reference) -/

mutual
def resolvesW (ok : Str → Bool) : GParticle → Bool
  | .elem _ _ _ => true
  | .seq _ _ ps => resolvesList ok ps
  | .choice _ _ ps => resolvesList ok ps
  | .all _ _ ps => resolvesList ok ps
  | .ref g _ _ => ok g
def resolvesList (ok : Str → Bool) : List GParticle → Bool
  | [] => true
  | p :: ps => resolvesW ok p && resolvesList ok ps
end

def groupResolves (defs : GroupDefs) : Nat → Str → Bool
  | 0, _ => false
  | fuel + 1, g =>
    match lookupDef defs g with
    | none => false
    | some (_, body) => resolvesW (groupResolves defs fuel) body

def resolves (defs : GroupDefs) (p : GParticle) : Bool :=
  resolvesW (groupResolves defs defs.length) p

/-! ### ids: one per container, reference and element of the schema, in document order -/

mutual
def gsize : GParticle → Nat
  | .elem _ _ _ => 1
  | .seq _ _ ps => 1 + gsizeList ps
  | .choice _ _ ps => 1 + gsizeList ps
  | .all _ _ ps => 1 + gsizeList ps
  | .ref _ _ _ => 1
def gsizeList : List GParticle → Nat
  | [] => 0
  | p :: ps => gsize p + gsizeList ps
end

/-- the id of the `k`-th definition; its model group is numbered from `defBase defs k + 1` -/
def defBase (defs : GroupDefs) (k : Nat) : Nat :=
  1 + ((defs.take k).map (fun d => 1 + gsize d.2)).sum

/-! ### SchemaMapper + FlattenAttributeGroups: element sites with their paths -/

/-- `Restrictions.merge` on the clone of a group's attr: `self.path = source.path + self.path` -/
def addPrefix (pre : List PathE) (s : Site) : Site := { s with path := pre ++ s.path }

mutual
/-- `sub g` : the attrs of the flattened class of group `g`.  `index` is the number of the
element declaration (`ElementBase.index`): clones of one declaration share it. -/
def gsitesAux (sub : Str → Option (List Site)) : GParticle → List PathE → Nat → List Site × Nat
  | .elem name min max, path, next => ([{ name, index := next, min, max, path }], next + 1)
  | .seq min max ps, path, next => gsitesList sub ps (path ++ [⟨.s, next, min, max⟩]) (next + 1)
  | .choice min max ps, path, next => gsitesList sub ps (path ++ [⟨.c, next, min, max⟩]) (next + 1)
  | .all min max ps, path, next => gsitesList sub ps (path ++ [⟨.a, next, min, max⟩]) (next + 1)
  | .ref g min max, path, next =>
    -- `copy_group_attributes`: clones of the group's attrs, `merge`: path = reference path ++ own path
    match sub g with
    | some ss => (ss.map (addPrefix (path ++ [⟨.g, next, min, max⟩])), next + 1)
    | none => ([], next + 1)
def gsitesList (sub : Str → Option (List Site)) : List GParticle → List PathE → Nat → List Site × Nat
  | [], _, next => ([], next)
  | p :: ps, path, next =>
    let (a, n1) := gsitesAux sub p path next
    let (b, n2) := gsitesList sub ps path n1
    (a ++ b, n2)
end

/-- the attrs of the class of the group definition `g` after its own UNGROUP step -/
def groupSites (defs : GroupDefs) : Nat → Str → Option (List Site)
  | 0, _ => none
  | fuel + 1, g =>
    match lookupDef defs g with
    | none => none
    | some (k, body) =>
      some (gsitesAux (groupSites defs fuel) body [⟨.g, defBase defs k, 1, 1⟩] (defBase defs k + 1)).1

/-- the attrs of the class of a complex type with content model `p` after the UNGROUP step, ids from
`start`; `none`: `CodegenError("Unknown group reference")` (circular references, which the code
treats in its own way, are not modelled and also answer `none`) -/
def gsites (defs : GroupDefs) (p : GParticle) (start : Nat) : Option (List Site) :=
  if resolves defs p then some (gsitesAux (groupSites defs defs.length) p [] start).1 else none

/-- the id the first type of a schema starts with -/
def typeBase (defs : GroupDefs) : Nat := defBase defs defs.length

/-- UNGROUP, then the FLATTEN handlers -/
def occursG (defs : GroupDefs) (p : GParticle) : Option (List Site) :=
  (gsites defs p (typeBase defs)).map occurs

/-- all the classes of a schema: the content models `types` in document order after the definitions -/
def schemaSites (defs : GroupDefs) (types : List GParticle) : List (Option (List Site)) :=
  go types (typeBase defs)
where
  go : List GParticle → Nat → List (Option (List Site))
    | [], _ => []
    | p :: ps, start => gsites defs p start :: go ps (start + gsize p)

/-! ### the occurrence skeleton: `xs:all` as a sequence, references expanded -/

mutual
/-- counts of children do not depend on their order, and the path entries `"a"` and `"g"` only
multiply: for occurrence purposes `xs:all` behaves like `xs:sequence`, and a reference like
`sequence(min,max)[sequence(1,1)[model group]]` (the two `"g"` entries of reference and definition) -/
def flatW (sub : Str → Option Particle) : GParticle → Particle
  | .elem name min max => .elem name min max
  | .seq min max ps => .seq min max (flatList sub ps)
  | .choice min max ps => .choice min max (flatList sub ps)
  | .all min max ps => .seq min max (flatList sub ps)
  | .ref g min max =>
    match sub g with
    | some body => .seq min max [.seq 1 1 [body]]
    | none => .seq min max []
def flatList (sub : Str → Option Particle) : List GParticle → List Particle
  | [] => []
  | p :: ps => flatW sub p :: flatList sub ps
end

def groupFlat (defs : GroupDefs) : Nat → Str → Option Particle
  | 0, _ => none
  | fuel + 1, g =>
    match lookupDef defs g with
    | none => none
    | some (_, body) => some (flatW (groupFlat defs fuel) body)

def flat (defs : GroupDefs) (p : GParticle) : Particle := flatW (groupFlat defs defs.length) p

end Xs.Gen
