/- C13 — property theorems (only): the serializer's sequence rolling gives regular interleaving
   groups back in document order.  Uses the model of `EventGenerator.next_value` and the round
   lemmas of C01 (`Proofs/C01NSeq.lean`). -/
import XsdataModel.Proofs.C01NSeq

namespace Props.C13
open Py Xs.Bind Proofs.C01

/-- the value of every field of the group is a list of `n` items -/
def RegularGroup (vals : List (XmlVar × Val)) (n : Nat) : Prop :=
  ∀ vv ∈ vals, ∃ xs, vv.2 = .list xs ∧ xs.length = n

theorem rolls_lt {vals : List (XmlVar × Val)} {n j : Nat} (h : RegularGroup vals n) (hne : vals ≠ []) (hj : j < n) :
    vals.any (rollsJ j) = true := by
  cases vals with
  | nil => exact absurd rfl hne
  | cons vv rest =>
    obtain ⟨xs, hx, hl⟩ := h vv (by simp)
    have : rollsJ j vv = true := by
      obtain ⟨v, x⟩ := vv
      simp only at hx; subst hx
      simp only [rollsJ, Option.isSome_iff_exists]
      exact ⟨xs[j], by simp [List.getElem?_eq_getElem (by omega : j < xs.length)]⟩
    simp [this]

theorem rolls_ge {vals : List (XmlVar × Val)} {n j : Nat} (h : RegularGroup vals n) (hj : n ≤ j) :
    vals.any (rollsJ j) = false := by
  simp only [List.any_eq_false]
  intro vv hvv
  obtain ⟨xs, hx, hl⟩ := h vv hvv
  obtain ⟨v, x⟩ := vv
  simp only at hx; subst hx
  simp [rollsJ, List.getElem?_eq_none (by omega : xs.length ≤ j)]

theorem roll_regular (vals : List (XmlVar × Val)) (n : Nat) (h : RegularGroup vals n) (hne : vals ≠ [])
    (hnt : ∀ vv ∈ vals, vv.1.tokens = false) :
    ∀ (k j : Nat) (acc : List (XmlVar × Val)), j + k = n →
      nextValue.roll emitOfN (k + 2) j vals acc
        = acc ++ (List.range' j k).flatMap (fun i => vals.flatMap (roundJ i)) := by
  intro k
  induction k with
  | zero =>
    intro j acc hj
    rw [roll_succ _ _ _ _ hnt, rolls_ge h (by omega)]
    simp
  | succ k ih =>
    intro j acc hj
    rw [roll_succ _ _ _ _ hnt, rolls_lt h hne (by omega)]
    simp only [if_true]
    rw [ih (j + 1) _ (by omega)]
    simp [List.range'_succ, List.append_assoc]

/-- **interleave_reproduced.** A sequence group whose fields all hold `n` items — what a sample with a
block of children repeated `n` times binds to — is written by `EventGenerator.next_value` round by
round: first items of all fields in field order, then the second items, … — the document order of
the regular interleaving.  (`hnt`: no field of the group is a token list; since repair c01g-04 the
serializer writes the list of a tokens field as one element instead of raising `TypeError`.) -/
theorem interleave_reproduced (vals : List (XmlVar × Val)) (n : Nat) (h : RegularGroup vals n) (hne : vals ≠ [])
    (hnt : ∀ vv ∈ vals, vv.1.tokens = false) :
    nextValue.roll emitOfN (n + 2) 0 vals []
      = (List.range n).flatMap (fun i => vals.flatMap (roundJ i)) := by
  have := roll_regular vals n h hne hnt n 0 [] (by omega)
  simpa [List.range_eq_range'] using this

/-- round `i` of a regular group is the `i`-th item of every field -/
theorem round_regular {vals : List (XmlVar × Val)} {n i : Nat} (h : RegularGroup vals n) (hi : i < n) :
    ∀ vv ∈ vals, ∃ xs, vv.2 = .list xs ∧ ∃ hlt : i < xs.length, roundJ i vv = emitOfN vv.1 xs[i] := by
  intro vv hvv
  obtain ⟨xs, hx, hl⟩ := h vv hvv
  refine ⟨xs, hx, by omega, ?_⟩
  obtain ⟨v, x⟩ := vv
  simp only at hx; subst hx
  simp [roundJ, List.getElem?_eq_getElem (by omega : i < xs.length)]

/-- `a b a b`: two fields of two items each satisfy the hypothesis, whatever the vars are -/
example (va vb : XmlVar) :
    RegularGroup [(va, .list [.prim (.int 1), .prim (.int 2)]), (vb, .list [.prim (.str "x".toList), .prim (.str "y".toList)])] 2 := by
  intro vv hvv
  simp only [List.mem_cons, List.mem_nil_iff, or_false] at hvv
  rcases hvv with rfl | rfl
  · exact ⟨_, rfl, rfl⟩
  · exact ⟨_, rfl, rfl⟩

end Props.C13
