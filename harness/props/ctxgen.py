"""Generators shared by C14 and C19: hand-written and random class universes,
op pools and world sequences."""
from __future__ import annotations

import itertools

from props.ctxlib import Realm, alt, cdef, cfield, fdef

XS = "{http://www.w3.org/2001/XMLSchema}"

# ---------------------------------------------------------------- hand universes
# U_WITNESS: the cache-by-class defect (C has no Meta.namespace, PA/PB do)
U_WITNESS = [
    cdef("C", fields=[fdef("x")]),
    cdef("PA", ns="urn:a", fields=[fdef("c", cls=0)]),
    cdef("PB", ns="urn:b", fields=[fdef("c", cls=0)]),
]

# U_XSI: subclass lookups, several classes under one qname, inner / local / foreign classes
U_XSI = [
    cdef("Base", ns="urn:a", fields=[fdef("x")]),
    cdef("Ext", base=0, ns="urn:a", fields=[fdef("y"), fdef("a", kind="attribute")]),
    cdef("Ext", base=0, ns="urn:a", modns="urn:a", fields=[fdef("z")]),
    cdef("Other", ns="urn:a", mname="Ext", fields=[fdef("x")]),
    cdef("Inner", ns="urn:a", inner=True, fields=[fdef("x")]),
    cdef("Local", ns="urn:a", glob=False, fields=[fdef("x")]),
    cdef("Foreign", ns="urn:a", pkg=False, fields=[fdef("x")]),
    cdef("Plain", model=False),
    cdef("Deep", base=1, fields=[fdef("w", kind="wildcard", ns="##other")]),
]

# U_BAD: unbuildable classes in the index (local_names_match evicts them while
# find_type_by_fields iterates)
U_BAD = [
    cdef("T", ns="urn:a", bad=True, fields=[fdef("x")]),
    cdef("T2", ns="urn:a", mname="T", fields=[fdef("x")]),
    cdef("T3", ns="urn:a", mname="T", fields=[fdef("x"), fdef("y")]),
    cdef("Solo", bad=True, fields=[fdef("x")]),
    cdef("Good", fields=[fdef("x"), fdef("y"), fdef("t", kind="text")]),
]

# U_BAD2: the unbuildable class is the most recently created one under its name
U_BAD2 = [
    cdef("T2", ns="urn:a", mname="T", fields=[fdef("x")]),
    cdef("T", ns="urn:a", bad=True, fields=[fdef("x")]),
]

# U_INHERIT: inherited fields take the declaring class's Meta.namespace
U_INHERIT = [
    cdef("Root", fields=[fdef("r"), fdef("any", kind="wildcard", ns="##targetNamespace ##local")]),
    cdef("Mid", base=0, ns="urn:m", fields=[fdef("m", ns="")]),
    cdef("Leaf", base=1, fields=[fdef("l"), fdef("k", cls=0)]),
    cdef("Holder", ns="urn:h", tns="urn:t", fields=[fdef("leaf", cls=2), fdef("root", cls=0, ns="urn:f")]),
    cdef("NoneNs", ns=None, modns="urn:mod", fields=[fdef("n", kind="attribute", ns="urn:at")]),
]

# U_WRAP: wrapped fields are matched by their wrapper names (5c6ca3a)
U_WRAP = [
    cdef("A", ns="urn:a", fields=[fdef("item", wrapper="Items"), fdef("n", kind="attribute")]),
    cdef("B", ns="urn:a", fields=[fdef("item", wrapper="Items"), fdef("y"), fdef("c", cls=0, wrapper="Cs")]),
    cdef("C", fields=[fdef("Items"), fdef("z", wrapper="")]),
]

# U_CHOICE: compound (type=Elements) fields of the same name in different models, holding
# the same member classes under different element names; a subclass member (derived
# choice), a value no choice accepts, a field after the compound (index shift)
U_CHOICE = [
    cdef("Address", fields=[fdef("city")]),
    cdef("Person", fields=[fdef("name")]),
    cdef("Order", mname="order", fields=[cfield("choice", [alt(0, "billTo"), alt(1, "buyer")])]),
    cdef("Shipment", mname="shipment", fields=[cfield("choice", [alt(0, "shipTo"), alt(1, "carrier")])]),
    cdef("Home", base=0, fields=[fdef("door")]),
    cdef("Other", ns="urn:o", fields=[cfield("choice", [alt(1, "who", ns="urn:w"), alt(4)]), fdef("after")]),
]

HAND = {"witness": U_WITNESS, "xsi": U_XSI, "bad": U_BAD, "inherit": U_INHERIT, "wrap": U_WRAP, "choice": U_CHOICE}

W = lambda loaded, mods=0: {"loaded": loaded, "mods": mods}  # noqa: E731


def op_build(c, pns=None):
    return {"k": "build", "c": c, "pns": pns}


def op_fetch(c, pns=None, xsi=None):
    return {"k": "fetch", "c": c, "pns": pns, "xsi": xsi}


def op_q(k, q):
    return {"k": k, "q": q}


def op_sub(c, q):
    return {"k": "find_subclass", "c": c, "q": q}


def op_fields(names):
    return {"k": "find_type_by_fields", "names": list(names)}


def op_lnm(names, c):
    return {"k": "local_names_match", "names": list(names), "c": c}


def op_ser(toks):
    return {"k": "serialize", "toks": [list(t) for t in toks]}


# PA(c=C(x="v")) / PB(c=C(x="v")) over U_WITNESS
DOC_PA = [["enter", 0, 1], ["enter", 0, 0], ["leaf", 0], ["leave"], ["leave"]]
DOC_PB = [["enter", 0, 2], ["enter", 0, 0], ["leaf", 0], ["leave"], ["leave"]]
# Holder(leaf=Leaf(r, m, l, k=Root(r)), root=Root(r)) over U_INHERIT
DOC_HOLDER = [["enter", 0, 3], ["enter", 0, 2], ["leaf", 0], ["leaf", 2], ["leaf", 3], ["enter", 4, 0], ["leaf", 0], ["leave"],
              ["leave"], ["enter", 1, 0], ["leaf", 0], ["leaf", 1], ["leave"], ["leave"]]

# B(item, y, c=A(item)) over U_WRAP
DOC_WRAP = [["enter", 0, 1], ["leaf", 0], ["leaf", 1], ["enter", 2, 0], ["leaf", 0], ["leave"], ["leave"]]

def doc_choice(root, *values):
    """root(choice=[values...]) over U_CHOICE; a value is a class id (its first field gets a leaf)"""
    toks = [["enter", 0, root]]
    for c in values:
        toks += [["enter", 0, c], ["leaf", 0], ["leave"]]
    return toks + [["leave"]]


RESET = {"k": "reset"}
BXC = {"k": "build_xsi_cache"}

POOLS = {
    "witness": [
        op_ser(DOC_PA), op_ser(DOC_PB), op_build(0, "urn:a"), op_build(0, "urn:b"), op_build(0),
        op_q("find_type", "C"), op_fields(["x"]), op_build(7), RESET,
    ],
    "xsi": [
        op_fetch(0, None, "{urn:a}Ext"), op_fetch(1, "urn:p", "{urn:a}Ext"), op_q("find_types", "{urn:a}Ext"),
        op_q("find_type", "{urn:a}Nope"), op_build(8, "urn:p"), op_sub(8, "{urn:a}Ext"),
        op_build(7), op_fetch(1, "urn:p", "Deep"), op_fields(["x", "y"]),
    ],
    "bad": [
        op_fields(["x"]), op_fields(["x", "y"]), op_q("find_types", "{urn:a}T"), op_lnm(["x"], 0), op_lnm(["x"], 3),
        op_build(0), op_fetch(1, None, "{urn:a}T"), op_build(4, "urn:z"), RESET,
    ],
    "inherit": [
        op_build(2), op_build(2, "urn:p"), op_build(3), op_build(0, "urn:h"), op_build(0, "urn:f"),
        op_fetch(0, "urn:q", "Leaf"), op_fields(["r", "m"]), op_ser(DOC_HOLDER), op_q("find_type", "{urn:mod}NoneNs"),
    ],
    "choice": [
        op_ser(doc_choice(2, 0, 1)), op_ser(doc_choice(3, 0, 1)), op_ser(doc_choice(2, 4)), op_ser(doc_choice(3, 1, 4)),
        op_ser(doc_choice(5, 0)), op_ser(doc_choice(5, 1, 4)), op_build(5, "urn:p"), op_fields(["choice"]),
    ],
    "wrap": [
        op_fields(["Items"]), op_fields(["Items", "y"]), op_fields(["item"]), op_lnm(["Items", "Cs"], 1), op_lnm([""], 2),
        op_ser(DOC_WRAP), op_build(2, "urn:a"),
    ],
}


def fixed_world(universe, ops):
    n = len(universe)
    return [{**W(n), "op": o} for o in ops]


# ---------------------------------------------------------------- random universes
NAMES = ["A", "B", "C", "D", "A"]
NS_CLASS = [..., ..., ..., None, "", "urn:a", "urn:b", "urn:a"]
MNAME = [None, None, None, "", "N", "A"]
TNS = [None, None, None, "urn:t", ""]
MODNS = [None, None, "urn:m", ""]
FNAMES = ["x", "y", "z", "c", "v", "t"]
FNS = [None, None, None, "", "urn:a", "urn:f", "##any", "##other", "##local", "##targetNamespace",
       "##any ##local", "  urn:a\t ", "##local urn:a", "##targetNamespace ##local"]
PNS = [None, None, "", "urn:a", "urn:b", "urn:p"]
CNAMES = ["choice", "choice", "items"]
ANAMES = [None, "a", "b", "shipTo", "billTo", "x"]
WRAPPERS = [None, None, None, None, None, "w", "", "x", "Items"]


def rand_universe(rng, n=None, declared=False, clean=False):
    """declared: every class carries Meta.namespace; clean: only buildable,
    global, in-package dataclasses (what generated bindings look like)."""
    n = n or rng.randint(2, 7)
    U = []
    chain_names: list[set] = []
    has_text: list[bool] = []
    for i in range(n):
        model = clean or rng.random() > 0.1
        cands = [j for j in range(i) if (model or not U[j]["model"])]
        base = rng.choice(cands) if cands and rng.random() < 0.4 else None
        used = set(chain_names[base]) if base is not None else set()
        text = has_text[base] if base is not None else False
        fields = []
        if model:
            for _ in range(rng.choice([0, 1, 1, 2, 2, 3])):
                free = [f for f in FNAMES if f not in used]
                if not free:
                    break
                name = rng.choice(free)
                used.add(name)
                r = rng.random()
                models = [j for j in range(i) if U[j]["model"]]
                if r < 0.25 and models:
                    fields.append(fdef(name, "element", rng.choice([None, None, "q"]), rng.choice(FNS[:6]), rng.choice(models),
                                       wrapper=rng.choice(WRAPPERS)))
                elif r < 0.6:
                    fields.append(fdef(name, "element", rng.choice([None, None, "", "q"]), rng.choice(FNS),
                                       wrapper=rng.choice(WRAPPERS)))
                elif r < 0.75:
                    fields.append(fdef(name, "attribute", None, rng.choice(FNS[:6]), wrapper=rng.choice(WRAPPERS[2:])))
                elif r < 0.9:
                    fields.append(fdef(name, "wildcard", None, rng.choice(FNS)))
                elif not text:
                    text = True
                    fields.append(fdef(name, "text"))
            # a compound field; its name comes from a tiny pool so that different models share it
            models = [j for j in range(i) if U[j]["model"] and not chain_bad(U, j)]
            cname = rng.choice(CNAMES)
            if models and cname not in used and rng.random() < 0.3:
                used.add(cname)
                members = rng.sample(models, min(len(models), rng.choice([1, 2, 2, 3])))
                if not clean and rng.random() < 0.08:
                    members.append(members[0])  # "Compound field contains ambiguous types"
                fields.append(cfield(cname, [alt(m, rng.choice(ANAMES), rng.choice([None, None, "urn:a", ""])) for m in members]))
        U.append(cdef(
            rng.choice(NAMES), base=base, model=model, pkg=clean or rng.random() > 0.1,
            ns=rng.choice(NS_CLASS[3:] if declared else NS_CLASS),
            mname=rng.choice(MNAME), tns=rng.choice(TNS), modns=rng.choice(MODNS), glob=clean or rng.random() > 0.1,
            inner=not clean and rng.random() < 0.1, bad=not clean and model and rng.random() < 0.12, fields=fields,
        ))
        chain_names.append(used)
        has_text.append(text)
    return U


def index_keys(universe):
    """qnames under which the real code indexes the universe (inputs only)."""
    realm = Realm(universe)
    try:
        realm.set_world(len(universe), 0)
        ctx = realm.context()
        ctx.build_xsi_cache()
        return list(ctx.xsi_cache.keys())
    finally:
        realm.close()


def rand_op(rng, universe, loaded, keys):
    n = len(universe)
    c = rng.randrange(loaded) if loaded and rng.random() < 0.95 else n + rng.randint(0, 2)
    q = rng.choice(keys) if keys and rng.random() < 0.8 else rng.choice(["Nope", "{urn:a}A", XS + "int", "A", "{urn:m}B"])
    names = rng.sample(FNAMES + ["q", "w", "Items"], rng.choice([0, 1, 1, 2, 2, 3]))
    r = rng.random()
    if r < 0.2:
        return op_build(c, rng.choice(PNS))
    if r < 0.3 and loaded:
        roots = [i for i in range(loaded) if universe[i]["model"]]
        if roots:
            return op_ser(rand_tree(rng, universe, rng.choice(roots), loaded))
    if r < 0.45:
        return op_fetch(c, rng.choice(PNS), q if rng.random() < 0.8 else rng.choice([None, ""]))
    if r < 0.55:
        return op_q("find_types", q)
    if r < 0.65:
        return op_q("find_type", q)
    if r < 0.75:
        return op_sub(c, q)
    if r < 0.87:
        return op_fields(names)
    if r < 0.93:
        return op_lnm(names, c)
    if r < 0.97:
        return BXC
    return RESET


def rand_steps(rng, universe, keys, length):
    """A world sequence: usually everything loaded from the start; sometimes
    classes appear over time, with or without a change of len(sys.modules)."""
    n = len(universe)
    mode = rng.choice(["fixed", "fixed", "grow", "grow-unstamped", "wobble", "shrink"])
    loaded = n if mode == "fixed" else rng.randint(0, n)
    mods = n if mode == "shrink" else 0
    steps = []
    for _ in range(length):
        if mode != "fixed" and rng.random() < 0.4:
            if mode == "grow":
                if loaded < n:
                    loaded += 1
                    mods += 1
            elif mode == "shrink":
                # a module is dropped from sys.modules while a class is defined
                if loaded < n and mods > 0:
                    loaded += 1
                    mods -= 1
            elif mode == "grow-unstamped":
                if loaded < n:
                    loaded += 1
                    if rng.random() < 0.4:
                        mods += 1
            else:
                if loaded < n and rng.random() < 0.5:
                    loaded += 1
                mods = max(0, mods + rng.choice([-1, 1]))
        steps.append({**W(loaded, mods), "op": rand_op(rng, universe, loaded, keys)})
    return steps


def exhaustive(pool, maxlen):
    for k in range(1, maxlen + 1):
        yield from itertools.product(pool, repeat=k)


# ---------------------------------------------------------------- object trees
def all_fields(universe, c):
    chain = []
    k = c
    while k is not None:
        chain.append(k)
        k = universe[k]["base"]
    out = []
    for k in reversed(chain):
        out.extend(universe[k]["fields"])
    return out


def class_bad(d):
    """unsupported typing, or a compound field with the same type in two choices"""
    if d["bad"]:
        return True
    for f in d["fields"]:
        seen = [a["cls"] for a in f.get("alts", ())]
        if len(seen) != len(set(seen)):
            return True
    return False


def chain_bad(universe, c):
    k = c
    while k is not None:
        if class_bad(universe[k]):
            return True
        k = universe[k]["base"]
    return False


def rand_tree(rng, universe, c, loaded=None, depth=3, field=0):
    """Type-correct token list for an instance of class c (fields ascending)."""
    loaded = len(universe) if loaded is None else loaded
    toks = [["enter", field, c]]
    if not chain_bad(universe, c):
        for i, f in enumerate(all_fields(universe, c)):
            if f["kind"] == "elements":
                if depth > 0:
                    members = [a["cls"] for a in f["alts"]]
                    pool = members + [j for j in range(loaded) if universe[j]["model"] and not chain_bad(universe, j)
                                      and (universe[j]["base"] in members or rng.random() < 0.15)]
                    for _ in range(rng.choice([0, 1, 1, 2, 3])):
                        toks.extend(rand_tree(rng, universe, rng.choice(pool), loaded, depth - 1, i))
            elif f["cls"] is not None:
                if depth > 0 and f["cls"] < loaded and rng.random() < 0.7:
                    # the declared class or, sometimes, a subclass of it (written with an xsi:type)
                    subs = [j for j in range(loaded) if universe[j]["base"] == f["cls"] and universe[j]["model"]
                            and not chain_bad(universe, j)]
                    c2 = rng.choice(subs) if subs and rng.random() < 0.3 else f["cls"]
                    toks.extend(rand_tree(rng, universe, c2, loaded, depth - 1, i))
            elif rng.random() < 0.7:
                toks.append(["leaf", i])
    toks.append(["leave"])
    return toks


def inject_unknown_xml(xml):
    """`xml` with an unknown child element appended to the root element (None if the root is empty-tagged)"""
    i = xml.rfind("</")
    if i < 0:
        return None
    return xml[:i] + "<zz-unknown a=\"1\">t<zz-deeper/></zz-unknown>" + xml[i:]


def inject_unknown_json(js):
    import json

    try:
        d = json.loads(js)
    except ValueError:
        return None
    if not isinstance(d, dict):
        return None
    d["zz_unknown"] = {"t": 1}
    return json.dumps(d)


def rand_docs(rng, universe):
    """Document-level calls (inputs rendered once with fresh real instances)."""
    from xsdata.formats.dataclass.serializers import JsonSerializer, XmlSerializer

    realm = Realm(universe)
    ops = []
    try:
        realm.set_world(len(universe), 0)
        roots = [i for i, d in enumerate(universe) if d["model"] and not chain_bad(universe, i)]
        for c in rng.sample(roots, min(len(roots), 3)):
            toks = rand_tree(rng, universe, c)
            ops.append({"k": "xml_render", "toks": toks})
            ops.append({"k": "json_render", "toks": toks})
            # the other serializer kinds, each through its one shared instance
            for kind in rng.sample(["xml_render_native", "xml_render_lxml", "tree_render", "dict_encode", "pycode_render"], 2):
                ops.append({"k": kind, "toks": toks})
            try:
                xml = XmlSerializer(context=realm.context()).render(realm.obj(toks))
                js = JsonSerializer(context=realm.context()).render(realm.obj(toks))
            except Exception:  # noqa: BLE001
                continue
            ops.append({"k": "xml_parse", "doc": xml, "c": c})
            ops.append({"k": "xml_parse", "doc": xml, "c": None, "root": c})
            # the same document with unknown content, read leniently and strictly through the
            # same instances (a seeded change remembered "unknown" names on the shared metadata
            # during a lenient parse and skipped them in later strict parses)
            inj = inject_unknown_xml(xml)
            if inj:
                for strict in (False, True):
                    ops.append({"k": "xml_parse", "doc": inj, "c": c, "cfg": {"fail_on_unknown_properties": strict}})
            injj = inject_unknown_json(js)
            if injj:
                for strict in (False, True):
                    ops.append({"k": "json_parse", "doc": injj, "c": c, "cfg": {"fail_on_unknown_properties": strict}})
            ops.append({"k": "json_parse", "doc": js, "c": c})
            ops.append({"k": "json_parse_any", "doc": js, "c": None, "root": c})
            ops.append({"k": "dict_decode", "doc": js, "c": c})
        # documents rooted at an unbuildable indexed class (fresh: XmlContextError on use; after a
        # class-less JSON parse has evicted the class: no class found, or a buildable namesake)
        for i, d in enumerate(universe):
            if d["model"] and chain_bad(universe, i) and ops:
                tq = realm.context().get_builder().build_class_meta(realm.cls(i)).target_qname
                if tq:
                    if tq.startswith("{"):
                        uri, _, local = tq[1:].partition("}")
                        doc = f'<p:{local} xmlns:p="{uri}"/>'
                    else:
                        doc = f"<{tq}/>"
                    ops.append({"k": "xml_parse", "doc": doc, "c": None, "root": i})
        if ops:
            ops.append({"k": "xml_parse", "doc": "<nope", "c": roots[0]})
            ops.append({"k": "xml_parse", "doc": "<unknown-root/>", "c": None})
            ops.append({"k": "json_parse", "doc": "{\"zz\": 1}", "c": roots[0]})
            ops.append({"k": "reset"})
            ops.append(op_q("find_type", "Nope"))
    finally:
        realm.close()
    return ops


def op_max_class(op):
    """the largest class id a document-level op needs to exist"""
    m = -1
    if op.get("c") is not None:
        m = max(m, op["c"])
    if op.get("root") is not None:
        m = max(m, op["root"])
    for t in op.get("toks", ()):
        if t[0] == "enter":
            m = max(m, t[2])
    return m


def rand_worlds(rng, n, length, fixed=False):
    """A sequence of worlds for a document-level history: classes (and modules) may appear
    between the calls, with or without a change of len(sys.modules)."""
    if fixed:
        return [W(n, 0) for _ in range(length)]
    mode = rng.choice(["grow", "grow-unstamped", "grow-unstamped", "shrink"])
    loaded = rng.randint(1, n)
    mods = n if mode == "shrink" else 0
    out = []
    for _ in range(length):
        if rng.random() < 0.5 and loaded < n:
            loaded += 1
            if mode == "grow":
                mods += 1
            elif mode == "shrink":
                mods = max(0, mods - 1)
            elif rng.random() < 0.3:
                mods += 1
        out.append(W(loaded, mods))
    return out
