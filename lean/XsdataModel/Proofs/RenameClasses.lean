/- C07 — RenameDuplicateClasses: after the handler no two classes share a comparison key. -/
import XsdataModel.Proofs.Rename

namespace Proofs.RenameClasses
open Py Xs.Text Xs.Filters Xs.Rename Proofs.Names Proofs.Rename

/-! ### qualified names -/

theorem tw_append (p : Char → Bool) (l r : Str) (x : Char) (hl : ∀ a ∈ l, p a = true) (hx : p x = false) :
    (l ++ x :: r).takeWhile p = l ∧ (l ++ x :: r).dropWhile p = x :: r := by
  induction l with
  | nil => simp [List.takeWhile_cons, List.dropWhile_cons, hx]
  | cons a l ih =>
    have ha : p a = true := hl a (by simp)
    obtain ⟨i1, i2⟩ := ih (fun y hy => hl y (by simp [hy]))
    simp only [List.cons_append, List.takeWhile_cons, List.dropWhile_cons, ha, if_true]
    exact ⟨by rw [i1], i2⟩

theorem dw_decomp (p : Char → Bool) (v : Str) :
    v.dropWhile p = [] ∨ ∃ a t, v.dropWhile p = a :: t ∧ p a = false ∧
      v = v.takeWhile p ++ a :: t ∧ ∀ y ∈ v.takeWhile p, p y = true := by
  induction v with
  | nil => left; rfl
  | cons b v ih =>
    by_cases hb : p b = true
    · rcases ih with h | ⟨a, t, h1, h2, h3, h4⟩
      · left; simp [List.dropWhile_cons, hb, h]
      · right
        refine ⟨a, t, by simp [List.dropWhile_cons, hb, h1], h2, ?_, ?_⟩
        · simp only [List.takeWhile_cons, hb, if_true, List.cons_append]
          rw [← h3]
        · intro y hy
          simp only [List.takeWhile_cons, hb, if_true] at hy
          rcases List.mem_cons.1 hy with rfl | hy
          · exact hb
          · exact h4 y hy
    · right
      have hb' : p b = false := by simpa using hb
      exact ⟨b, v, by simp [List.dropWhile_cons, hb'], hb', by simp [List.takeWhile_cons, hb'],
        by simp [List.takeWhile_cons, hb']⟩

theorem splitOnce_append (l r : Str) (sep : Char) (hl : ∀ x ∈ l, x ≠ sep) (hr : r ≠ []) :
    splitOnce (l ++ sep :: r) sep = (some l, r) := by
  obtain ⟨h1, h2⟩ := tw_append (fun x => decide (x ≠ sep)) l r sep
    (fun a ha => by simpa using hl a ha) (by simp)
  unfold splitOnce
  rw [h1, h2]
  cases r with
  | nil => exact absurd rfl hr
  | cons a b => simp

theorem splitOnce_some (v l r : Str) (sep : Char) (h : splitOnce v sep = (some l, r)) :
    v = l ++ sep :: r ∧ (∀ x ∈ l, x ≠ sep) ∧ r ≠ [] := by
  unfold splitOnce at h
  rcases dw_decomp (fun x => decide (x ≠ sep)) v with hd | ⟨a, t, hd, ha, hv, hall⟩
  · rw [hd] at h; simp at h
  · rw [hd] at h
    have hasep : a = sep := by simpa using ha
    subst hasep
    cases t with
    | nil => simp at h
    | cons b t =>
      simp at h
      obtain ⟨hl, hr⟩ := h
      have hfun : (fun x : Char => !decide (x = a)) = (fun x => decide (x ≠ a)) := by
        funext x; simp
      rw [hfun] at hl
      subst hr
      refine ⟨?_, ?_, by simp⟩
      · rw [← hl]; exact hv
      · intro x hx
        rw [← hl] at hx
        simpa using hall x hx

/-- a qualified name as the codegen produces them: `{ns}name` with both parts non-empty, or a name
that does not start with `{` -/
def wfQ (q : Str) : Bool :=
  match splitQName q with
  | (some _, _) => true
  | (none, _) => q.head? != some '{'

theorem splitQName_plain (q : Str) (h : q.head? ≠ some '{') : splitQName q = (none, q) := by
  unfold splitQName
  split
  · simp at h
  · rfl

theorem splitQName_braced (ns n : Str) (hne : ns ≠ []) (hns : ∀ x ∈ ns, x ≠ '}') (hn : n ≠ []) :
    splitQName ('{' :: ns ++ '}' :: n) = (some ns, n) := by
  unfold splitQName
  simp only [List.cons_append]
  rw [splitOnce_append ns n '}' hns hn]
  cases ns with
  | nil => exact absurd rfl hne
  | cons c cs => rfl

/-- shape of a well-formed qname -/
theorem wfQ_cases (q : Str) (h : wfQ q = true) :
    (splitQName q = (none, q) ∧ q.head? ≠ some '{') ∨
    (∃ ns n, q = '{' :: ns ++ '}' :: n ∧ ns ≠ [] ∧ (∀ x ∈ ns, x ≠ '}') ∧ n ≠ [] ∧ splitQName q = (some ns, n)) := by
  unfold wfQ at h
  split at h
  · rename_i ns n hs
    right
    unfold splitQName at hs
    split at hs
    · rename_i rest
      split at hs
      · rename_i c cs rr hso
        simp only [Prod.mk.injEq, Option.some.injEq] at hs
        obtain ⟨h1, h2⟩ := hs
        subst h1; subst h2
        obtain ⟨hv, hl, hr⟩ := splitOnce_some rest (c :: cs) rr '}' hso
        refine ⟨c :: cs, rr, by rw [hv]; simp, by simp, hl, hr, ?_⟩
        rw [hv]
        exact splitQName_braced (c :: cs) rr (by simp) hl hr
      · cases hs
    · cases hs
  · left
    have hh : q.head? ≠ some '{' := by simpa using h
    exact ⟨splitQName_plain q hh, hh⟩

/-- a name extended at the end keeps its namespace; the local part is extended -/
theorem splitQName_extend (q s : Str) (h : wfQ q = true) (hs : s ≠ []) (hs0 : s.head? ≠ some '{') :
    splitQName (q ++ s) = ((splitQName q).1, (splitQName q).2 ++ s) ∧ wfQ (q ++ s) = true := by
  rcases wfQ_cases q h with ⟨hq, hh⟩ | ⟨ns, n, rfl, hne, hns, hn, hq⟩
  · have hh' : (q ++ s).head? ≠ some '{' := by
      cases q with
      | nil => simpa using hs0
      | cons a b => simpa using hh
    rw [hq]
    refine ⟨splitQName_plain _ hh', ?_⟩
    unfold wfQ
    rw [splitQName_plain _ hh']
    simpa using hh'
  · have heq : ('{' :: ns ++ '}' :: n) ++ s = '{' :: ns ++ '}' :: (n ++ s) := by simp
    have hn' : n ++ s ≠ [] := by simp [hn]
    rw [hq, heq, splitQName_braced ns (n ++ s) hne hns hn']
    refine ⟨rfl, ?_⟩
    unfold wfQ
    rw [splitQName_braced ns (n ++ s) hne hns hn']

/-- `build_qname(namespace, new_name)` of the parts of a well-formed name splits back -/
theorem splitQName_build (q n' : Str) (h : wfQ q = true) (hn : n' ≠ [])
    (hplain : (splitQName q).1 = none → n'.head? ≠ some '{') :
    splitQName (buildQName (splitQName q).1 n') = ((splitQName q).1, n') ∧
      wfQ (buildQName (splitQName q).1 n') = true := by
  rcases wfQ_cases q h with ⟨hq, _⟩ | ⟨ns, n, rfl, hne, hns, _, hq⟩
  · rw [hq] at hplain ⊢
    have hh := hplain rfl
    simp only [buildQName]
    refine ⟨splitQName_plain _ hh, ?_⟩
    unfold wfQ
    rw [splitQName_plain _ hh]
    simpa using hh
  · rw [hq]
    cases ns with
    | nil => exact absurd rfl hne
    | cons c cs =>
      simp only [buildQName]
      have : ['{'] ++ (c :: cs) ++ ['}'] ++ n' = '{' :: (c :: cs) ++ '}' :: n' := by simp
      rw [this, splitQName_braced (c :: cs) n' (by simp) hns hn]
      refine ⟨rfl, ?_⟩
      unfold wfQ
      rw [splitQName_braced (c :: cs) n' (by simp) hns hn]

/-! ### keys, settled positions, the invariant -/

/-- the comparison key of a class: `alnum(name)` or `alnum(qname)` -/
def K (un : Bool) (c : Cls) : Str := alnum (getter un c)

/-- no other position carries the key of position `p` -/
def Settled (un : Bool) (cur : List Cls) (p : Nat) : Prop :=
  ∀ (q : Nat) (c d : Cls), q ≠ p → cur[p]? = some c → cur[q]? = some d → K un d ≠ K un c

def AllIn (un : Bool) (cur : List Cls) (R : List Str) : Prop :=
  ∀ (p : Nat) (c : Cls), cur[p]? = some c → K un c ∈ R

structure Inv (un : Bool) (cs : List Cls) (st : RState) : Prop where
  len : st.cur.length = cs.length
  res : st.reserved ≠ [] → AllIn un st.cur st.reserved
  wf : ∀ (p : Nat) (c : Cls), st.cur[p]? = some c → wfQ c.qname = true
  orig : ∀ (p : Nat), st.cur[p]? = cs[p]? ∨ Settled un st.cur p

theorem allIn_built (un : Bool) (cs : List Cls) (st : RState) (h : Inv un cs st) :
    AllIn un st.cur (builtReserved un st) := by
  unfold builtReserved
  by_cases h0 : st.reserved.isEmpty = true
  · simp only [h0, if_true]
    intro p c hc
    exact List.mem_map.2 ⟨c, List.mem_of_getElem? hc, rfl⟩
  · simp only [h0]
    apply h.res
    intro h1; simp [h1] at h0

theorem setQName_length (cur : List Cls) (i : Nat) (q : Str) : (setQName cur i q).length = cur.length := by
  simp [setQName]

theorem setQName_ne (cur : List Cls) (i p : Nat) (q : Str) (h : p ≠ i) : (setQName cur i q)[p]? = cur[p]? := by
  unfold setQName
  exact List.getElem?_modify_ne _ _ (fun h' => h h'.symm)

theorem setQName_eq (cur : List Cls) (i : Nat) (q : Str) (c : Cls) (h : cur[i]? = some c) :
    (setQName cur i q)[i]? = some { c with qname := q } := by
  unfold setQName
  simp [h]

/-- the heart: giving position `i` a key outside a set that contains every current key settles `i`,
keeps every settled position settled, and keeps the invariant -/
theorem step_fresh (un : Bool) (cs : List Cls) (st : RState) (h : Inv un cs st) (i : Nat) (c : Cls)
    (hc : st.cur[i]? = some c) (q : Str) (hq : wfQ q = true)
    (hk : (builtReserved un st).contains (K un { c with qname := q }) = false) :
    Inv un cs ⟨setQName st.cur i q, K un { c with qname := q } :: builtReserved un st⟩ ∧
    Settled un (setQName st.cur i q) i ∧
    (∀ p, Settled un st.cur p → Settled un (setQName st.cur i q) p) := by
  have hall := allIn_built un cs st h
  have hknot : ∀ (p : Nat) (d : Cls), st.cur[p]? = some d → K un d ≠ K un { c with qname := q } := by
    intro p d hd heq
    have := hall p d hd
    rw [heq] at this
    have : (builtReserved un st).contains (K un { c with qname := q }) = true := by simpa using this
    rw [hk] at this; cases this
  have hset : Settled un (setQName st.cur i q) i := by
    intro p c' d hp hc' hd
    rw [setQName_eq st.cur i q c hc] at hc'
    cases hc'
    rw [setQName_ne st.cur i p q hp] at hd
    exact hknot p d hd
  have hpers : ∀ p, Settled un st.cur p → Settled un (setQName st.cur i q) p := by
    intro p hp
    by_cases hpi : p = i
    · subst hpi; exact hset
    · intro r c' d hr hc' hd
      rw [setQName_ne st.cur i p q hpi] at hc'
      by_cases hri : r = i
      · subst hri
        rw [setQName_eq st.cur r q c hc] at hd
        cases hd
        exact fun heq => hknot p c' hc' heq.symm
      · rw [setQName_ne st.cur i r q hri] at hd
        exact hp r c' d hr hc' hd
  refine ⟨⟨by simp [setQName_length, h.len], ?_, ?_, ?_⟩, hset, hpers⟩
  · intro _ p d hd
    by_cases hpi : p = i
    · subst hpi
      rw [setQName_eq st.cur p q c hc] at hd
      cases hd
      simp
    · rw [setQName_ne st.cur i p q hpi] at hd
      exact List.mem_cons_of_mem _ (hall p d hd)
  · intro p d hd
    by_cases hpi : p = i
    · subst hpi
      rw [setQName_eq st.cur p q c hc] at hd
      cases hd
      exact hq
    · rw [setQName_ne st.cur i p q hpi] at hd
      exact h.wf p d hd
  · intro p
    by_cases hpi : p = i
    · subst hpi; exact Or.inr hset
    · rcases h.orig p with ho | ho
      · left; simp only []; rw [setQName_ne st.cur i p q hpi]; exact ho
      · exact Or.inr (hpers p ho)

theorem indexed_head (name : Str) (k : Nat) (h : name.head? ≠ some '{') :
    (indexed name k).head? ≠ some '{' := by
  unfold indexed
  cases name with
  | nil => simp
  | cons a b => simpa using h

theorem indexed_ne_nil (name : Str) (k : Nat) : indexed name k ≠ [] := by
  unfold indexed; simp

/-- `add_numeric_suffix` settles the position it renames -/
theorem addNumericSuffix_spec (un : Bool) (cs : List Cls) (st : RState) (h : Inv un cs st) (i : Nat)
    (c : Cls) (hc : st.cur[i]? = some c) :
    Inv un cs (addNumericSuffix un st i) ∧ Settled un (addNumericSuffix un st i).cur i ∧
    (∀ p, Settled un st.cur p → Settled un (addNumericSuffix un st i).cur p) := by
  have hwf := h.wf i c hc
  obtain ⟨k, hk, _, hfree⟩ := nextQNameIdx_spec un (splitQName c.qname).1 (splitQName c.qname).2
    (builtReserved un st) 1
  have hplain : (splitQName c.qname).1 = none →
      (indexed (splitQName c.qname).2 k).head? ≠ some '{' := by
    intro hn
    rcases wfQ_cases c.qname hwf with ⟨hq, hh⟩ | ⟨ns, n, _, _, _, _, hq⟩
    · rw [hq]; exact indexed_head _ k hh
    · rw [hq] at hn; cases hn
  obtain ⟨hsplit, hwfq⟩ := splitQName_build c.qname (indexed (splitQName c.qname).2 k) hwf
    (indexed_ne_nil _ k) hplain
  have hkey : K un { c with qname := buildQName (splitQName c.qname).1 (indexed (splitQName c.qname).2 k) } =
      alnum (if un then indexed (splitQName c.qname).2 k
        else buildQName (splitQName c.qname).1 (indexed (splitQName c.qname).2 k)) := by
    unfold K getter Cls.name
    simp only [hsplit]
  have hout : addNumericSuffix un st i =
      ⟨setQName st.cur i (buildQName (splitQName c.qname).1 (indexed (splitQName c.qname).2 k)),
       K un { c with qname := buildQName (splitQName c.qname).1 (indexed (splitQName c.qname).2 k) } ::
         builtReserved un st⟩ := by
    unfold addNumericSuffix
    simp only [hc, hk, hkey]
  rw [hout]
  exact step_fresh un cs st h i c hc _ hwfq (by rw [hkey]; exact hfree)

theorem abstract_head : "_abstract".toList ≠ [] ∧ ("_abstract".toList).head? ≠ some '{' := by decide

/-- `add_abstract_suffix` settles the position it renames -/
theorem addAbstractSuffix_spec (un : Bool) (cs : List Cls) (st : RState) (h : Inv un cs st) (i : Nat)
    (c : Cls) (hc : st.cur[i]? = some c) :
    Inv un cs (addAbstractSuffix un st i c) ∧ Settled un (addAbstractSuffix un st i c).cur i ∧
    (∀ p, Settled un st.cur p → Settled un (addAbstractSuffix un st i c).cur p) := by
  have hwf := h.wf i c hc
  obtain ⟨_, hwfq⟩ := splitQName_extend c.qname "_abstract".toList hwf abstract_head.1 abstract_head.2
  unfold addAbstractSuffix
  generalize c.qname ++ "_abstract".toList = newq at hwfq ⊢
  simp only []
  by_cases hcon : (builtReserved un st).contains
      (alnum (if un = true then (splitQName newq).2 else newq)) = true
  · rw [if_pos hcon]
    -- numeric fallback on the state whose reserved set has been built
    have h2 : Inv un cs { st with reserved := builtReserved un st } :=
      ⟨h.len, fun _ => allIn_built un cs st h, h.wf, h.orig⟩
    exact addNumericSuffix_spec un cs _ h2 i c hc
  · rw [if_neg hcon]
    have hkey : K un { c with qname := newq } = alnum (if un = true then (splitQName newq).2 else newq) := by
      unfold K getter Cls.name
      rfl
    rw [← hkey]
    exact step_fresh un cs st h i c hc newq hwfq (by rw [hkey]; simpa using hcon)

/-! ### one group, all groups -/

theorem fold_numeric (un : Bool) (cs : List Cls) (total : Nat) :
    ∀ (l : List (Nat × Cls)) (st : RState), Inv un cs st → (∀ ic ∈ l, ic.1 < cs.length) →
      Inv un cs (l.foldl (fun st ic =>
        if !ic.2.isElement || total > 1 then addNumericSuffix un st ic.1 else st) st) ∧
      (∀ p, Settled un st.cur p → Settled un (l.foldl (fun st ic =>
        if !ic.2.isElement || total > 1 then addNumericSuffix un st ic.1 else st) st).cur p) ∧
      (∀ ic ∈ l, (!ic.2.isElement || decide (total > 1)) = true → Settled un (l.foldl (fun st ic =>
        if !ic.2.isElement || total > 1 then addNumericSuffix un st ic.1 else st) st).cur ic.1) := by
  intro l
  induction l with
  | nil => intro st h _; exact ⟨h, fun _ hp => hp, by simp⟩
  | cons ic l ih =>
    intro st h hlt
    simp only [List.foldl_cons]
    have hi : ic.1 < st.cur.length := by rw [h.len]; exact hlt ic (by simp)
    obtain ⟨c, hc⟩ : ∃ c, st.cur[ic.1]? = some c := ⟨_, List.getElem?_eq_getElem hi⟩
    by_cases hcond : (!ic.2.isElement || decide (total > 1)) = true
    · simp only [hcond, if_true]
      obtain ⟨h1, hs1, hp1⟩ := addNumericSuffix_spec un cs st h ic.1 c hc
      obtain ⟨i1, i2, i3⟩ := ih _ h1 (fun x hx => hlt x (by simp [hx]))
      refine ⟨i1, fun p hp => i2 p (hp1 p hp), ?_⟩
      intro x hx hxc
      rcases List.mem_cons.1 hx with rfl | hx
      · exact i2 _ hs1
      · exact i3 x hx hxc
    · simp only [hcond]
      obtain ⟨i1, i2, i3⟩ := ih _ h (fun x hx => hlt x (by simp [hx]))
      refine ⟨i1, i2, ?_⟩
      intro x hx hxc
      rcases List.mem_cons.1 hx with rfl | hx
      · exact absurd hxc hcond
      · exact i3 x hx hxc

theorem two_mem_length {α} (l : List α) (a b : α) (ha : a ∈ l) (hb : b ∈ l) (hne : a ≠ b) : 2 ≤ l.length := by
  match l, ha, hb with
  | [], ha, _ => cases ha
  | [x], ha, hb => simp at ha hb; exact absurd (ha.trans hb.symm) hne
  | _ :: _ :: _, _, _ => simp

/-- processing one group of classes with the same key: at most one of them is left unsettled -/
theorem renameGroup_spec (un : Bool) (cs : List Cls) (st : RState) (h : Inv un cs st) (idxs : List Nat)
    (hlt : ∀ i ∈ idxs, i < cs.length) :
    Inv un cs (renameGroup un st idxs) ∧
    (∀ p, Settled un st.cur p → Settled un (renameGroup un st idxs).cur p) ∧
    (∀ p q, p ∈ idxs → q ∈ idxs → p ≠ q →
      Settled un (renameGroup un st idxs).cur p ∨ Settled un (renameGroup un st idxs).cur q) := by
  obtain ⟨cls, hcls⟩ : ∃ cls, cls = idxs.filterMap (fun i => st.cur[i]?.map (fun c => (i, c))) := ⟨_, rfl⟩
  have hm : ∀ (p : Nat) (c : Cls), (p, c) ∈ cls ↔ p ∈ idxs ∧ st.cur[p]? = some c := by
    intro p c
    rw [hcls, List.mem_filterMap]
    constructor
    · rintro ⟨i, hi, hic⟩
      cases hci : st.cur[i]? with
      | none => simp [hci] at hic
      | some d =>
        simp [hci] at hic
        obtain ⟨rfl, rfl⟩ := hic
        exact ⟨hi, hci⟩
    · rintro ⟨hp, hc⟩
      exact ⟨p, hp, by simp [hc]⟩
  have hex : ∀ p ∈ idxs, ∃ c, (p, c) ∈ cls := by
    intro p hp
    have hpl : p < st.cur.length := by rw [h.len]; exact hlt p hp
    exact ⟨st.cur[p], (hm p _).2 ⟨hp, List.getElem?_eq_getElem hpl⟩⟩
  unfold renameGroup
  simp only [← hcls]
  split
  · rename_i _ x y i c habs
    have hic : (i, c) ∈ [x, y] := by
      have : (i, c) ∈ [x, y].filter (·.2.abstract) := by rw [habs]; simp
      exact (List.mem_filter.1 this).1
    obtain ⟨h1, hs1, hp1⟩ := addAbstractSuffix_spec un cs st h i c ((hm i c).1 hic).2
    refine ⟨h1, hp1, ?_⟩
    intro p q hp hq hne
    obtain ⟨cp, hcp⟩ := hex p hp
    obtain ⟨cq, hcq⟩ := hex q hq
    simp only [List.mem_cons, List.mem_nil_iff, or_false] at hic hcp hcq
    have hpq : (p, cp) ≠ (q, cq) := fun he => hne (congrArg Prod.fst he)
    rcases hcp with hcp | hcp <;> rcases hcq with hcq | hcq
    · exact absurd (hcp.trans hcq.symm) hpq
    · rcases hic with hic | hic
      · left; have : i = p := congrArg Prod.fst (hic.trans hcp.symm); rw [← this]; exact hs1
      · right; have : i = q := congrArg Prod.fst (hic.trans hcq.symm); rw [← this]; exact hs1
    · rcases hic with hic | hic
      · right; have : i = q := congrArg Prod.fst (hic.trans hcq.symm); rw [← this]; exact hs1
      · left; have : i = p := congrArg Prod.fst (hic.trans hcp.symm); rw [← this]; exact hs1
    · exact absurd (hcp.trans hcq.symm) hpq
  · rename_i cls _ _ _
    obtain ⟨total, htot⟩ : ∃ t, t = (cls.filter (·.2.isElement)).length := ⟨_, rfl⟩
    simp only [← htot]
    have hsl : ∀ ic ∈ cls.mergeSort (fun a b => strLe a.2.name b.2.name), ic.1 < cs.length := by
      intro ic hic
      rw [List.mem_mergeSort] at hic
      exact hlt ic.1 ((hm ic.1 ic.2).1 hic).1
    obtain ⟨i1, i2, i3⟩ := fold_numeric un cs total _ st h hsl
    refine ⟨i1, i2, ?_⟩
    intro p q hp hq hne
    obtain ⟨cp, hcp⟩ := hex p hp
    obtain ⟨cq, hcq⟩ := hex q hq
    by_cases hcondp : (!cp.isElement || decide (total > 1)) = true
    · left; exact i3 (p, cp) (List.mem_mergeSort.2 hcp) hcondp
    · by_cases hcondq : (!cq.isElement || decide (total > 1)) = true
      · right; exact i3 (q, cq) (List.mem_mergeSort.2 hcq) hcondq
      · exfalso
        simp only [Bool.or_eq_true, Bool.not_eq_true', decide_eq_true_eq, not_or, Bool.not_eq_false] at hcondp hcondq
        have h2 := two_mem_length (cls.filter (·.2.isElement)) (p, cp) (q, cq)
          (List.mem_filter.2 ⟨hcp, hcondp.1⟩) (List.mem_filter.2 ⟨hcq, hcondq.1⟩)
          (fun he => hne (congrArg Prod.fst he))
        rw [← htot] at h2
        omega

theorem outer_fold (un : Bool) (cs : List Cls) (order : List Nat) (key : Nat → Str)
    (horder : ∀ i ∈ order, i < cs.length) :
    ∀ (ks : List Str) (st : RState), Inv un cs st →
      Inv un cs (ks.foldl (fun st k =>
        if (order.filter (fun i => key i = k)).length > 1
        then renameGroup un st (order.filter (fun i => key i = k)) else st) st) ∧
      (∀ p, Settled un st.cur p → Settled un (ks.foldl (fun st k =>
        if (order.filter (fun i => key i = k)).length > 1
        then renameGroup un st (order.filter (fun i => key i = k)) else st) st).cur p) ∧
      (∀ k ∈ ks, ∀ p q, p ∈ order → q ∈ order → key p = k → key q = k → p ≠ q →
        Settled un (ks.foldl (fun st k =>
          if (order.filter (fun i => key i = k)).length > 1
          then renameGroup un st (order.filter (fun i => key i = k)) else st) st).cur p ∨
        Settled un (ks.foldl (fun st k =>
          if (order.filter (fun i => key i = k)).length > 1
          then renameGroup un st (order.filter (fun i => key i = k)) else st) st).cur q) := by
  intro ks
  induction ks with
  | nil => intro st h; exact ⟨h, fun _ hp => hp, by simp⟩
  | cons k ks ih =>
    intro st h
    simp only [List.foldl_cons]
    obtain ⟨g, hg⟩ : ∃ g, g = order.filter (fun i => key i = k) := ⟨_, rfl⟩
    simp only [← hg]
    have hglt : ∀ i ∈ g, i < cs.length := fun i hi => horder i (by rw [hg] at hi; exact (List.mem_filter.1 hi).1)
    by_cases hlen : g.length > 1
    · simp only [hlen, if_true]
      obtain ⟨g1, g2, g3⟩ := renameGroup_spec un cs st h g hglt
      obtain ⟨i1, i2, i3⟩ := ih _ g1
      refine ⟨i1, fun p hp => i2 p (g2 p hp), ?_⟩
      intro k' hk' p q hp hq hkp hkq hne
      rcases List.mem_cons.1 hk' with rfl | hk'
      · have hpg : p ∈ g := by rw [hg]; exact List.mem_filter.2 ⟨hp, by simpa using hkp⟩
        have hqg : q ∈ g := by rw [hg]; exact List.mem_filter.2 ⟨hq, by simpa using hkq⟩
        rcases g3 p q hpg hqg hne with hs | hs
        · exact Or.inl (i2 p hs)
        · exact Or.inr (i2 q hs)
      · exact i3 k' hk' p q hp hq hkp hkq hne
    · simp only [hlen, if_false]
      obtain ⟨i1, i2, i3⟩ := ih _ h
      refine ⟨i1, i2, ?_⟩
      intro k' hk' p q hp hq hkp hkq hne
      rcases List.mem_cons.1 hk' with rfl | hk'
      · exfalso
        have hpg : p ∈ g := by rw [hg]; exact List.mem_filter.2 ⟨hp, by simpa using hkp⟩
        have hqg : q ∈ g := by rw [hg]; exact List.mem_filter.2 ⟨hq, by simpa using hkq⟩
        have := two_mem_length g p q hpg hqg hne
        omega
      · exact i3 k' hk' p q hp hq hkp hkq hne

theorem mem_containerOrder (cs : List Cls) (p : Nat) : p ∈ containerOrder cs ↔ p < cs.length := by
  unfold containerOrder
  simp only [List.mem_flatMap, List.mem_filter, List.mem_range]
  constructor
  · rintro ⟨_, _, hp, _⟩; exact hp
  · intro hp
    refine ⟨cs[p].qname, ?_, hp, ?_⟩
    · rw [List.mem_eraseDups]
      exact List.mem_map.2 ⟨cs[p], List.getElem_mem hp, rfl⟩
    · simp [hp]

/-- **after `RenameDuplicateClasses` no two classes share a comparison key** (well-formed qnames) -/
theorem renameClasses_nodup_aux (un : Bool) (cs : List Cls) (hwf : ∀ c ∈ cs, wfQ c.qname = true) :
    let order := containerOrder cs
    let key := fun i => (cs[i]?.map (fun c => alnum (getter un c))).getD []
    let keys := (order.map key).eraseDups
    let st := keys.foldl (fun st k =>
      let idxs := order.filter (fun i => key i = k)
      if idxs.length > 1 then renameGroup un st idxs else st) (⟨cs, []⟩ : RState)
    (st.cur.map (K un)).Nodup := by
  intro order key keys st
  have h0 : Inv un cs ⟨cs, []⟩ :=
    ⟨rfl, fun h => absurd rfl h, fun p c hc => hwf c (List.mem_of_getElem? hc), fun _ => Or.inl rfl⟩
  have horder : ∀ i ∈ order, i < cs.length := fun i hi => (mem_containerOrder cs i).1 hi
  obtain ⟨i1, _, i3⟩ := outer_fold un cs order key horder keys ⟨cs, []⟩ h0
  change Inv un cs st at i1
  rw [List.nodup_iff_pairwise_ne, List.pairwise_iff_getElem]
  intro i j hi hj hij heq
  simp only [List.length_map] at hi hj
  simp only [List.getElem_map] at heq
  have hci : st.cur[i]? = some st.cur[i] := List.getElem?_eq_getElem hi
  have hcj : st.cur[j]? = some st.cur[j] := List.getElem?_eq_getElem hj
  have hnot_i : ¬ Settled un st.cur i := fun hs => hs j _ _ (by omega) hci hcj heq.symm
  have hnot_j : ¬ Settled un st.cur j := fun hs => hs i _ _ (by omega) hcj hci heq
  have hoi : st.cur[i]? = cs[i]? := (i1.orig i).resolve_right hnot_i
  have hoj : st.cur[j]? = cs[j]? := (i1.orig j).resolve_right hnot_j
  have hil : i < cs.length := by rw [← i1.len]; exact hi
  have hjl : j < cs.length := by rw [← i1.len]; exact hj
  have hki : key i = K un st.cur[i] := by
    show (cs[i]?.map (fun c => alnum (getter un c))).getD [] = _
    rw [← hoi, hci]; rfl
  have hkj : key j = K un st.cur[j] := by
    show (cs[j]?.map (fun c => alnum (getter un c))).getD [] = _
    rw [← hoj, hcj]; rfl
  have hmem : key i ∈ keys := by
    show key i ∈ (order.map key).eraseDups
    rw [List.mem_eraseDups]
    exact List.mem_map.2 ⟨i, (mem_containerOrder cs i).2 hil, rfl⟩
  rcases i3 (key i) hmem i j ((mem_containerOrder cs i).2 hil) ((mem_containerOrder cs j).2 hjl) rfl
      (by rw [hkj, hki, heq]) (by omega) with hs | hs
  · exact hnot_i hs
  · exact hnot_j hs

/-! ### inner classes of one class -/

theorem renameInners_spec : ∀ (names reserved : List Str),
    ((renameInners names reserved).map alnum).Nodup ∧
    ∀ x ∈ (renameInners names reserved).map alnum, x ∉ reserved
  | [], _ => by simp [renameInners]
  | n :: rest, reserved => by
    obtain ⟨n', hn', hfree⟩ : ∃ n', (if reserved.contains (alnum n) then (uniqueName n reserved).getD n else n) = n' ∧
        reserved.contains (alnum n') = false := by
      by_cases hc : reserved.contains (alnum n) = true
      · obtain ⟨m, hm, hf⟩ := uniqueName_fresh n reserved
        exact ⟨m, by rw [if_pos hc, hm]; rfl, hf⟩
      · exact ⟨n, by rw [if_neg hc], by simpa using hc⟩
    obtain ⟨i1, i2⟩ := renameInners_spec rest (alnum n' :: reserved)
    rw [renameInners]
    simp only [hn', List.map_cons, List.nodup_cons]
    refine ⟨⟨?_, i1⟩, ?_⟩
    · intro hm
      exact i2 _ hm (by simp)
    · intro x hx
      rcases List.mem_cons.1 hx with rfl | hx
      · simpa using hfree
      · exact fun hr => i2 x hx (List.mem_cons_of_mem _ hr)

end Proofs.RenameClasses
