/- C07 — import sufficiency of `DependenciesResolver.process` (helper lemmas). -/
import XsdataModel.Proofs.ToposortSound
import XsdataModel.Proofs.ResolverPerm

namespace Xs.Codegen
open Py

theorem idxOf_split {l t1 t2 : List Str} {k : Str} (h : l = t1 ++ k :: t2) (hk : k ∉ t1) :
    l.idxOf k = t1.length ∧ ∀ x ∈ t1, l.idxOf x < t1.length := by
  subst h
  induction t1 with
  | nil => simp
  | cons a t ih =>
    have hak : a ≠ k := fun h => hk (by simp [h])
    obtain ⟨i1, i2⟩ := ih (fun h => hk (by simp [h]))
    constructor
    · simp only [List.cons_append, List.length_cons]
      have hb : (a == k) = false := by simpa using hak
      rw [List.idxOf_cons, hb, i1]; rfl
    · intro x hx
      simp only [List.cons_append, List.length_cons]
      by_cases hxa : a = x
      · subst hxa; simp [List.idxOf_cons_self]
      · have hb : (a == x) = false := by simpa using hxa
        rw [List.idxOf_cons, hb]
        simp only [cond_false]
        rcases List.mem_cons.1 hx with rfl | hx
        · exact absurd rfl hxa
        · have := i2 x hx; omega

/-- a successful sort certifies acyclicity: the position in the output is a rank -/
theorem toposortFlatten_ranked (data : Deps) (out : List Str) (h : toposortFlatten data = some out)
    (hk : (data.map (·.1)).Nodup) :
    ∀ k ds, (k, ds) ∈ data → ∀ x ∈ ds, x ≠ k → out.idxOf x < out.idxOf k := by
  intro k ds hm x hx hxk
  obtain ⟨t1, t2, ht, hin⟩ := toposortFlatten_sound data out h k ds hm
  have hnd := (toposortFlatten_nodup data out h hk).1
  have hk1 : k ∉ t1 := by
    intro hk1
    rw [ht] at hnd
    have := (List.nodup_append.1 hnd).2.2 k hk1 k (by simp)
    exact this rfl
  obtain ⟨i1, i2⟩ := idxOf_split ht hk1
  rw [i1]
  exact i2 x (hin x (List.mem_filter.2 ⟨hx, by simpa using hxk⟩))

theorem mapM_option_mem {α β} (f : α → Option β) : ∀ (l : List α) (r : List β), l.mapM f = some r →
    ∀ x ∈ l, ∃ y ∈ r, f x = some y
  | [], r, _, x, hx => by cases hx
  | a :: l, r, h, x, hx => by
    rw [List.mapM_cons] at h
    cases hfa : f a with
    | none => simp [hfa] at h
    | some b =>
      cases hl : l.mapM f with
      | none => simp [hfa, hl] at h
      | some r' =>
        simp [hfa, hl] at h
        subst h
        rcases List.mem_cons.1 hx with rfl | hx
        · exact ⟨b, by simp, hfa⟩
        · obtain ⟨y, hy, hfy⟩ := mapM_option_mem f l r' hl x hx
          exact ⟨y, List.mem_cons_of_mem _ hy, hfy⟩

theorem filter_after {p : Str → Bool} {l : List Str} {k : Str} {ds : List Str} (h : After l k ds)
    (hk : p k = true) : After (l.filter p) k (ds.filter p) := by
  obtain ⟨t1, t2, ht, hin⟩ := h
  refine ⟨t1.filter p, t2.filter p, by rw [ht]; simp [List.filter_cons, hk], ?_⟩
  intro x hx
  obtain ⟨h1, h2⟩ := List.mem_filter.1 hx
  exact List.mem_filter.2 ⟨hin x h1, h2⟩

/-- **import sufficiency**: after a successful resolver run every dependency of every class of
the module is a class of the module placed *before* it, or is imported from the module the
registry names -/
theorem resolverProcess_sufficient (registry : List (Str × Str)) (classes : List ModClass) (r : Resolved)
    (h : resolverProcess registry classes = .ok r) :
    (classes.map (·.qname)).Nodup ∧
    (∀ q, q ∈ r.sortedClasses ↔ q ∈ classes.map (·.qname)) ∧ r.sortedClasses.Nodup ∧
    ∀ c ∈ classes, ∀ d ∈ c.deps, d ≠ c.qname →
      (d ∈ classes.map (·.qname) ∧ After r.sortedClasses c.qname [d]) ∨
      (d ∉ classes.map (·.qname) ∧ ∃ i ∈ r.imports, i.qname = d ∧ dget registry d = some i.source) := by
  unfold resolverProcess at h
  rw [createClassMap_eq] at h
  by_cases hnd : (classes.map (·.qname)).Nodup
  · simp only [hnd, if_true] at h
    cases hcl : createClassList classes with
    | none => simp [hcl] at h
    | some classList =>
      simp only [hcl] at h
      split at h
      · cases h
      · rename_i imports himp
        simp only [Except.ok.injEq] at h
        subst h
        simp only []
        unfold createClassList at hcl
        have hkeys : ((classes.map (fun c => (c.qname, c.deps))).map (·.1)) = classes.map (·.qname) := by
          rw [List.map_map]; rfl
        have hsound := toposortFlatten_sound _ _ hcl
        have hnodup := toposortFlatten_nodup _ _ hcl (by rw [hkeys]; exact hnd)
        refine ⟨hnd, ?_, hnodup.1.sublist List.filter_sublist, ?_⟩
        · intro q
          constructor
          · intro hq
            have := (List.mem_filter.1 hq).2
            simpa using this
          · intro hq
            obtain ⟨c, hc, rfl⟩ := List.mem_map.1 hq
            obtain ⟨t1, t2, ht, _⟩ := hsound c.qname c.deps (List.mem_map.2 ⟨c, hc, rfl⟩)
            exact List.mem_filter.2 ⟨by rw [ht]; simp, by simpa using hq⟩
        · intro c hc d hd hdc
          have haft := hsound c.qname c.deps (List.mem_map.2 ⟨c, hc, rfl⟩)
          have hcq : c.qname ∈ classes.map (·.qname) := List.mem_map.2 ⟨c, hc, rfl⟩
          by_cases hdm : d ∈ classes.map (·.qname)
          · left
            refine ⟨hdm, ?_⟩
            have := filter_after (p := fun q => (classes.map (·.qname)).contains q) haft (by simpa using hcq)
            obtain ⟨t1, t2, ht, hin⟩ := this
            refine ⟨t1, t2, ht, ?_⟩
            intro x hx
            simp only [List.mem_singleton] at hx
            subst hx
            exact hin x (List.mem_filter.2 ⟨List.mem_filter.2 ⟨hd, by simpa using hdc⟩, by simpa using hdm⟩)
          · right
            refine ⟨hdm, ?_⟩
            obtain ⟨t1, t2, ht, hin⟩ := haft
            have hdin : d ∈ classList := by
              rw [ht]
              exact List.mem_append.2 (Or.inl (hin d (List.mem_filter.2 ⟨hd, by simpa using hdc⟩)))
            have hdto : d ∈ classList.filter (fun q => !(classes.map (·.qname)).contains q) :=
              List.mem_filter.2 ⟨hdin, by simpa using hdm⟩
            obtain ⟨i, hi, hfi⟩ := mapM_option_mem _ _ _ himp d hdto
            cases hreg : dget registry d with
            | none => simp [hreg] at hfi
            | some src =>
              simp [hreg] at hfi
              subst hfi
              exact ⟨_, List.mem_map.2 ⟨_, hi, rfl⟩, rfl, rfl⟩
  · simp [hnd] at h

theorem mapM_option_some {α β} (f : α → Option β) : ∀ (l : List α), (∀ x ∈ l, (f x).isSome = true) →
    ∃ r, l.mapM f = some r
  | [], _ => ⟨[], rfl⟩
  | a :: l, h => by
    obtain ⟨r, hr⟩ := mapM_option_some f l (fun x hx => h x (List.mem_cons_of_mem _ hx))
    have ha := h a (by simp)
    cases hfa : f a with
    | none => rw [hfa] at ha; cases ha
    | some b => exact ⟨b :: r, by rw [List.mapM_cons]; simp [hfa, hr]⟩

/-- the resolver only fails for a reason: a repeated qname, a dependency cycle inside the
module, or a dependency that no module provides -/
theorem resolverProcess_complete (registry : List (Str × Str)) (classes : List ModClass)
    (hnd : (classes.map (·.qname)).Nodup) (rank : Str → Nat)
    (hrank : ∀ c ∈ classes, ∀ d ∈ c.deps, d ≠ c.qname → rank d < rank c.qname)
    (hreg : ∀ c ∈ classes, ∀ d ∈ c.deps, d ∈ classes.map (·.qname) ∨ (dget registry d).isSome = true) :
    ∃ r, resolverProcess registry classes = .ok r := by
  unfold resolverProcess
  rw [createClassMap_eq]
  simp only [hnd, if_true]
  have hkeys : ((classes.map (fun c => (c.qname, c.deps))).map (·.1)) = classes.map (·.qname) := by
    rw [List.map_map]; rfl
  obtain ⟨classList, hcl⟩ := toposortFlatten_complete rank (classes.map (fun c => (c.qname, c.deps)))
    (by rw [hkeys]; exact hnd) (by
      intro k ds hm x hx hxk
      obtain ⟨c, hc, heq⟩ := List.mem_map.1 hm
      cases heq
      exact hrank c hc x hx hxk)
  have hcl' : createClassList classes = some classList := hcl
  simp only [hcl']
  have hmem := (toposortFlatten_nodup _ _ hcl (by rw [hkeys]; exact hnd)).2
  obtain ⟨imports, himp⟩ := mapM_option_some
    (fun q => (dget registry q).map (fun src => ({ qname := q, source := src } : Import)))
    (classList.filter (fun q => !(classes.map (·.qname)).contains q)) (by
      intro q hq
      obtain ⟨hq1, hq2⟩ := List.mem_filter.1 hq
      have hnot : q ∉ classes.map (·.qname) := by simpa using hq2
      rcases hmem q hq1 with h | ⟨k, ds, hm, hx⟩
      · rw [hkeys] at h; exact absurd h hnot
      · obtain ⟨c, hc, heq⟩ := List.mem_map.1 hm
        cases heq
        rcases hreg c hc q hx with h | h
        · exact absurd h hnot
        · simp only [Option.isSome_map]; exact h)
  simp only [himp]
  exact ⟨_, rfl⟩

end Xs.Codegen
