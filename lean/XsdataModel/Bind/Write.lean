/-
The writer seen from the binding layer: `EventHandler.write` (serializers/mixins.py)
without its prefix bookkeeping (that is layer L2 / property C03): events → SAX
calls → ElementTree-style infoset.  Prefixes for QName-valued content come from
one global assignment `uri ↦ "q<k>"`, and every element carries that map, which
is what an independent reader of the written document would resolve.
-/
import XsdataModel.Bind.Gen

namespace Xs.Bind
open Py

inductive Sax
  | «open» (q : QN) (attrs : List (QN × Str))
  | chars (s : Str)
  | close (q : QN)
deriving Repr

/-- all namespace URIs of QName-valued data, in order of first appearance -/
def dataUris : Data → List Str
  | .prim (.qname t) => (targetUri t).toList
  | .list ds => (ds.map (fun d => match d with | .prim (.qname t) => (targetUri t).toList | _ => [])).flatten
  | _ => []

def collectUris (evs : List Ev) : List Str :=
  (evs.map (fun ev => match ev with
    | .attr _ d => dataUris d
    | .data d => dataUris d
    | _ => [])).flatten.eraseDups

/-- the global prefix assignment used by the abstract writer -/
def prefixMap (uris : List Str) : NsMap :=
  (List.range uris.length).zip uris |>.map fun (i, u) => (some ("q".toList ++ natStr i), u)

def qnameText (m : NsMap) (t : Str) : Str :=
  match splitQName t with
  | (none, tag) => tag
  | (some ns, tag) =>
    match m.find? (·.2 = ns) with
    | some (some p, _) => p ++ [':'] ++ tag
    | _ => tag

/-- `EventHandler.encode_data` ; outer `none` = unsupported payload, inner = Python `None` -/
def encodeData (m : NsMap) : Data → Option (Option Str)
  | .none => some none
  | .prim (.str s) => some (some s)
  | .prim (.qname t) => some (some (qnameText m t))
  | .prim p => some (some (serPrim p))
  | .list [] => some none
  | .list ds =>
    let parts := ds.map (fun d => match d with
      | .prim (.str s) => some s
      | .prim (.qname t) => some (qnameText m t)
      | .prim p => some (serPrim p)
      | _ => none)
    if parts.all Option.isSome then some (some (" ".toList.intercalate (parts.filterMap id))) else none

structure WState where
  out : List Sax := []
  pending : Option QN := none
  attrs : List (QN × Str) := []
  inTail : Bool := false
  tail : Option Str := none

def dictSet (d : List (QN × Str)) (k : QN) (v : Str) : List (QN × Str) :=
  if d.any (·.1 = k) then d.map (fun (k', w) => if k' = k then (k', v) else (k', w)) else d ++ [(k, v)]

/-- `flush_start(is_nil)` -/
def WState.flush (w : WState) (isNil : Bool) : WState :=
  match w.pending with
  | none => w
  | some q =>
    let attrs := if !isNil then w.attrs.filter (·.1 ≠ xsiNil) else w.attrs
    { w with out := w.out ++ [Sax.open q attrs], attrs := [], inTail := false, pending := none }

/-- one event of `EventHandler.write`; `isDatatype` decides `DataType.from_qname(value)` -/
def WState.step (m : NsMap) (isDatatype : Str → Bool) (w : WState) : Ev → Except Err WState
  | .start q => .ok { w.flush false with pending := some q }
  | .attr q d =>
    if w.pending.isNone then .error (.serializer "Empty pending tag.") else
    -- is_xsi_type: a `str` value starting with "{" on xsi:type (or naming a datatype) is a QName
    -- (a name goes through the prefix map; the Clark name of a builtin datatype whose namespace the map
    -- does not serve gets the well-known prefix `xs`, which the writers bind on demand)
    let d := match d with
      | .prim (.str s) =>
        if s.head? = some '{' && (q = xsiType || isDatatype s) then
          (if isDatatype s && (m.find? (fun pu => some pu.2 = targetUri s)).isNone then
             Data.prim (.str ("xs:".toList ++ localName s))
           else Data.prim (.qname s))
        else d
      | _ => d
    match encodeData m d with
    | some (some s) => .ok { w with attrs := dictSet w.attrs q s }
    | some none => .error (.unsupported "attribute value None")
    | none => .error (.unsupported "attribute payload")
  | .data d =>
    match encodeData m d with
    | none => .error (.unsupported "data payload")
    | some value =>
      let w := w.flush value.isNone
      -- consecutive chunks are written in the order they arrive
      let w := match value with
        | some s => if s.isEmpty then w else { w with out := w.out ++ [Sax.chars s] }
        | none => w
      .ok { w with inTail := true }
  | .end q =>
    let w := w.flush true
    let w := { w with out := w.out ++ [Sax.close q] }
    let w := match w.tail with
      | some t => if t.isEmpty then w else { w with out := w.out ++ [Sax.chars t] }
      | none => w
    .ok { w with tail := none, inTail := false }

def eventsSax (m : NsMap) (isDatatype : Str → Bool) (evs : List Ev) : Except Err (List Sax) := do
  let w ← evs.foldlM (WState.step m isDatatype) {}
  return w.out

/-! ### SAX calls → ElementTree infoset -/

/-- an element under construction: its qname, attrs, text so far, finished children (reversed) -/
structure Frame where
  q : QN
  attrs : List (QN × Str)
  text : Option Str := none
  kids : List Tree := []

def appendText (o : Option Str) (s : Str) : Option Str :=
  match o with
  | some t => some (t ++ s)
  | none => some s

def setLastTail (s : Str) : List Tree → List Tree
  | [] => []
  | (.node q a n t c tl) :: rest => .node q a n t c (appendText tl s) :: rest

/-- what an ElementTree builder makes of the calls (`none` = not a single balanced document) -/
def saxTree (m : NsMap) : List Sax → List Frame → Option Tree → Option Tree
  | [], [], done => done
  | [], _ :: _, _ => none
  | .open q a :: rest, stack, done =>
    if done.isSome then none else saxTree m rest (⟨q, a, none, []⟩ :: stack) none
  | .chars s :: rest, f :: stack, done =>
    match f.kids with
    | [] => saxTree m rest ({ f with text := appendText f.text s } :: stack) done
    | kids => saxTree m rest ({ f with kids := setLastTail s kids } :: stack) done
  | .chars _ :: _, [], _ => none          -- character data outside the root element
  | .close q :: rest, f :: stack, done =>
    if f.q ≠ q then none else
    let t := Tree.node f.q f.attrs m f.text f.kids.reverse none
    match stack with
    | [] => saxTree m rest [] (some t)
    | p :: ps => saxTree m rest ({ p with kids := t :: p.kids } :: ps) done
  | .close _ :: _, [], _ => none

/-- events → infoset, as an independent reader of the written document sees it -/
def eventsTree (isDatatype : Str → Bool) (evs : List Ev) : Except Err Tree := do
  let m := prefixMap (collectUris evs)
  let sax ← eventsSax m isDatatype evs
  match saxTree m sax [] none with
  | some t => return t
  | none => throw (.serializer "not a well-formed document")

end Xs.Bind
