/-
C17 ↔ C01: the envelope classes of the mapper as the binding layer sees them.

`DefinitionsMapper` yields codegen classes (`Cls`); the generator renders them
(`class.jinja2`, `Filters.field_definition`: a field's `namespace` is written unless it
equals the namespace inherited from the enclosing classes, `Meta.name`/`Meta.namespace`
for the global class) and at run time `XmlMetaBuilder.build(clazz, parent_ns)` turns
every generated class into an `XmlMeta` (`build_class_meta`: `namespace = Meta.namespace`
or the parent's; `XmlVarBuilder.build`: an element inherits the class namespace when it has
none of its own, `qname = build_qname(namespace, name)`, `required` = the type hint is not
optional).  `envelopeClasses` is that composition for the class family of one envelope:
`Envelope`, its inner classes (`Header`, `Body`), `Fault` and `detail`.  Payload classes
(global elements, rpc message classes, complex types) are not produced here: they are
looked up by the qname the mapper refers to and come from the schema half of the pipeline.

Python identifiers are not modelled here (property C07): a var's `name` is its XML local
name and class ids are paths of XML names (`{tns}Pt_op_input/Body/Fault`); the
correspondence check renames the real export accordingly.

Lazy namespaces of parts declared by type are resolved with `resolveNamespace`
(`Wsdl/Client.lean`) from the kind of the referenced type.
-/
import XsdataModel.Wsdl.Mapper
import XsdataModel.Wsdl.Client
import XsdataModel.Bind.F1

namespace Xs.Wsdl
open Py

/-- what the schema half of the pipeline knows about the type an attr refers to -/
structure TypeInfo where
  /-- qname as the mapper writes it (`AttrType.qname`) -/
  qname : Str
  kind : SourceKind
  /-- `Class.namespace` of the source class -/
  ns : Option Str
  /-- id of the generated class (for `complex`) -/
  classId : Option Str
  deriving Repr

def findType (types : List TypeInfo) (q : Str) : Option TypeInfo := types.find? (·.qname == q)

/-- `bs = Bind.buildQName` with a plain local name -/
def bindQName (ns : Option Str) (loc : Str) : Str := (Xs.Bind.buildQName ns (some loc)).getD loc

/-- python type of a native xsd type the envelope classes use -/
def nativeType (q : Str) : Option Xs.Bind.PT :=
  if q == Tables.c17XsString then some .str
  else if q == ws!"{http://www.w3.org/2001/XMLSchema}int" then some .int
  else if q == ws!"{http://www.w3.org/2001/XMLSchema}boolean" then some .bool
  else none

/-- the namespace of the attr after class processing (`##lazy` resolved); `none` = the
attr is removed or its type is outside the fragment -/
def finalNs (types : List TypeInfo) (classNs : Option Str) (a : AttrM) : Option (Option Str) :=
  if a.ns == some Tables.c17LazyMarker then
    match findType types a.type with
    | some t => resolveNamespace t.kind a.ns t.ns classNs
    | none => resolveNamespace .absent a.ns none classNs
  else some a.ns

/-- id of the inner class `name` of class `cid` -/
def childId (cid name : Str) : Str := cid ++ ws!"/" ++ name

/-- target of an attr: inner class, payload class or primitive -/
def attrTarget (types : List TypeInfo) (ownerId : Str) (a : AttrM) : Option (Xs.Bind.TypeRef × Option Str) :=
  if a.forward then some (.cls (childId ownerId a.name), some (childId ownerId a.name))
  else if a.native then (nativeType a.type).map (fun t => (.prim t, none))
  else match findType types a.type with
    | some ⟨_, .complex, _, some cid⟩ => some (.cls cid, some cid)
    | _ => none

/-- `XmlVar.namespaces` of an element: the field namespace `fns` is rendered unless it equals
the render-time namespace of the class (`Filters.field_metadata`); an element without rendered
namespace inherits the run-time class namespace (`XmlVarBuilder.resolve_namespaces`); an empty
namespace gives no entry (unqualified) -/
def varNamespaces (fns renderNs ownerNs : Option Str) : List Str :=
  let rendered : Option Str := if fns == renderNs then none else fns
  let eff : Option Str := match rendered with | some n => some n | none => ownerNs
  match eff with | some (c :: cs) => [c :: cs] | _ => []

/-- `XmlVar` of one attr of a class whose run-time namespace is `ownerNs`; `renderNs` is the
namespace the class has when it is rendered (its own or the enclosing classes'):
`Filters.field_metadata` writes the field namespace only when it differs from that -/
def attrVar (types : List TypeInfo) (ownerId : Str) (ownerNs renderNs classNs : Option Str) (index : Nat) (a : AttrM) :
    Option Xs.Bind.XmlVar := do
  let fns0 ← finalNs types classNs a
  let (tref, clazz) ← attrTarget types ownerId a
  let namespaces := varNamespaces fns0 renderNs ownerNs
  let ns1 : Option Str := namespaces.head?
  pure { index := index, name := a.name, localName := a.name, qname := bindQName ns1 a.name,
         wrapperQName := none, types := [tref], clazz := clazz, init := true, mixed := false,
         tokens := false, format := none, anyType := false, processContents := ws!"strict",
         required := a.min != some 0, nillable := false, sequence := none, listElement := false,
         default := .none, namespaces := namespaces, kind := .element, isClazzUnion := false,
         elements := [], wildcards := [] }

def attrVars (types : List TypeInfo) (ownerId : Str) (ownerNs renderNs classNs : Option Str) : Nat → List AttrM →
    Option (List Xs.Bind.XmlVar)
  | _, [] => some []
  | i, a :: as => do
    let v ← attrVar types ownerId ownerNs renderNs classNs i a
    let rest ← attrVars types ownerId ownerNs renderNs classNs (i + 1) as
    pure (v :: rest)

/-- `elements[var.qname].append(var)` -/
def groupElements : List Xs.Bind.XmlVar → List (Xs.Bind.QN × List Xs.Bind.XmlVar)
  | [] => []
  | v :: vs =>
    let rest := groupElements vs
    match rest.find? (·.1 = v.qname) with
    | some _ => (v.qname, v :: ((rest.find? (·.1 = v.qname)).map (·.2)).getD []) :: rest.filter (·.1 ≠ v.qname)
    | none => (v.qname, [v]) :: rest

/-- `XmlMeta` of class `c` (id `cid`, `isGlobal` = the envelope itself) built under parent namespace `pns` -/
def classMeta (types : List TypeInfo) (c : Cls) (cid : Str) (isGlobal : Bool) (rns pns : Option Str) :
    Option Xs.Bind.XmlMeta := do
  let ns : Option Str := match c.ns with | some n => some n | none => pns
  let renderNs : Option Str := match c.ns with | some n => some n | none => rns
  let loc : Str := if isGlobal then c.metaName.getD c.name else Xs.Text.pascalCase c.name
  let vars ← attrVars types cid ns renderNs c.ns 1 c.attrs
  pure { clazz := cid, qname := bindQName ns loc,
         targetQName := if isGlobal then some (bindQName c.targetNamespace loc) else none,
         nillable := false, text := none, choices := [], elements := groupElements vars,
         wildcards := [], attributes := [], anyAttributes := [], wrappers := [] }

def fieldInfos (c : Cls) : List Xs.Bind.FieldInfo :=
  c.attrs.map (fun a => ⟨a.name, true, if a.min == some 0 then some .none else none⟩)

/-- `ClassInfo` of `c` with its metadata under each parent namespace of `pnss` -/
def classInfo (types : List TypeInfo) (pnss : List (Option Str)) (c : Cls) (cid : Str) (isGlobal : Bool)
    (rns : Option Str) : Option Xs.Bind.ClassInfo := do
  let metas ← pnss.mapM (fun p => (classMeta types c cid isGlobal rns p).map (fun m => (p, m)))
  pure { id := cid, metas := metas, mro := [cid], bases := [], fields := fieldInfos c }

/-- the class family of an envelope down to `depth` levels of inner classes
(Envelope → Header/Body → Fault → detail: depth 4) -/
def familyInfos (types : List TypeInfo) (pnss : List (Option Str)) : Nat → Cls → Str → Bool → Option Str →
    Option (List Xs.Bind.ClassInfo)
  | 0, _, _, _, _ => none
  | n + 1, c, cid, isGlobal, rns => do
    let ci ← classInfo types pnss c cid isGlobal rns
    let rns' : Option Str := match c.ns with | some x => some x | none => rns
    let inner ← c.inner.mapM (fun i => familyInfos types pnss n i (childId cid i.name) false rns')
    pure (ci :: inner.flatten)

/-- the envelope family as binding classes -/
def envelopeClasses (types : List TypeInfo) (pnss : List (Option Str)) (env : Cls) : Option (List Xs.Bind.ClassInfo) :=
  familyInfos types pnss 5 env env.qname true none

/-- the binding context of one envelope: its family followed by the payload classes -/
def envelopeCtx (types : List TypeInfo) (pnss : List (Option Str)) (env : Cls)
    (payload : List Xs.Bind.ClassInfo) (datatypes : List (Xs.Bind.QN × Option Xs.Bind.PT)) : Option Xs.Bind.Ctx := do
  let fam ← envelopeClasses types pnss env
  pure { classes := fam ++ payload, xsiIndex := [], datatypes := datatypes }

/-! ## reading a written document -/

/-- element name of a document node -/
def docName : Xs.Bind.Tree → Xs.Bind.QN | .node q _ _ _ _ _ => q
/-- child elements of a document node -/
def docKids : Xs.Bind.Tree → List Xs.Bind.Tree | .node _ _ _ _ c _ => c

/-- the child elements a field value is written as: none for `None`, one per list item, else one -/
def childItems : Xs.Bind.Val → List Xs.Bind.Val
  | .none => []
  | .list xs => xs
  | y => [y]

/-- the qnames of the element children an object with these fields must be written with:
per element var, in metadata order, one per item of the field value -/
def presentQNames (m : Xs.Bind.XmlMeta) (fields : List (Str × Xs.Bind.Val)) : List Xs.Bind.QN :=
  m.elementVars.flatMap fun var => (childItems (Xs.Bind.F1.look fields var.name)).map fun _ => var.qname

end Xs.Wsdl
