/- helper lemmas for Props/C10Dict -/
import XsdataModel.DictDec.Keys
import XsdataModel.Proofs.C10

namespace Proofs.C10Dict
open Py Xs.Bind Xs.DictDec

theorem keySetEq_insert_false {k : Str} {derived : List Str} (v : JShape) (pre post : List (Str × JShape))
    (hd : derived.contains k = false) :
    keySetEq ((pre ++ (k, v) :: post).map (·.1)) derived = false := by
  have hk : k ∉ derived := by simpa using hd
  have : ((pre ++ (k, v) :: post).map (·.1)).all (derived.contains ·) = false := by
    rw [List.all_eq_false]; exact ⟨k, by simp, by simpa using hk⟩
  unfold keySetEq
  rw [this, Bool.false_and]

/-- a candidate that declares the keys and whose attempt succeeds makes the ranking succeed -/
theorem foldl_bestStep_isSome (ks : List Str) :
    ∀ (cands : List Cand) (acc : Option (ClassId × Nat)),
      (acc.isSome || cands.any (fun c => localNamesMatch ks c.localNames && c.attempt.isSome)) = true →
      (cands.foldl (bestStep ks) acc).isSome = true := by
  intro cands
  induction cands with
  | nil => intro acc h; simpa using h
  | cons c cs ih =>
    intro acc h
    rw [List.foldl_cons]
    apply ih
    simp only [List.any_cons, Bool.or_eq_true, Bool.and_eq_true] at h ⊢
    rcases h with h | ⟨hm, ha⟩ | h
    · left
      cases acc with
      | none => simp at h
      | some p =>
        obtain ⟨i, b⟩ := p
        unfold bestStep
        split
        · cases c.attempt with
          | none => rfl
          | some sc => simp only; split <;> rfl
        · rfl
    · left
      cases hatt : c.attempt with
      | none => simp [hatt] at ha
      | some sc =>
        cases acc with
        | none => simp [bestStep, hm, hatt]
        | some p => obtain ⟨i, b⟩ := p; simp only [bestStep, hm, hatt, if_true]; split <;> rfl
    · right; simpa [Bool.and_eq_true] using h

end Proofs.C10Dict
