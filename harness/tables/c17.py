"""Tables.lean sections for C17 (WSDL mapper / SOAP client). The mapper and the
client keep their protocol constants as string literals inside function bodies,
so they are obtained by probing the live functions."""
from extract_tables import chars, extra, lean_bool, strs  # noqa: F401


def _opt(s):
    return "none" if s is None else f"some {chars(s)}"


@extra
def c17_wsdl(w):
    from xsdata.codegen.mappers.definitions import DefinitionsMapper as M
    from xsdata.codegen.models import Status
    from xsdata.formats.dataclass import client as C
    from xsdata.models.enums import DataType, Namespace, Tag
    from xsdata.models.wsdl import BindingOperation, Part

    w("-- xsdata/codegen/mappers/definitions.py, xsdata/formats/dataclass/client.py (C17)")
    w(f"def c17XsString : List Char := {chars(str(DataType.STRING))}")
    w(f"def c17XsUri : List Char := {chars(Namespace.XS.uri)}")
    w(f"def c17TagElement : List Char := {chars(str(Tag.ELEMENT))}")
    w(f"def c17TagBindingMessage : List Char := {chars(str(Tag.BINDING_MESSAGE))}")
    w(f"def c17TagBindingOperation : List Char := {chars(BindingOperation.__name__)}")
    w(f"def c17StatusRaw : Nat := {int(Status.RAW)}")
    w(f"def c17StatusFlattened : Nat := {int(Status.FLATTENED)}")
    soap = C.TransportTypes.SOAP
    w(f"def c17ClientSoapTransport : List Char := {chars(soap)}")
    # the namespace the mapper gives to envelopes of a binding whose transport is the
    # one the client accepts, and of any other transport
    w(f"def c17EnvelopeNs : Option (List Char) := {_opt(M.operation_namespace({'transport': soap}))}")
    w(f"def c17EnvelopeNsOther : Option (List Char) := {_opt(M.operation_namespace({'transport': soap + '/x'}))}")
    w(f"def c17EnvelopeNsAbsent : Option (List Char) := {_opt(M.operation_namespace({}))}")
    # marker for the namespace of parts declared by type
    p = Part(name="p7", type="q7:T7")
    p.ns_map = {"q7": "urn:q7"}
    attrs = list(M.build_parts_attributes([p], {}))
    w(f"def c17LazyMarker : List Char := {chars(attrs[0].namespace)}")
    # headers of the client
    cfg = C.Config(style="document", location="u7", transport=soap, soap_action="", input=object, output=object)
    base = C.Client(cfg, transport=object()).prepare_headers({})
    w("def c17ClientBaseHeaders : List (List Char × List Char) := [" + ", ".join(f"({chars(k)}, {chars(v)})" for k, v in base.items()) + "]")
    cfg2 = C.Config(style="document", location="u7", transport=soap, soap_action="A7", input=object, output=object)
    withact = C.Client(cfg2, transport=object()).prepare_headers({})
    extra_keys = [k for k, v in withact.items() if k not in base]
    if len(extra_keys) != 1 or withact[extra_keys[0]] != "A7":
        raise RuntimeError(f"C17 tables: cannot locate the SOAPAction header in {withact!r}")
    w(f"def c17ActionHeader : List Char := {chars(extra_keys[0])}")
    import dataclasses

    w(f"def c17ConfigFields : List (List Char) := {strs([f.name for f in dataclasses.fields(C.Config)])}")
    w("")
