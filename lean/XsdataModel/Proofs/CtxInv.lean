/- Helper lemmas for C14: dictionary lemmas, the cache invariant and its
preservation by every `XmlContext` call. -/
import XsdataModel.Ctx.Spec

namespace Xs.Ctx
open Py

/-! ### association lists -/

theorem lookup_cons_if {κ ν} [BEq κ] [LawfulBEq κ] [DecidableEq κ] (a k : κ) (b : ν) (es : List (κ × ν)) :
    List.lookup a ((k, b) :: es) = if a = k then some b else List.lookup a es := by
  by_cases h : a = k
  · subst h; simp [List.lookup]
  · have : (a == k) = false := by simp [h]
    simp [List.lookup, this, h]

theorem lookup_dictSet_self {κ ν} [BEq κ] [LawfulBEq κ] [DecidableEq κ] (d : List (κ × ν)) (k : κ) (v : ν) :
    (dictSet d k v).lookup k = some v := by
  induction d with
  | nil => simp [dictSet, lookup_cons_if]
  | cons hd tl ih =>
    obtain ⟨k', v'⟩ := hd
    unfold dictSet
    by_cases h : k' = k
    · simp [h, lookup_cons_if]
    · simp [h, lookup_cons_if, Ne.symm h, ih]

theorem lookup_dictSet_ne {κ ν} [BEq κ] [LawfulBEq κ] [DecidableEq κ] (d : List (κ × ν)) (k k' : κ) (v : ν) (hne : k' ≠ k) :
    (dictSet d k v).lookup k' = d.lookup k' := by
  induction d with
  | nil => simp [dictSet, lookup_cons_if, hne]
  | cons hd tl ih =>
    obtain ⟨k0, v0⟩ := hd
    unfold dictSet
    by_cases h : k0 = k
    · subst h
      simp [lookup_cons_if, hne]
    · simp [h, lookup_cons_if, ih]


/-! ### the pure specification and the parent namespace -/

/-- whether `build` fails never depends on the parent namespace -/
theorem pureBuild_error_indep (U : Universe) (c : ClassId) (p p' : Option Str) (e : Err)
    (h : pureBuild U c p = .error e) : pureBuild U c p' = .error e := by
  unfold pureBuild at h ⊢
  cases hd : U.get? c with
  | none => simpa [hd] using h
  | some d =>
    simp only [hd] at h ⊢
    by_cases h1 : (!d.isModel) = true
    · simpa [h1] using h
    · by_cases h2 : chainBad U c = true
      · simpa [h1, h2] using h
      · simp [h1, h2] at h

theorem pureBuild_ok_cls (U : Universe) (c : ClassId) (p : Option Str) (m : Meta)
    (h : pureBuild U c p = .ok m) : ∃ d, U.get? c = some d := by
  unfold pureBuild at h
  cases hd : U.get? c with
  | none => simp [hd] at h
  | some d => exact ⟨d, rfl⟩

/-! ### the invariant -/

/-- every cached meta is the cache-free meta of its key `(class, parent_ns)`; the
index, if stamped, is (related to) the cache-free index of a world seen since the
last reset -/
structure InvR (R : List (Str × List ClassId) → List (Str × List ClassId) → Prop)
    (U : Universe) (t : Track) (s : State) : Prop where
  cache : ∀ c p m, s.cache.lookup (c, p) = some m → pureBuild U c p = .ok m
  xsi : s.sysModules = 0 ∨ ∃ w ∈ t.worlds, s.sysModules = w.mods + 1 ∧ R s.xsi (pureIndex U w.loaded)

/-- the strong invariant: the stamped index *is* the cache-free index.  (`InvR`
with a weaker relation is used for histories that evict unbuildable classes,
see `Proofs/CtxEvict.lean`.) -/
abbrev Inv := InvR (@Eq (List (Str × List ClassId)))

theorem InvR.init {R} (U : Universe) (t : Track) : InvR R U t State.init :=
  ⟨by intro c p m h; simp [State.init, List.lookup] at h, Or.inl rfl⟩

theorem Inv.init (U : Universe) (t : Track) : Inv U t State.init := InvR.init U t

theorem InvR.mono {R} {U : Universe} {t t' : Track} {s : State} (h : InvR R U t s)
    (hw : ∀ w ∈ t.worlds, w ∈ t'.worlds) : InvR R U t' s := by
  refine ⟨h.cache, ?_⟩
  cases h.xsi with
  | inl h0 => exact Or.inl h0
  | inr h1 =>
    obtain ⟨w, hw1, hw2⟩ := h1
    exact Or.inr ⟨w, hw _ hw1, hw2⟩

/-- **`build` refines the specification** — unconditionally since the cache is
keyed by `(class, parent_ns)` -/
theorem doBuild_spec {R} {U : Universe} {t : Track} {s : State} (hI : InvR R U t s)
    (c : ClassId) (p : Option Str) :
    ∃ s', doBuild U s c p = (s', pureBuild U c p) ∧ InvR R U t s' ∧ s'.xsi = s.xsi ∧
      s'.sysModules = s.sysModules ∧ (∀ m, pureBuild U c p = .ok m → s'.cache.lookup (c, p) = some m) := by
  unfold doBuild
  cases hl : s.cache.lookup (c, p) with
  | some m =>
    have hb := hI.cache c p m hl
    refine ⟨s, by simp [hb], hI, rfl, rfl, ?_⟩
    intro m' hm'
    rw [hb] at hm'
    cases hm'
    exact hl
  | none =>
    cases hb : pureBuild U c p with
    | error e => exact ⟨s, by simp, hI, rfl, rfl, by intro m hm; cases hm⟩
    | ok m =>
      refine ⟨{ s with cache := dictSet s.cache (c, p) m }, by simp, ⟨?_, hI.xsi⟩, rfl, rfl, ?_⟩
      · intro c' p' m' hl'
        by_cases hcc : (c', p') = (c, p)
        · cases hcc
          simp [lookup_dictSet_self] at hl'
          subst hl'
          exact hb
        · simp [lookup_dictSet_ne _ _ _ _ hcc] at hl'
          exact hI.cache c' p' m' hl'
      · intro m' hm'
        cases hm'
        simp [lookup_dictSet_self]

/-- **`build_xsi_cache` refines the specification** -/
theorem doBuildXsi_spec {U : Universe} {t : Track} {s : State} (hI : Inv U t s) {w : World}
    (hw : w ∈ t.worlds) (hf : faithful t.worlds) :
    (doBuildXsi U w s).xsi = pureIndex U w.loaded ∧ (doBuildXsi U w s).sysModules = w.mods + 1 ∧
      (doBuildXsi U w s).cache = s.cache ∧ Inv U t (doBuildXsi U w s) := by
  unfold doBuildXsi
  by_cases hst : w.mods + 1 = s.sysModules
  · rw [if_pos hst]
    cases hI.xsi with
    | inl h0 => omega
    | inr h1 =>
      obtain ⟨w', hw', hs1, hs2⟩ := h1
      have hm : w'.mods = w.mods := by omega
      have := hf w' hw' w hw hm
      refine ⟨by rw [hs2, this], hst.symm, rfl, hI⟩
  · rw [if_neg hst]
    exact ⟨rfl, rfl, rfl, ⟨hI.cache, Or.inr ⟨w, hw, rfl, rfl⟩⟩⟩


/-- **`find_types` refines the specification** -/
theorem doFindTypes_spec {U : Universe} {t : Track} {s : State} (hI : Inv U t s) {w : World}
    (hw : w ∈ t.worlds) (hf : faithful t.worlds) (q : Str) :
    (doFindTypes U w s q).2 = pureTypes U w q ∧ Inv U t (doFindTypes U w s q).1 := by
  unfold doFindTypes pureTypes
  by_cases hd : isDataType q = true
  · simp [hd, hI]
  · obtain ⟨h1, _, _, h4⟩ := doBuildXsi_spec hI hw hf
    simp [hd, h1, h4]

theorem doFindSubclass_spec {U : Universe} {t : Track} {s : State} (hI : Inv U t s) {w : World}
    (hw : w ∈ t.worlds) (hf : faithful t.worlds) (c : ClassId) (q : Str) :
    (doFindSubclass U w s c q).2 = pickSubclass U c (pureTypes U w q) ∧
      Inv U t (doFindSubclass U w s c q).1 := by
  obtain ⟨h1, h2⟩ := doFindTypes_spec hI hw hf q
  unfold doFindSubclass
  simp [h1, h2]

/-- **`fetch` refines the specification** -/
theorem doFetch_spec {U : Universe} {t : Track} {s : State} (hI : Inv U t s) {w : World}
    (hw : w ∈ t.worlds) (hf : faithful t.worlds) (c : ClassId) (p xsi : Option Str) :
    (doFetch U w s c p xsi).2 = pureFetch U w c p xsi ∧ Inv U t (doFetch U w s c p xsi).1 := by
  obtain ⟨s1, hb1, hI1, _, _, _⟩ := doBuild_spec hI c p
  unfold doFetch pureFetch
  rw [hb1]
  cases hb : pureBuild U c p with
  | error e => simp [hI1]
  | ok m =>
    simp only
    by_cases hx : (truthy xsi && m.targetQName != xsi) = true
    · rw [if_pos hx, if_pos hx]
      obtain ⟨hs1, hs2⟩ := doFindSubclass_spec hI1 hw hf c (xsi.getD [])
      cases hsub : pickSubclass U c (pureTypes U w (xsi.getD [])) with
      | none =>
        have : doFindSubclass U w s1 c (xsi.getD []) = ((doFindSubclass U w s1 c (xsi.getD [])).1, none) := by
          rw [← hsub, ← hs1]
        rw [this]
        exact ⟨rfl, hs2⟩
      | some sub =>
        have : doFindSubclass U w s1 c (xsi.getD []) = ((doFindSubclass U w s1 c (xsi.getD [])).1, some sub) := by
          rw [← hsub, ← hs1]
        rw [this]
        simp only
        obtain ⟨s3, hb3, hI3, _⟩ := doBuild_spec hs2 sub p
        rw [hb3]
        exact ⟨rfl, hI3⟩
    · rw [if_neg hx, if_neg hx]
      exact ⟨rfl, hI1⟩

/-- **`local_names_match` refines the specification** (outside the eviction path) -/
theorem doLocalNamesMatch_spec {R} {U : Universe} {t : Track} {s : State} (hI : InvR R U t s)
    {c : ClassId} (hne : buildable U c = true ∨ indexKey U c = none) (names : List Str) :
    ∃ s', doLocalNamesMatch U s names c =
        (s', .ok (match pureBuild U c none with
          | .ok m => namesMatch names m
          | .error _ => false)) ∧
      InvR R U t s' ∧ s'.xsi = s.xsi ∧ s'.sysModules = s.sysModules ∧
      (∀ m, pureBuild U c none = .ok m → s'.cache.lookup (c, none) = some m) := by
  obtain ⟨s1, hb1, hI1, hx1, hm1, hl1⟩ := doBuild_spec hI c none
  unfold doLocalNamesMatch
  rw [hb1]
  cases hb : pureBuild U c none with
  | ok m => exact ⟨s1, rfl, hI1, hx1, hm1, by rw [hb] at hl1; exact hl1⟩
  | error e =>
    cases hne with
    | inl h => simp [buildable, hb] at h
    | inr h =>
      simp only [h]
      exact ⟨s1, rfl, hI1, hx1, hm1, by intro m hm; cases hm⟩


theorem buildable_ok {U : Universe} {c : ClassId} (h : buildable U c = true) :
    ∃ m, pureBuild U c none = .ok m := by
  unfold buildable at h
  cases hb : pureBuild U c none with
  | ok m => exact ⟨m, rfl⟩
  | error e => simp [hb] at h

/-- the inner loop of `find_type_by_fields` when nothing is evicted -/
theorem scanTypes_spec {U : Universe} {t : Track} (names : List Str) :
    ∀ (l : List ClassId) (s : State) (acc : List Choice), Inv U t s →
      (∀ c ∈ l, buildable U c = true) →
      ∃ s', scanTypes U names l s acc = (s', .ok (acc ++ l.filterMap (choiceOf U names))) ∧
        Inv U t s' ∧ s'.xsi = s.xsi ∧ s'.sysModules = s.sysModules := by
  intro l
  induction l with
  | nil => intro s acc hI _; exact ⟨s, by simp [scanTypes], hI, rfl, rfl⟩
  | cons c rest ih =>
    intro s acc hI hb
    have hbc := hb c List.mem_cons_self
    obtain ⟨m, hm⟩ := buildable_ok hbc
    obtain ⟨s1, hr1, hI1, hx1, hm1, hl1⟩ :=
      doLocalNamesMatch_spec hI (Or.inl hbc) names
    obtain ⟨d, hd⟩ := pureBuild_ok_cls U c none m hm
    unfold scanTypes
    rw [hr1, hm]
    dsimp only
    have hb' : ∀ c' ∈ rest, buildable U c' = true := fun c' h => hb c' (List.mem_cons_of_mem _ h)
    cases hnm : namesMatch names m with
    | false =>
      dsimp only
      obtain ⟨s2, hr2, hI2, hx2, hm2⟩ := ih s1 acc hI1 hb'
      refine ⟨s2, ?_, hI2, by rw [hx2, hx1], by rw [hm2, hm1]⟩
      rw [hr2]
      simp [choiceOf, hm, hd, hnm]
    | true =>
      have hdb : doBuild U s1 c none = (s1, .ok m) := by simp [doBuild, hl1 m hm]
      simp only [hdb, hd]
      obtain ⟨s2, hr2, hI2, hx2, hm2⟩ :=
        ih s1 (acc ++ [(c, (fieldDiff names m, d.name))]) hI1 hb'
      refine ⟨s2, ?_, hI2, by rw [hx2, hx1], by rw [hm2, hm1]⟩
      rw [hr2]
      simp [choiceOf, hm, hd, hnm]

/-- the outer loop -/
theorem scanKeys_spec {U : Universe} {t : Track} (names : List Str)
    (idx : List (Str × List ClassId)) :
    ∀ (ks : List Str) (s : State) (acc : List Choice), Inv U t s → s.xsi = idx →
      (∀ k ∈ ks, ∀ c ∈ (idx.lookup k).getD [], buildable U c = true) →
      ∃ s', scanKeys U names ks s acc =
          (s', .ok (acc ++ (ks.flatMap fun k => (idx.lookup k).getD []).filterMap (choiceOf U names))) ∧
        Inv U t s' ∧ s'.xsi = idx ∧ s'.sysModules = s.sysModules := by
  intro ks
  induction ks with
  | nil =>
    intro s acc hI hx _
    exact ⟨s, by simp [scanKeys], hI, hx, rfl⟩
  | cons k ks ih =>
    intro s acc hI hx hall
    unfold scanKeys
    have hk := hall k List.mem_cons_self
    obtain ⟨s1, hr1, hI1, hx1, hm1⟩ :=
      scanTypes_spec names ((idx.lookup k).getD []) s acc hI hk
    rw [hx, hr1]
    dsimp only
    obtain ⟨s2, hr2, hI2, hx2, hm2⟩ :=
      ih s1 (acc ++ ((idx.lookup k).getD []).filterMap (choiceOf U names)) hI1 (by rw [hx1]; exact hx)
        (fun k' hk' => hall k' (List.mem_cons_of_mem _ hk'))
    refine ⟨s2, ?_, hI2, hx2, by rw [hm2, hm1]⟩
    rw [hr2]
    simp [List.filterMap_append]

/-- **`find_type_by_fields` refines the specification** (when every indexed class is buildable) -/
theorem doFindTypeByFields_spec {U : Universe} {t : Track} {s : State} (hI : Inv U t s) {w : World}
    (hw : w ∈ t.worlds) (hf : faithful t.worlds) (names : List Str)
    (hne : noEvict U w (.findTypeByFields names)) :
    ∃ s', doFindTypeByFields U w s names = (s', .ok (pureFields U w names)) ∧ Inv U t s' := by
  obtain ⟨h1, _, _, h4⟩ := doBuildXsi_spec hI hw hf
  unfold doFindTypeByFields
  have hall : ∀ k ∈ (pureIndex U w.loaded).map (·.1), ∀ c ∈ ((pureIndex U w.loaded).lookup k).getD [],
      buildable U c = true := by
    intro k hk c hcm
    have hmem : c ∈ indexedClasses (pureIndex U w.loaded) := by
      unfold indexedClasses
      exact List.mem_flatMap.mpr ⟨k, hk, hcm⟩
    exact hne c hmem
  obtain ⟨s2, hr2, hI2, _, _⟩ :=
    scanKeys_spec names (pureIndex U w.loaded) ((pureIndex U w.loaded).map (·.1))
      (doBuildXsi U w s) [] h4 h1 hall
  simp only [h1]
  rw [hr2]
  exact ⟨s2, by simp [pureFields, indexedClasses], hI2⟩

/-- **the serializer's walk on a shared context simulates the cache-free walk** -/
theorem serWalk_sim {R} {U : Universe} {t : Track} :
    ∀ (toks : List Tok) (s : State) (us : List Use) (fs : List Frame) (out : List Str),
      InvR R U t s →
      (serWalk U (fun s c p => doBuild U s c p) toks s fs out).2 =
        (serWalk (σ := List Use) U (fun us c p => (us ++ [(c, p)], pureBuild U c p)) toks us fs out).2 ∧
      InvR R U t (serWalk U (fun s c p => doBuild U s c p) toks s fs out).1 := by
  intro toks
  induction toks with
  | nil => intro s us fs out hI; exact ⟨rfl, hI⟩
  | cons tk rest ih =>
    intro s us fs out hI
    cases tk with
    | enter i c =>
      cases fs with
      | nil =>
        simp only [serWalk]
        obtain ⟨s', hb', hI', _⟩ := doBuild_spec hI c none
        rw [hb']
        cases hb : pureBuild U c none with
        | error e => exact ⟨rfl, hI'⟩
        | ok m => exact ih _ _ _ _ hI'
      | cons f fs =>
        simp only [serWalk]
        cases hv : f.vars[i]? with
        | none => exact ⟨rfl, hI⟩
        | some v =>
          simp only
          obtain ⟨s', hb', hI', _⟩ := doBuild_spec hI c f.ns
          by_cases hk : (v.kind == Kind.elements) = true
          · rw [if_pos hk, if_pos hk]
            cases hch : findClazzChoice U v.choices c with
            | some ch =>
              simp only
              rw [hb']
              cases hb : pureBuild U c f.ns with
              | error e => exact ⟨rfl, hI'⟩
              | ok m => exact ih _ _ _ _ hI'
            | none =>
              simp only
              rw [hb']
              cases hb : pureBuild U c f.ns with
              | error e => exact ⟨rfl, hI'⟩
              | ok m1 =>
                simp only
                obtain ⟨s2, hb2, hI2, _⟩ := doBuild_spec hI' c none
                rw [hb2]
                cases hb0 : pureBuild U c none with
                | error e => exact ⟨rfl, hI2⟩
                | ok m2 => exact ih _ _ _ _ hI2
          · rw [if_neg hk, if_neg hk]
            rw [hb']
            cases hb : pureBuild U c f.ns with
            | error e => exact ⟨rfl, hI'⟩
            | ok m => exact ih _ _ _ _ hI'
    | leaf i =>
      cases fs with
      | nil => simp only [serWalk]; exact ih _ _ _ _ hI
      | cons f fs =>
        simp only [serWalk]
        cases hv : f.vars[i]? with
        | none => exact ⟨rfl, hI⟩
        | some v => exact ih _ _ _ _ hI
    | leave => simp only [serWalk]; exact ih _ _ _ _ hI

/-- **One call refines the cache-free specification and keeps the invariant.** -/
theorem step_spec {U : Universe} {t : Track} {s : State} (hI : Inv U t s) {w : World} {op : Op}
    (hok : okStep U t w op) :
    (step U w s op).2 = pureOut U w op ∧ Inv U (t.next w op) (step U w s op).1 := by
  obtain ⟨hf, hne⟩ := hok
  have hI1 : Inv U ⟨w :: t.worlds⟩ s := hI.mono (fun w' hw' => List.mem_cons_of_mem _ hw')
  have hw : w ∈ (⟨w :: t.worlds⟩ : Track).worlds := List.mem_cons_self
  cases op with
  | build c p =>
    obtain ⟨s', hb, hI', _⟩ := doBuild_spec hI1 c p
    simp [step, pureOut, hb, Track.next, hI']
  | fetch c p x =>
    obtain ⟨h1, h2⟩ := doFetch_spec hI1 hw hf c p x
    simp only [step, pureOut, Track.next]
    rw [if_neg (by simp)]
    exact ⟨by rw [← h1], h2⟩
  | findTypes q =>
    obtain ⟨h1, h2⟩ := doFindTypes_spec hI1 hw hf q
    simp only [step, pureOut, Track.next]
    rw [if_neg (by simp)]
    exact ⟨by rw [← h1], h2⟩
  | findType q =>
    obtain ⟨h1, h2⟩ := doFindTypes_spec hI1 hw hf q
    simp only [step, pureOut, Track.next, doFindType]
    rw [if_neg (by simp)]
    exact ⟨by rw [← h1], h2⟩
  | findSubclass c q =>
    obtain ⟨h1, h2⟩ := doFindSubclass_spec hI1 hw hf c q
    simp only [step, pureOut, Track.next]
    rw [if_neg (by simp)]
    exact ⟨by rw [← h1], h2⟩
  | findTypeByFields names =>
    obtain ⟨s', h1, h2⟩ := doFindTypeByFields_spec hI1 hw hf names hne
    simp only [step, pureOut, Track.next, h1]
    rw [if_neg (by simp)]
    exact ⟨trivial, h2⟩
  | localNamesMatch names c =>
    obtain ⟨s', h1, h2, _⟩ := doLocalNamesMatch_spec hI1 hne names
    simp only [step, pureOut, Track.next, h1]
    rw [if_neg (by simp)]
    refine ⟨?_, h2⟩
    cases pureBuild U c none <;> rfl
  | buildXsiCache =>
    obtain ⟨_, _, _, h4⟩ := doBuildXsi_spec hI1 hw hf
    simp only [step, pureOut, Track.next]
    rw [if_neg (by simp)]
    exact ⟨trivial, h4⟩
  | reset =>
    simp only [step, pureOut, Track.next]
    exact ⟨trivial, Inv.init U _⟩
  | serialize toks =>
    obtain ⟨h1, h2⟩ := serWalk_sim toks s [] [] [] hI1
    simp only [step, pureOut, Track.next]
    rw [if_neg (by simp)]
    unfold Xs.Ctx.serialize pureSerialize
    rw [← h1]
    cases hr : (serWalk U (fun s c p => doBuild U s c p) toks s [] []) with
    | mk s' r =>
      rw [hr] at h2
      cases r <;> exact ⟨rfl, h2⟩

/-- the invariant along a whole history -/
theorem run_inv {U : Universe} : ∀ (h : List (World × Op)) (t : Track) (s : State),
    Inv U t s → histOK U t h →
    ∃ t', Inv U t' (run U s h) ∧ (∀ w op, histOK U t (h ++ [(w, op)]) → okStep U t' w op)
  | [], t, s, hI, _ => ⟨t, hI, by intro w op hh; simpa [histOK] using hh⟩
  | (w, op) :: rest, t, s, hI, hh => by
    obtain ⟨hok, hrest⟩ := hh
    obtain ⟨_, hI'⟩ := step_spec hI hok
    obtain ⟨t', hI'', hnext⟩ := run_inv rest (t.next w op) (step U w s op).1 hI' hrest
    refine ⟨t', hI'', ?_⟩
    intro w' op' hh'
    exact hnext w' op' hh'.2

theorem histOK_prefix {U : Universe} : ∀ (h : List (World × Op)) (t : Track) (x : World × Op),
    histOK U t (h ++ [x]) → histOK U t h
  | [], _, _, _ => trivial
  | (_, _) :: rest, _, x, hx => ⟨hx.1, histOK_prefix rest _ x hx.2⟩

theorem histOK_last {U : Universe} : ∀ (h : List (World × Op)) (t : Track) (w : World) (op : Op),
    histOK U t (h ++ [(w, op)]) → ∃ t', okStep U t' w op
  | [], t, _, _, hx => ⟨t, hx.1⟩
  | (_, _) :: rest, _, w, op, hx => histOK_last rest _ w op hx.2

theorem okStep_empty {U : Universe} {t : Track} {w : World} {op : Op} (h : okStep U t w op) :
    okStep U Track.empty w op := by
  obtain ⟨_, hne⟩ := h
  refine ⟨?_, hne⟩
  intro a ha b hb _
  simp [Track.empty] at ha hb
  rw [ha, hb]

end Xs.Ctx
