/- C15 — bad input fails cleanly: property theorems (only).
   Helper lemmas: `Proofs/C15NoLeak.lean`; concrete data: `Proofs/C15Witness.lean`. -/
import XsdataModel.Proofs.C15NoLeak
import XsdataModel.Proofs.C15Witness
import XsdataModel.Fault.Doc
import XsdataModel.Proofs.C15Dict

namespace Props.C15
open Py Xs.Bind Xs.Fault Proofs.C15

/-! ## XML: tree level (`NodeParser` + nodes + `ParserUtils`) -/

/-- **no_leak_parse.** For every environment whose `is_ncname` rejects the empty string,
every class universe `Γ` (arbitrary exported metadata — no well-formedness of the
metadata is assumed), every parser configuration, every target class and EVERY element
tree, `NodeParser.parse` never ends in an exception type outside the documented set. -/
theorem no_leak_parse (e : BEnv) (he : e.isNCName [] = false) (Γ : Ctx) (cfg : ParserConfig)
    (c : ClassId) (t : Tree) (pyType : String) :
    parseRoot e Γ cfg c t ≠ .error (.leaked pyType) :=
  (parseRoot_clean e he Γ cfg c t).not_leaked pyType

example : Witness.env.isNCName [] = false := rfl

/-- **parse_outcome.** The exact list of outcomes of the tree-level parser: a value, or
`ParserError`, `ConverterError`, `XmlContextError`, or the model's marker `unsupported`
(the input left the modelled fragment: union nodes, callable defaults other than
list/tuple/dict, builtin datatypes other than str/int/bool/QName behind `xsi:type`,
list/dict values below a wildcard).  In particular never `SerializerError`. -/
theorem parse_outcome (e : BEnv) (he : e.isNCName [] = false) (Γ : Ctx) (cfg : ParserConfig)
    (c : ClassId) (t : Tree) :
    (∃ v w, parseRoot e Γ cfg c t = .ok (v, w)) ∨
    (∃ m, parseRoot e Γ cfg c t = .error (.parser m)) ∨
    parseRoot e Γ cfg c t = .error .converter ∨
    (∃ m, parseRoot e Γ cfg c t = .error (.context m)) ∨
    (∃ m, parseRoot e Γ cfg c t = .error (.unsupported m)) := by
  have h := parseRoot_clean e he Γ cfg c t
  cases hr : parseRoot e Γ cfg c t with
  | ok vw => exact .inl ⟨vw.1, vw.2, rfl⟩
  | error err =>
    rw [hr] at h
    cases err with
    | parser m => exact .inr (.inl ⟨m, rfl⟩)
    | converter => exact .inr (.inr (.inl rfl))
    | context m => exact .inr (.inr (.inr (.inl ⟨m, rfl⟩)))
    | unsupported m => exact .inr (.inr (.inr (.inr ⟨m, rfl⟩)))
    | serializer m => cases h
    | leaked m => cases h

/-- every documented class of `parse_outcome` is inhabited by a concrete faulty document
of a one-class universe (so the disjunction cannot be sharpened) -/
example :
    (parseRoot Witness.env Witness.ctx {} "Root".toList Witness.docValid).toBool = true ∧
    parseRoot Witness.env Witness.ctx {} "Root".toList Witness.docMissing = .error (.parser "Failed to create") ∧
    parseRoot Witness.env Witness.ctx {} "Root".toList Witness.docUnknown = .error (.parser "Unknown property") ∧
    parseRoot Witness.env Witness.ctx {} "Root".toList Witness.docBadXsi = .error .converter ∧
    parseRoot Witness.env Witness.ctx {} "Root".toList Witness.docNested
      = .error (.context "Primitive node doesn't support child nodes!") ∧
    parseRoot Witness.env Witness.ctx Witness.strict "Root".toList Witness.docMistyped
      = .error (.parser "Failed to convert value") :=
  ⟨rfl, rfl, rfl, rfl, rfl, rfl⟩

/-- The hypothesis of `no_leak_parse` is needed: were `is_ncname("")` true, the document
`<Root xsi:type=":"/>` would take `ParserUtils.xsi_type` into `build_qname(None, "")`,
whose `ValueError` nobody catches. -/
theorem no_leak_parse_needs_ncname :
    Witness.envBad.isNCName [] = true ∧
    parseRoot Witness.envBad Witness.ctx {} "Root".toList Witness.docColon = .error (.leaked "ValueError") :=
  ⟨rfl, rfl⟩

/-- **parse_total.** The model functions are total Lean functions (`parseNode`,
`parseKids`, `parseWild` recurse structurally on the tree, one call per element), so a
result exists for every input: the tree-level parser cannot hang.  (Stated for the
record; the content is that the definitions were accepted without `partial`.) -/
theorem parse_total (e : BEnv) (Γ : Ctx) (cfg : ParserConfig) (c : ClassId) (t : Tree) :
    ∃ r, parseRoot e Γ cfg c t = r := ⟨_, rfl⟩

/-! ## XML: byte level (`NodeParser.parse` around a tokenizer) -/

/-- the full-strength statement at the byte level: whatever the tokenizer does with the
bytes, only documented errors come out -/
def NoLeakDocument : Prop :=
  ∀ (e : BEnv), e.isNCName [] = false → ∀ (Γ : Ctx) (cfg : ParserConfig) (c : ClassId) (tok : Tok) (py : String),
    parseDocument e Γ cfg c tok ≠ .error (.leaked py)

/-- It is false of the code as it stands: `NodeParser.parse` only translates
`SyntaxError`; what pyexpat's unknown-encoding callback raises for
`<?xml version="1.0" encoding="UTF78"?>` (a `LookupError`) escapes as it is. -/
theorem no_leak_document_counterexample : ¬ NoLeakDocument := by
  intro h
  exact h Witness.env rfl Witness.ctx {} "Root".toList (.raised "LookupError") "LookupError" rfl

/-- the tokenizer outcomes outside the defect -/
def Tok.isRaised : Tok → Bool
  | .raised _ => true
  | _ => false

/-- **no_leak_document_partial.** As long as the tokenizer delivers events or fails with
its `SyntaxError`, the byte-level entry point never leaks; a document that is not
well-formed is always rejected with `ParserError`. -/
theorem no_leak_document_partial (e : BEnv) (he : e.isNCName [] = false) (Γ : Ctx) (cfg : ParserConfig)
    (c : ClassId) (tok : Tok) (htok : Tok.isRaised tok = false) (py : String) :
    parseDocument e Γ cfg c tok ≠ .error (.leaked py) := by
  cases tok with
  | tree t => exact no_leak_parse e he Γ cfg c t py
  | syntaxError => intro h; cases h
  | raised s => cases htok

example : Tok.isRaised (.tree Witness.docMissing) = false ∧ Tok.isRaised .syntaxError = false := ⟨rfl, rfl⟩

/-- not well-formed ⇒ rejected, with `ParserError` -/
theorem malformed_rejected (e : BEnv) (Γ : Ctx) (cfg : ParserConfig) (c : ClassId) :
    ∃ m, parseDocument e Γ cfg c .syntaxError = .error (.parser m) := ⟨_, rfl⟩


/-! ## JSON: `JsonParser.parse` / `DictDecoder.decode`

State of /repo after ca8f47f: `JsonParser.parse` turns every `ValueError` of `json.load` into
`ParserError`, `bind_dataclass` rejects non-objects with `ParserError`. -/

/-- the full-strength statement for the JSON side: whatever `json.load` does with the
bytes and whatever shape the loaded value has, only documented errors come out -/
def NoLeakJson : Prop :=
  ∀ (e : BEnv) (Γ : Ctx) (cfg : ParserConfig) (fuel : Nat) (c : ClassId) (listOf : Bool) (l : Loaded) (py : String),
    parseJson e Γ cfg fuel c listOf l ≠ .error (.leaked py)

/-- It is still false of the code as it stands; one concrete document per remaining leaking
site (each is replayed on the real code as a known finding):
`{"x": {"a": 1}}` (x: Optional[int]) → AssertionError,
`{"at": 5}` / `{"at": "s"}` (at: xs:anyAttribute) → TypeError / ValueError,
`{"t": [null]}` (t: tokens) → TypeError, `{"b": ["a"]}` (b wrapped in "items") → TypeError,
`{"x": {"qname": "q", "type": [1], "value": {}}}` → TypeError (unhashable),
and nesting deeper than the interpreter's recursion limit → RecursionError from `json.load`. -/
theorem no_leak_json_counterexamples :
    decode Witness.env Witness.jctx {} 16 Witness.Doc false (Witness.o [("x", Witness.o [("a", .int 1)])])
      = .error (.leaked "AssertionError") ∧
    decode Witness.env Witness.jctx {} 16 Witness.Doc false (Witness.o [("at", .int 5)]) = .error (.leaked "TypeError") ∧
    decode Witness.env Witness.jctx {} 16 Witness.Doc false (Witness.o [("at", .str ['s'])]) = .error (.leaked "ValueError") ∧
    decode Witness.env Witness.jctx {} 16 Witness.Doc false (Witness.o [("t", .arr [.null])]) = .error (.leaked "TypeError") ∧
    decode Witness.env Witness.jctx {} 16 Witness.Doc false (Witness.o [("b", .arr [.str ['a']])]) = .error (.leaked "TypeError") ∧
    decode Witness.env Witness.jctx {} 16 Witness.Doc false
      (Witness.o [("x", Witness.o [("qname", .str ['q']), ("type", .arr [.int 1]), ("value", Witness.o [])])])
      = .error (.leaked "TypeError") ∧
    parseJson Witness.env Witness.jctx {} 16 Witness.Doc false .recursionError = .error (.leaked "RecursionError") :=
  ⟨rfl, rfl, rfl, rfl, rfl, rfl, rfl⟩

theorem no_leak_json_false : ¬ NoLeakJson := fun h =>
  h Witness.env Witness.jctx {} 16 Witness.Doc false (.value (Witness.o [("at", .int 5)])) "TypeError" rfl

/-- **json_malformed_rejected.** Text that is not JSON, bytes that are not UTF-8 and integer
literals beyond the digit limit are reported as `ParserError` (repaired in ca8f47f). -/
theorem json_malformed_rejected (e : BEnv) (Γ : Ctx) (cfg : ParserConfig) (fuel : Nat) (c : ClassId) (listOf : Bool) :
    (∃ m, parseJson e Γ cfg fuel c listOf .decodeError = .error (.parser m)) ∧
    (∃ m, parseJson e Γ cfg fuel c listOf .unicodeError = .error (.parser m)) ∧
    (∃ m, parseJson e Γ cfg fuel c listOf .intLimit = .error (.parser m)) :=
  ⟨⟨_, rfl⟩, ⟨_, rfl⟩, ⟨_, rfl⟩⟩

/-- **non_object_rejected.** A document that is not a JSON object (scalar, null, array for a
class target; object for a `list[class]` target; any non-object item of the array) is
reported as `ParserError` (repaired in ca8f47f; before: AttributeError). -/
theorem non_object_rejected (e : BEnv) (Γ : Ctx) (cfg : ParserConfig) (fuel : Nat) (c : ClassId) (data : J)
    (h : data.isObj = false) :
    (∃ m, decode e Γ cfg (fuel + 1) c false data = .error (.parser m)) ∧
    (∃ m, decode e Γ cfg (fuel + 1) c true (.arr [data]) = .error (.parser m)) := by
  cases data <;> simp [J.isObj] at h <;>
    exact ⟨⟨_, rfl⟩, ⟨_, rfl⟩⟩

/-- **dict_leak_kinds.** The leaks of `DictDecoder.decode` form a closed list: for every
universe, config, target and EVERY loaded JSON value the outcome is a value, ParserError,
ConverterError, XmlContextError (or `unsupported`), or one of AssertionError, TypeError,
ValueError, KeyError — nothing else, at any nesting depth (`bind_best_dataclass` swallows
what its candidates raise).  AttributeError left the list with ca8f47f. -/
theorem dict_leak_kinds (e : BEnv) (Γ : Ctx) (cfg : ParserConfig) (fuel : Nat) (c : ClassId) (listOf : Bool)
    (data : J) (py : String) (h : decode e Γ cfg fuel c listOf data = .error (.leaked py)) :
    py ∈ dictLeaks := by
  have hc := decode_dclean e Γ cfg fuel c listOf data
  rw [h] at hc
  simpa [DClean, dcleanB, Err.dictSide] using hc

/-- the same for `JsonParser.parse`: the decoder's leaks plus `RecursionError` from `json.load` -/
theorem json_leak_kinds (e : BEnv) (Γ : Ctx) (cfg : ParserConfig) (fuel : Nat) (c : ClassId) (listOf : Bool)
    (l : Loaded) (py : String) (h : parseJson e Γ cfg fuel c listOf l = .error (.leaked py)) :
    py ∈ "RecursionError" :: dictLeaks := by
  cases l with
  | value j => exact List.mem_cons_of_mem _ (dict_leak_kinds e Γ cfg fuel c listOf j py h)
  | recursionError => cases h; simp
  | decodeError => cases h
  | unicodeError => cases h
  | intLimit => cases h

/-- the same without a target class (`decode(data)` → `detect_type`): the leak list does not
grow, and a document whose first item is not an object is a `ParserError` (ca8f47f; before:
AttributeError on `data.keys()` / `data[0].keys()`) -/
theorem dict_auto_leak_kinds (e : BEnv) (Γ : Ctx) (cfg : ParserConfig) (fuel : Nat) (data : J) (py : String)
    (h : decodeAuto e Γ cfg fuel data = .error (.leaked py)) : py ∈ dictLeaks := by
  have hc := decodeAuto_dclean e Γ cfg fuel data
  rw [h] at hc
  simpa [DClean, dcleanB, Err.dictSide] using hc

theorem detect_type_non_object_rejected (e : BEnv) (Γ : Ctx) (cfg : ParserConfig) (fuel : Nat) (data : J) (rest : List J)
    (h : data.isObj = false) :
    (∃ m, decodeAuto e Γ cfg fuel (.arr (data :: rest)) = .error (.parser m)) ∧
    (data.isArr = false → ∃ m, decodeAuto e Γ cfg fuel data = .error (.parser m)) := by
  constructor
  · cases data <;> simp [J.isObj] at h <;> exact ⟨_, rfl⟩
  · intro ha
    cases data <;> simp [J.isObj] at h <;> simp [J.isArr] at ha <;>
      (unfold decodeAuto; split <;> exact ⟨_, rfl⟩)

/-- … and never a SerializerError -/
theorem dict_no_serializer_error (e : BEnv) (Γ : Ctx) (cfg : ParserConfig) (fuel : Nat) (c : ClassId) (listOf : Bool)
    (data : J) (m : String) : decode e Γ cfg fuel c listOf data ≠ .error (.serializer m) := by
  intro h
  have hc := decode_dclean e Γ cfg fuel c listOf data
  rw [h] at hc
  cases hc

/-- **no_leak_dict_partial.** A flat document — anything that is not an object, an object
whose members are scalars, null or arrays of non-null scalars, or an array of such values —
decoded into a class (or `list[class]`) without `xs:anyAttribute` and without wrapped list
fields never leaks.  Compared with the statement before ca8f47f the hypotheses "the document
is an object", "its key set is not {qname, type, value}" and "the target is not a list" are
gone; the two that remain are needed (`no_leak_dict_partial_sharp`). -/
theorem no_leak_dict_partial (e : BEnv) (Γ : Ctx) (cfg : ParserConfig) (fuel : Nat) (c : ClassId) (listOf : Bool)
    (data : J) (hd : flatTop data = true) (hc : plainClass Γ c = true) (py : String) :
    parseJson e Γ cfg fuel c listOf (.value data) ≠ .error (.leaked py) :=
  (decode_flat_clean e Γ cfg fuel c listOf data hd hc).not_leaked py

example :
    flatTop (Witness.o [("x", .str "12x".toList), ("t", .arr [.int 1, .str ['a']]), ("zz", .null)]) = true ∧
    flatTop (.int 5) = true ∧
    flatTop (.arr [.null, Witness.o [("qname", .int 1), ("type", .int 2), ("value", .int 3)]]) = true ∧
    plainClass Witness.jctx Witness.Plain = true ∧ plainClass Witness.jctx Witness.Doc = false :=
  ⟨by decide, by decide, by decide, by decide, by decide⟩

/-- both hypotheses of `no_leak_dict_partial` are needed: a flat document leaks on the
class with the `xs:anyAttribute` field, and a non-flat one on the plain class -/
theorem no_leak_dict_partial_sharp :
    (flatTop (Witness.o [("at", .int 5)]) = true ∧
      decode Witness.env Witness.jctx {} 16 Witness.Doc false (Witness.o [("at", .int 5)]) = .error (.leaked "TypeError")) ∧
    (plainClass Witness.jctx Witness.Plain = true ∧
      decode Witness.env Witness.jctx {} 16 Witness.Plain false (Witness.o [("x", Witness.o [])])
        = .error (.leaked "AssertionError")) :=
  ⟨⟨by decide, rfl⟩, ⟨by decide, rfl⟩⟩

end Props.C15
