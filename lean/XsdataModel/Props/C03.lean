/- C03 — property theorems (only). -/
import XsdataModel.Spec.XmlNs

namespace Props.C03
open Py Xs.Ns Xs.Sax Xs.Writer Spec.XmlNs

end Props.C03
