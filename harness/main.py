import argparse
import importlib
import os
import sys

HERE = os.path.dirname(os.path.abspath(__file__))
sys.path.insert(0, HERE)
REPO = os.environ.get("XSDATA_REPO", "/repo")
sys.path.insert(0, os.path.join(HERE, "shims"))
sys.path.insert(0, REPO)
sys.dont_write_bytecode = True


def main():
    ap = argparse.ArgumentParser()
    ap.add_argument("prop")
    ap.add_argument("--tier", default=os.environ.get("VERIF_TIER", "quick"))
    ap.add_argument("--replay", default=None)
    a = ap.parse_args()
    seed = int(os.environ.get("VERIF_SEED", "0") or 0)
    import framework

    plugin = importlib.import_module(f"props.{a.prop.lower()}")
    try:
        rc = framework.run_check(plugin, a.tier, seed, a.replay)
    except Exception:  # infrastructure failure: never a VIOLATION line
        import traceback

        traceback.print_exc()
        rc = 2
    sys.exit(rc)


if __name__ == "__main__":
    main()
