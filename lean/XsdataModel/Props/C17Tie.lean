/- C17 ↔ C01: a request built from the generated input class, written by the binding
layer's writer and read back, has exactly the Header/Body children the WSDL prescribes.

Reading guide
  `envelopeCtx types pnss env payload dts`  the binding context of one envelope (`Wsdl/Binding.lean`):
      the classes generated for the mapper's envelope class `env` (Envelope, Header, Body,
      Fault, detail) as `XmlMeta` — the composition of rendering and `XmlMetaBuilder`, compared
      with the real generated classes by the op `wsdl.envmeta` — followed by the payload classes
      (`payload`, from the schema half of the pipeline, arbitrary here)
  `classMeta types c cid isGlobal renderNs pns`  the `XmlMeta` of one class of the family
  `generate`, `eventsTree`, `parseRoot`    C01's event generator, abstract writer, node parser
  `presentQNames m fields`                 per element var of `m`, one qname per item of the field value
  `docName`, `docKids`                     element name / child elements of a document node
-/
import XsdataModel.Proofs.WsdlTie
import XsdataModel.Props.C17
import XsdataModel.Props.C01

namespace Props.C17Tie
open Py Xs.Wsdl Xs.Bind Xs.Bind.F1 Proofs.C01

/-- **request_document_shape**: for the binding context of an envelope in fragment F1 and every
request value of the envelope class in F1: the generator succeeds, the writer yields one
document, parsing it gives the request back (no warning), and that document is
`<Envelope>` (the envelope's qname) whose element children are exactly, in order, the
entries of the envelope that are set (`Header`, `Body`); and for every inner class `b` of the
envelope (`Header`, `Body`) whose field holds an object, the corresponding child element has
exactly, in order, one child per set entry of that class, with the qname of the entry. -/
theorem request_document_shape (e : BEnv) (types : List TypeInfo) (pnss : List (Option Str)) (env : Cls)
    (payload : List ClassInfo) (dts : List (QN × Option PT)) (Γ : Ctx) (cfg : SerCfg) (pcfg : ParserConfig)
    (fields : List (Str × Xs.Bind.Val))
    (hΓ : envelopeCtx types pnss env payload dts = some Γ) (hp0 : none ∈ pnss)
    (hF1 : ctxF1 Γ = true) (hids : (Γ.classes.map (·.id)).Nodup)
    (hv : valF1 e Γ env.qname (.obj env.qname fields) = true) :
    ∃ em evs t, classMeta types env env.qname true none none = some em ∧
      generate e Γ cfg (.obj env.qname fields) = .ok evs ∧
      eventsTree (isDatatype Γ) evs = .ok t ∧
      parseRoot e Γ pcfg env.qname t = .ok (.obj env.qname fields, 0) ∧
      docName t = em.qname ∧ (docKids t).map docName = presentQNames em fields ∧
      ∀ (b : Cls) (var : XmlVar) (bfields : List (Str × Xs.Bind.Val)), b ∈ env.inner → var ∈ em.elementVars →
        look fields var.name = .obj (childId env.qname b.name) bfields → Xs.Bind.targetUri em.qname ∈ pnss →
        ∃ bm bt, classMeta types b (childId env.qname b.name) false
              (match env.ns with | some x => some x | none => none) (Xs.Bind.targetUri em.qname) = some bm ∧
          bt ∈ docKids t ∧ docName bt = var.qname ∧ (docKids bt).map docName = presentQNames bm bfields := by
  obtain ⟨em, hem, hmeta⟩ := envelopeCtx_env types pnss env payload dts Γ hΓ hp0
  obtain ⟨evs, m, n, hgen, hm, hsize, htree, hparse⟩ :=
    roundtrip_F1_tree e Γ cfg pcfg env.qname fields hF1 hv
  have hmm : m = em := by rw [hmeta] at hm; exact (Option.some.inj hm).symm
  subst hmm
  have htext := (classMeta_text _ _ _ _ _ _ _ hem).1
  refine ⟨m, evs, _, hem, hgen, htree, hparse, treeOfN_tq .., treeOfN_kids _ _ _ _ _ _ _ _ hm htext, ?_⟩
  intro b var bfields hb hvar hval hpns
  obtain ⟨bm, hbm, hbmeta⟩ := envelopeCtx_inner types pnss env payload dts Γ hΓ hids b hb _ hpns
  have hbtext := (classMeta_text _ _ _ _ _ _ _ hbm).1
  -- the value is nested, so there is a level left for it
  obtain ⟨n', rfl⟩ : ∃ n', n = n' + 1 := by
    have hin : (var.name, look fields var.name) ∈ fields := by
      unfold look at hval ⊢
      cases hf : fields.find? (·.1 = var.name) with
      | none => simp [hf] at hval
      | some kv =>
        have hk : kv.1 = var.name := by simpa using List.find?_some hf
        obtain ⟨k, x⟩ := kv
        simp only at hk
        subst hk
        simpa using List.mem_of_find?_eq_some hf
    have hsz := size_le_sizeFields hin
    rw [hval] at hsz
    simp only [Val.size] at hsz hsize
    exact ⟨n - 1, by omega⟩
  refine ⟨bm, _, hbm, treeOfN_kid_obj _ _ _ _ _ _ _ _ hm htext var hvar _ bfields hval, treeOfN_tq .., ?_⟩
  exact treeOfN_kids _ _ _ _ _ _ _ _ hbmeta hbtext

/-- **entries_are_the_mappers**: the element vars of a family class are its mapper attrs, one
each, in order, under their XML names, required unless the mapper made them optional; the
qname is the XML name in the first of `varNamespaces`: the attr's own (late-resolved) namespace
when the field was rendered with one, else the namespace of the class — so `Header`/`Body`/`Fault`
are in the envelope namespace and a part entry is in the namespace of its element. -/
theorem entries_are_the_mappers (types : List TypeInfo) (cid : Str) (ownerNs renderNs classNs : Option Str)
    (attrs : List AttrM) (start : Nat) (vars : List XmlVar)
    (h : attrVars types cid ownerNs renderNs classNs start attrs = some vars) :
    vars.map (·.localName) = attrs.map (·.name) ∧
    vars.map (·.index) = (List.range attrs.length).map (· + start) ∧
    ∀ v ∈ vars, ∃ a ∈ attrs, ∃ fns, finalNs types classNs a = some fns ∧ v.localName = a.name ∧
      v.required = (a.min != some 0) ∧ v.kind = .element ∧ v.listElement = false ∧
      v.namespaces = varNamespaces fns renderNs ownerNs ∧
      v.qname = bindQName (varNamespaces fns renderNs ownerNs).head? a.name := by
  induction attrs generalizing start vars with
  | nil => simp [attrVars] at h; subst h; simp
  | cons a as ih =>
    simp only [attrVars, Option.pure_def, Option.bind_eq_bind] at h
    obtain ⟨v, hv, h2⟩ := Option.bind_eq_some_iff.1 h
    obtain ⟨rest, hr, h3⟩ := Option.bind_eq_some_iff.1 h2
    simp only [Option.some.injEq] at h3
    subst h3
    obtain ⟨ih1, ih2, ih3⟩ := ih (start + 1) rest hr
    unfold attrVar at hv
    simp only [Option.pure_def, Option.bind_eq_bind] at hv
    obtain ⟨fns0, hf0, hv2⟩ := Option.bind_eq_some_iff.1 hv
    obtain ⟨tc, _, hv3⟩ := Option.bind_eq_some_iff.1 hv2
    simp only [Option.some.injEq] at hv3
    subst hv3
    refine ⟨by simp [ih1], ?_, ?_⟩
    · simp only [List.map_cons, List.length_cons, ih2]
      rw [List.range_succ_eq_map]
      simp [List.map_map, Function.comp_def, Nat.add_assoc, Nat.add_comm 1 start]
    · intro w hw
      rcases List.mem_cons.1 hw with rfl | hw
      · exact ⟨a, List.mem_cons_self, fns0, hf0, rfl, rfl, rfl, rfl, rfl, rfl⟩
      · obtain ⟨a', ha', rest'⟩ := ih3 w hw
        exact ⟨a', List.mem_cons_of_mem _ ha', rest'⟩

/-- decision table of `varNamespaces` -/
theorem var_namespace_table (fns renderNs ownerNs : Option Str) :
    varNamespaces fns renderNs ownerNs =
      match fns, ownerNs with
      | some (c :: cs), o => if fns == renderNs then (match o with | some (d :: ds) => [d :: ds] | _ => []) else [c :: cs]
      | some [], o => if fns == renderNs then (match o with | some (d :: ds) => [d :: ds] | _ => []) else []
      | none, o => (match o with | some (d :: ds) => [d :: ds] | _ => []) := by
  unfold varNamespaces
  cases fns with
  | none =>
    cases hr : ((none : Option Str) == renderNs) <;> simp <;>
      (try (cases ownerNs with | none => rfl | some o => cases o <;> rfl))
  | some f =>
    cases f with
    | nil =>
      cases hr : (some ([] : Str) == renderNs) <;> simp <;>
        (try (cases ownerNs with | none => rfl | some o => cases o <;> rfl))
    | cons c cs =>
      cases hr : (some (c :: cs) == renderNs) <;> simp <;>
        (try (cases ownerNs with | none => rfl | some o => cases o <;> rfl))

/-! ## a concrete envelope satisfying the hypotheses -/

namespace Witness
open Props.C17.Witness (hdr header body envNs)
open Props.C01 (mkVar mkMeta e0 xsString)

def echoMsg : Message := ⟨ws!"echoIn", [⟨ws!"request", none, some ws!"tns:Echo", [(some ws!"tns", ws!"urn:t")]⟩], []⟩
def wdefs : Definitions := ⟨some ws!"urn:t", [echoMsg, hdr], [], [], []⟩
def wpm : PtMessage := ⟨ws!"tns:echoIn", [(some ws!"tns", ws!"urn:t")], ws!"l"⟩

/-- the mapper's input envelope of a document operation with one `soap:header` and a `soap:body` -/
def wenv : Cls :=
  match buildEnvelopeClass wdefs ⟨[header, body], [], ws!"l"⟩ wpm ws!"Pt_echo_input" ws!"document" envNs (some ws!"echo") with
  | .ok c => c
  | .error _ => Cls.mk [] none [] 0 none [] [] [] []

def wtypes : List TypeInfo :=
  [⟨ws!"{urn:t}Echo", .complex, none, some ws!"py:Echo"⟩, ⟨ws!"{urn:t}H", .complex, none, some ws!"py:H"⟩]

/-- a global element class `{urn:t}<name>` with one required `str` child `{urn:t}a` -/
def elemClass (name : String) : ClassInfo :=
  let a := mkVar 1 "a" "{urn:t}a" .element [.prim .str] (required := true) (namespaces := [ws!"urn:t"])
  let m := mkMeta ("py:" ++ name) ("{urn:t}" ++ name) none [a] []
  { id := ("py:" ++ name).toList, metas := [(none, m), (envNs, m)], mro := [("py:" ++ name).toList], bases := [],
    fields := [⟨ws!"a", true, none⟩] }

def wΓ : Ctx :=
  (envelopeCtx wtypes [none, envNs] wenv [elemClass "Echo", elemClass "H"] [(xsString.toList, some .str)]).getD
    ⟨[], [], []⟩

def wreq : Xs.Bind.Val :=
  .obj wenv.qname
    [(ws!"Header", .obj (childId wenv.qname ws!"Header") [(ws!"H", .obj ws!"py:H" [(ws!"a", .prim (.str ws!"token"))])]),
     (ws!"Body", .obj (childId wenv.qname ws!"Body") [(ws!"Echo", .obj ws!"py:Echo" [(ws!"a", .prim (.str ws!"hello"))])])]
end Witness

example : (envelopeCtx Witness.wtypes [none, Props.C17.Witness.envNs] Witness.wenv
    [Witness.elemClass "Echo", Witness.elemClass "H"] [(Props.C01.xsString.toList, some .str)]).isSome = true := by
  decide +kernel

example : ctxF1 Witness.wΓ = true ∧ (Witness.wΓ.classes.map (·.id)).Nodup ∧
    valF1 Props.C01.e0 Witness.wΓ Witness.wenv.qname Witness.wreq = true := by
  decide +kernel

/-- names in the document the model writes for the witness request -/
def Witness.shape : Option (QN × List QN × List (List QN)) :=
  match generate Props.C01.e0 Witness.wΓ {} Witness.wreq with
  | .ok evs =>
    match eventsTree (isDatatype Witness.wΓ) evs with
    | .ok t => some (docName t, (docKids t).map docName, (docKids t).map (fun k => (docKids k).map docName))
    | .error _ => none
  | .error _ => none

/-- the theorem at work: the request `Envelope(Header(H), Body(Echo))` is written as
`{soap-env}Envelope` with children `Header`, `Body` in the envelope namespace, holding the
header element and the body element in the schema's namespace. -/
example : Witness.shape = some (ws!"{http://schemas.xmlsoap.org/soap/envelope/}Envelope",
    [ws!"{http://schemas.xmlsoap.org/soap/envelope/}Header", ws!"{http://schemas.xmlsoap.org/soap/envelope/}Body"],
    [[ws!"{urn:t}H"], [ws!"{urn:t}Echo"]]) := by
  decide +kernel

end Props.C17Tie
