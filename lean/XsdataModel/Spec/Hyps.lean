/-
Spec — the decidable hypotheses of the C03 theorems: which user prefix maps,
names and values lie inside the region where the writer is proved correct.
Every predicate is a `Bool`-valued function of the *input*.
-/
import XsdataModel.Spec.XmlNs
import XsdataModel.Spec.EventTree
import XsdataModel.Xml.TblNsEnv

namespace Spec.Hyps
open Py Xs.Ns Xs.Sax Xs.Writer Spec.XmlNs Spec.EventTree

/-- a namespace name that may be bound to a prefix: non-empty, no character
that would need escaping inside `xmlns:p="…"`, not the xmlns namespace -/
def uriOK (u : Str) : Bool := !u.isEmpty && uriSafe u && u != xmlnsNsUri

/-! ### the constant tables -/

def enumEntryOK (e : Str × Str) : Bool :=
  isNCName e.2 && e.2 != xmlnsPrefix && !(nsLit.isPrefixOf e.2) && uriOK e.1 && ((e.2 == xmlPrefix) == (e.1 == xmlNsUri))

/-- what the proofs need from `Namespace` / `XMLGenerator`: standard prefixes are
NCNames, none looks like a generated `ns<k>`, `xml` ↔ the XML namespace, no two
standard namespaces share a prefix -/
def envOK (env : NsEnv) : Bool :=
  env.saxXmlNs == xmlNsUri && dget env.enum xmlNsUri == some xmlPrefix && env.enum.all enumEntryOK
  && env.enum.all (fun e1 => env.enum.all (fun e2 => e1.2 != e2.2 || e1.1 == e2.1))

/-! ### user prefix map (after `clean_prefixes`) -/

/-- prefixes the user may not choose: `ns<digits>` at or beyond the size of the
map (they collide with generated ones) -/
def nsKFree (M : NsMap) : Bool :=
  M.all fun e => match e.1 with
    | some p =>
      -- p = "ns" ++ digits with value ≥ |M| would collide; every "ns" + (one or more digits) prefix is excluded
      !(nsLit.isPrefixOf p && !(p.drop 2).isEmpty && (p.drop 2).all (fun c => 48 ≤ c.toNat && c.toNat ≤ 57))
    | none => true

/-- a standard prefix may only be bound to its standard namespace -/
def enumConsistent (env : NsEnv) (M : NsMap) : Bool :=
  env.enum.all fun e => match dget M (some e.2) with
    | some u => u == e.1
    | none => true

def userMapOK (env : NsEnv) (m : List (Pfx × Str)) : Bool :=
  let M := serializerNsMap m
  nsKFree M && enumConsistent env M && M.all declOK

/-- the user's default namespace, if any -/
def userDefault (m : List (Pfx × Str)) : Option Str := dget (serializerNsMap m) none

/-! ### names and values -/

/-- namespace part of a name is absent or declarable -/
def nsPartOK : Option Str → Bool
  | none => true
  | some u => uriOK u

/-- QName text: Clark notation with a declarable namespace, or a bare NCName -/
def qnameTextOK (t : Str) : Bool :=
  match clark t with
  | some (some u, _) => uriOK u
  | some (none, _) => true
  | none => false

/-- atoms the event generator produces (str, QName) with XML characters only -/
def atomOK : Atom → Bool
  | .str s => xmlChars s
  | .qname t => qnameTextOK t
  | .int _ => false
  | .bool _ => false

def valOK : Val → Bool
  | .none => true
  | .atom a => atomOK a
  | .list xs => xs.all atomOK

def atomNoCR : Atom → Bool
  | .str s => !s.contains '\r'
  | _ => true

/-- character data: as `valOK`, and no carriage return in literal text -/
def dataValOK : Val → Bool
  | .none => true
  | .atom a => atomOK a && atomNoCR a
  | .list xs => xs.all (fun a => atomOK a && atomNoCR a)

def hasValue : Val → Bool
  | .none => false
  | .list [] => false
  | _ => true

/-- element name in Clark notation: NCName local part, declarable namespace -/
def elemNameOK (q : Str) : Bool :=
  match clark q with
  | some n => nsPartOK n.1
  | none => false

/-- an attribute name the writer can write correctly: local part an NCName
(not the bare `xmlns`), namespace declarable and different from the user's
default namespace -/
def attrNameOK (d : Option Str) (n : EName) : Bool :=
  isNCName n.2 && (match n.1 with
    | none => n.2 != xmlnsPrefix
    | some u => uriOK u && some u != d)

def attrOK (env : NsEnv) (d : Option Str) (a : Str × Val) : Bool :=
  (match clark a.1 with
    | some n => attrNameOK d n
    | none => false)
  && valOK (xsiTypeValue env a.1 a.2) && hasValue (xsiTypeValue env a.1 a.2)

/-- the lexical conditions on an event forest -/
def contentOK (env : NsEnv) (d : Option Str) : Content → Bool
  | .nil => true
  | .data v rest => dataValOK v && contentOK env d rest
  | .child q attrs kids rest =>
    elemNameOK q && attrs.all (attrOK env d) && contentOK env d kids && contentOK env d rest

end Spec.Hyps

namespace Spec.Hyps
open Py Xs.Ns Xs.Sax Xs.Writer Spec.XmlNs Spec.EventTree

/-! ### structure of the event sequence -/

/-- encoding this atom cannot create a prefix: a QName atom has no namespace -/
def atomNoNs : Atom → Bool
  | .qname t => (match clark t with
    | some (none, _) => true
    | _ => false)
  | _ => true

def valNoNs : Val → Bool
  | .none => true
  | .atom a => atomNoNs a
  | .list xs => xs.all atomNoNs

/-- the value may encode to a non-empty string -/
def mayBeText : Val → Bool
  | .none => false
  | .list [] => false
  | .atom (.str s) => !s.isEmpty
  | _ => true

/-- Structural conditions on a forest.  `first`: the enclosing element's start
tag is still pending (nothing of its content seen yet); `afterData`: the
previous event was a DATA event.  A DATA event that is not the first content
event must not carry a QName with a namespace (its prefix would be created
after the declarations were written) and must not carry text directly after
another DATA event (it would be written after the end tag). -/
def shapeOK : Bool → Bool → Content → Bool
  | _, _, .nil => true
  | first, afterData, .data v rest =>
    (first || (valNoNs v && !(afterData && mayBeText v))) && shapeOK false true rest
  | _, _, .child _ _ kids rest => shapeOK true false kids && shapeOK false false rest

end Spec.Hyps
