/-
Invocation routes.

* `xsdata/cli.py : generate` — `uris = sorted(resolve_source(...))`, then
  `ResourceTransformer.process_sources` buckets the URIs by resource type and
  processes the buckets in a fixed order.
* configuration: `GeneratorOutput(...)` (API and config-file route: the
  dataclass constructors run `__post_init__` → `validate`) versus
  `config.output.update(**params)` (CLI flags: `objects.update` =
  `setattr` along the dotted key, then only `self.format.validate()`).
-/
import XsdataModel.Codegen.Basic
import XsdataModel.Tables

namespace Xs.Codegen
open Py

/-! ### source order -/

/-- `TYPE_*` constants of transformer.py in the order `process_sources` handles them -/
inductive ResType where
  | definition | schema | dtd | xml | json | unknown
deriving Repr, DecidableEq

/-- `cli.generate` + `process_sources`: sort, bucket by type, process buckets in
the fixed order wsdl, xsd, dtd, xml, json (unknown resources are dropped). -/
def processOrder (classify : Str → ResType) (uris : List Str) : List Str :=
  let sorted := pySorted uris
  [ResType.definition, .schema, .dtd, .xml, .json].flatMap
    (fun t => sorted.filter (fun u => classify u == t))

/-! ### configuration -/

structure OutFormat where
  value : Str
  repr : Bool
  eq : Bool
  order : Bool
  unsafeHash : Bool
  frozen : Bool
  slots : Bool
deriving Repr, DecidableEq

/-- the CLI-settable part of `GeneratorOutput` -/
structure GenOutput where
  package : Str
  format : OutFormat
  structureStyle : Str
  docstringStyle : Str
  relativeImports : Bool
  compoundFields : Bool
  wrapperFields : Bool
  maxLineLength : Int
  genericCollections : Bool
  unnestClasses : Bool
  ignorePatterns : Bool
  includeHeader : Bool
deriving Repr, DecidableEq

inductive OptVal where
  | str (s : Str)
  | bool (b : Bool)
  | int (i : Int)
deriving Repr, DecidableEq

/-- `OutputFormat.validate` -/
def formatValidate (f : OutFormat) : OutFormat :=
  if f.order && !f.eq then { f with eq := true } else f

/-- `GeneratorOutput.validate` -/
def outputValidate (o : GenOutput) : GenOutput :=
  if o.genericCollections && o.format.frozen then { o with genericCollections := false } else o

/-- `GeneratorOutput(format=OutputFormat(...), ...)`: both `__post_init__` run -/
def construct (o : GenOutput) : GenOutput :=
  outputValidate { o with format := formatValidate o.format }

/-- the option destinations of `@model_options(GeneratorOutput)` in declaration order -/
inductive Dest where
  | package
  | fmtValue
  | fmtRepr
  | fmtEq
  | fmtOrder
  | fmtUnsafeHash
  | fmtFrozen
  | fmtSlots
  | structureStyle
  | docstringStyle
  | relativeImports
  | compoundFields
  | wrapperFields
  | maxLineLength
  | genericCollections
  | unnestClasses
  | ignorePatterns
  | includeHeader
deriving Repr, DecidableEq

def Dest.all : List Dest :=
  [.package, .fmtValue, .fmtRepr, .fmtEq, .fmtOrder, .fmtUnsafeHash, .fmtFrozen, .fmtSlots, .structureStyle, .docstringStyle, .relativeImports, .compoundFields, .wrapperFields, .maxLineLength, .genericCollections, .unnestClasses, .ignorePatterns, .includeHeader]

/-- the keyword click passes to `generate` (`"__".join(qname.split("."))`) -/
def Dest.name : Dest → Str
  | .package => ['p', 'a', 'c', 'k', 'a', 'g', 'e']
  | .fmtValue => ['f', 'o', 'r', 'm', 'a', 't', '_', '_', 'v', 'a', 'l', 'u', 'e']
  | .fmtRepr => ['f', 'o', 'r', 'm', 'a', 't', '_', '_', 'r', 'e', 'p', 'r']
  | .fmtEq => ['f', 'o', 'r', 'm', 'a', 't', '_', '_', 'e', 'q']
  | .fmtOrder => ['f', 'o', 'r', 'm', 'a', 't', '_', '_', 'o', 'r', 'd', 'e', 'r']
  | .fmtUnsafeHash => ['f', 'o', 'r', 'm', 'a', 't', '_', '_', 'u', 'n', 's', 'a', 'f', 'e', '_', 'h', 'a', 's', 'h']
  | .fmtFrozen => ['f', 'o', 'r', 'm', 'a', 't', '_', '_', 'f', 'r', 'o', 'z', 'e', 'n']
  | .fmtSlots => ['f', 'o', 'r', 'm', 'a', 't', '_', '_', 's', 'l', 'o', 't', 's']
  | .structureStyle => ['s', 't', 'r', 'u', 'c', 't', 'u', 'r', 'e', '_', 's', 't', 'y', 'l', 'e']
  | .docstringStyle => ['d', 'o', 'c', 's', 't', 'r', 'i', 'n', 'g', '_', 's', 't', 'y', 'l', 'e']
  | .relativeImports => ['r', 'e', 'l', 'a', 't', 'i', 'v', 'e', '_', 'i', 'm', 'p', 'o', 'r', 't', 's']
  | .compoundFields => ['c', 'o', 'm', 'p', 'o', 'u', 'n', 'd', '_', 'f', 'i', 'e', 'l', 'd', 's', '_', '_', 'e', 'n', 'a', 'b', 'l', 'e', 'd']
  | .wrapperFields => ['w', 'r', 'a', 'p', 'p', 'e', 'r', '_', 'f', 'i', 'e', 'l', 'd', 's']
  | .maxLineLength => ['m', 'a', 'x', '_', 'l', 'i', 'n', 'e', '_', 'l', 'e', 'n', 'g', 't', 'h']
  | .genericCollections => ['g', 'e', 'n', 'e', 'r', 'i', 'c', '_', 'c', 'o', 'l', 'l', 'e', 'c', 't', 'i', 'o', 'n', 's']
  | .unnestClasses => ['u', 'n', 'n', 'e', 's', 't', '_', 'c', 'l', 'a', 's', 's', 'e', 's']
  | .ignorePatterns => ['i', 'g', 'n', 'o', 'r', 'e', '_', 'p', 'a', 't', 't', 'e', 'r', 'n', 's']
  | .includeHeader => ['i', 'n', 'c', 'l', 'u', 'd', 'e', '_', 'h', 'e', 'a', 'd', 'e', 'r']

/-- kind of value the option takes -/
def Dest.kind : Dest → Str
  | .package => ['s', 't', 'r']
  | .fmtValue => ['s', 't', 'r']
  | .fmtRepr => ['b', 'o', 'o', 'l']
  | .fmtEq => ['b', 'o', 'o', 'l']
  | .fmtOrder => ['b', 'o', 'o', 'l']
  | .fmtUnsafeHash => ['b', 'o', 'o', 'l']
  | .fmtFrozen => ['b', 'o', 'o', 'l']
  | .fmtSlots => ['b', 'o', 'o', 'l']
  | .structureStyle => ['s', 't', 'r']
  | .docstringStyle => ['s', 't', 'r']
  | .relativeImports => ['b', 'o', 'o', 'l']
  | .compoundFields => ['b', 'o', 'o', 'l']
  | .wrapperFields => ['b', 'o', 'o', 'l']
  | .maxLineLength => ['i', 'n', 't']
  | .genericCollections => ['b', 'o', 'o', 'l']
  | .unnestClasses => ['b', 'o', 'o', 'l']
  | .ignorePatterns => ['b', 'o', 'o', 'l']
  | .includeHeader => ['b', 'o', 'o', 'l']

def Dest.parse (n : Str) : Option Dest := Dest.all.find? (fun d => d.name == n)

/-- `objects.update`'s `attrsetter(obj, key, value)` for the dotted key that
`cli.generate` makes of the destination; `none` = a value of the wrong kind
(click's type conversion excludes it). -/
def setField (o : GenOutput) (d : Dest) (v : OptVal) : Option GenOutput :=
  match d, v with
  | .package, OptVal.str x => some { o with package := x }
  | .fmtValue, OptVal.str x => some { o with format := { o.format with value := x } }
  | .fmtRepr, OptVal.bool x => some { o with format := { o.format with repr := x } }
  | .fmtEq, OptVal.bool x => some { o with format := { o.format with eq := x } }
  | .fmtOrder, OptVal.bool x => some { o with format := { o.format with order := x } }
  | .fmtUnsafeHash, OptVal.bool x => some { o with format := { o.format with unsafeHash := x } }
  | .fmtFrozen, OptVal.bool x => some { o with format := { o.format with frozen := x } }
  | .fmtSlots, OptVal.bool x => some { o with format := { o.format with slots := x } }
  | .structureStyle, OptVal.str x => some { o with structureStyle := x }
  | .docstringStyle, OptVal.str x => some { o with docstringStyle := x }
  | .relativeImports, OptVal.bool x => some { o with relativeImports := x }
  | .compoundFields, OptVal.bool x => some { o with compoundFields := x }
  | .wrapperFields, OptVal.bool x => some { o with wrapperFields := x }
  | .maxLineLength, OptVal.int x => some { o with maxLineLength := x }
  | .genericCollections, OptVal.bool x => some { o with genericCollections := x }
  | .unnestClasses, OptVal.bool x => some { o with unnestClasses := x }
  | .ignorePatterns, OptVal.bool x => some { o with ignorePatterns := x }
  | .includeHeader, OptVal.bool x => some { o with includeHeader := x }
  | _, _ => none

/-- `GeneratorOutput.update(**kwargs)`: set every key, then `self.format.validate()` only -/
def update (o : GenOutput) (params : List (Dest × OptVal)) : Option GenOutput :=
  (params.foldlM (fun o kv => setField o kv.1 kv.2) o).map
    (fun o => { o with format := formatValidate o.format })

/-- `cli.generate`: `params = {k: v for k, v in kwargs.items() if v is not None}`;
`config = GeneratorConfig.read(config_file)`; `config.output.update(**params)` -/
def cliGenerate (fileConfig : GenOutput) (kwargs : List (Dest × Option OptVal)) : Option GenOutput :=
  update fileConfig (kwargs.filterMap (fun kv => kv.2.map (fun v => (kv.1, v))))

/-- the value of the field a destination points to -/
def getField (o : GenOutput) : Dest → OptVal
  | .package => OptVal.str o.package
  | .fmtValue => OptVal.str o.format.value
  | .fmtRepr => OptVal.bool o.format.repr
  | .fmtEq => OptVal.bool o.format.eq
  | .fmtOrder => OptVal.bool o.format.order
  | .fmtUnsafeHash => OptVal.bool o.format.unsafeHash
  | .fmtFrozen => OptVal.bool o.format.frozen
  | .fmtSlots => OptVal.bool o.format.slots
  | .structureStyle => OptVal.str o.structureStyle
  | .docstringStyle => OptVal.str o.docstringStyle
  | .relativeImports => OptVal.bool o.relativeImports
  | .compoundFields => OptVal.bool o.compoundFields
  | .wrapperFields => OptVal.bool o.wrapperFields
  | .maxLineLength => OptVal.int o.maxLineLength
  | .genericCollections => OptVal.bool o.genericCollections
  | .unnestClasses => OptVal.bool o.unnestClasses
  | .ignorePatterns => OptVal.bool o.ignorePatterns
  | .includeHeader => OptVal.bool o.includeHeader

/-- the kwargs click hands to `generate` when every option is given explicitly for `o` -/
def flagsOf (o : GenOutput) : List (Dest × Option OptVal) :=
  Dest.all.map (fun d => (d, some (getField o d)))

/-- `GeneratorOutput()` -/
def defaultOutput : GenOutput :=
  { package := ['g', 'e', 'n', 'e', 'r', 'a', 't', 'e', 'd']
    format := { value := ['d', 'a', 't', 'a', 'c', 'l', 'a', 's', 's', 'e', 's'], repr := true, eq := true, order := false,
                unsafeHash := false, frozen := false, slots := false }
    structureStyle := ['f', 'i', 'l', 'e', 'n', 'a', 'm', 'e', 's'], docstringStyle := ['r', 'e', 'S', 't', 'r', 'u', 'c', 't', 'u', 'r', 'e', 'd', 'T', 'e', 'x', 't']
    relativeImports := false, compoundFields := false, wrapperFields := false
    maxLineLength := 79, genericCollections := false, unnestClasses := false
    ignorePatterns := false, includeHeader := false }

/-- Python `str(value)` -/
def OptVal.pyStr : OptVal → Str
  | .str x => x
  | .bool true => ['T', 'r', 'u', 'e']
  | .bool false => ['F', 'a', 'l', 's', 'e']
  | .int i => intStr i

/-- `(dest, str(value))` of every CLI-settable field (compared with `Tables.cliDefaults`) -/
def describe (o : GenOutput) : List (Str × Str) :=
  Dest.all.map (fun d => (d.name, (getField o d).pyStr))

/-- `(dest, kind)` of every option (compared with `Tables.cliOptions`) -/
def optionDests : List (Str × Str) := Dest.all.map (fun d => (d.name, d.kind))

end Xs.Codegen
