/- The structure styles `namespaces`, `single-package` and `filenames` designate
every class independently of the order in which the container lists the classes. -/
import XsdataModel.Codegen.Styles
import XsdataModel.Proofs.ToposortPerm

set_option linter.unusedSimpArgs false
set_option linter.unusedVariables false

namespace Xs.Codegen
open Py List

/-! ### `mapExcept` and permutations -/

theorem mapExcept_ok_filterMap {α β ε} (f : α → Except ε β) :
    ∀ (l : List α) (r : List β), mapExcept f l = .ok r → r = l.filterMap (fun a => (f a).toOption)
  | [], r, h => by simp only [mapExcept, Except.ok.injEq] at h; subst h; rfl
  | a :: as, r, h => by
    simp only [mapExcept] at h
    cases hf : f a with
    | error e => simp [hf] at h
    | ok b =>
      simp only [hf] at h
      cases hm : mapExcept f as with
      | error e => simp [hm] at h
      | ok bs =>
        simp only [hm, Except.ok.injEq] at h
        subst h
        have ih := mapExcept_ok_filterMap f as bs hm
        rw [List.filterMap_cons, hf, ← ih]
        rfl

theorem mapExcept_ok_all {α β ε} (f : α → Except ε β) :
    ∀ (l : List α) (r : List β), mapExcept f l = .ok r → ∀ a ∈ l, ∃ b, f a = .ok b
  | [], _, _, a, ha => by cases ha
  | x :: xs, r, h, a, ha => by
    simp only [mapExcept] at h
    cases hf : f x with
    | error e => simp [hf] at h
    | ok b =>
      simp only [hf] at h
      cases hm : mapExcept f xs with
      | error e => simp [hm] at h
      | ok bs =>
        rcases List.mem_cons.1 ha with rfl | ha'
        · exact ⟨b, hf⟩
        · exact mapExcept_ok_all f xs bs hm a ha'

theorem mapExcept_of_all {α β ε} (f : α → Except ε β) :
    ∀ (l : List α), (∀ a ∈ l, ∃ b, f a = .ok b) → ∃ r, mapExcept f l = .ok r
  | [], _ => ⟨[], rfl⟩
  | x :: xs, h => by
    obtain ⟨b, hb⟩ := h x List.mem_cons_self
    obtain ⟨bs, hbs⟩ := mapExcept_of_all f xs (fun a ha => h a (List.mem_cons_of_mem _ ha))
    exact ⟨b :: bs, by simp only [mapExcept, hb, hbs]⟩

/-- a per-element computation over a permuted list gives the permuted result (and fails iff it failed) -/
theorem mapExcept_perm {α β ε} (f : α → Except ε β) {l l' : List α} (hp : l ~ l') {r : List β}
    (h : mapExcept f l = .ok r) : ∃ r', mapExcept f l' = .ok r' ∧ r ~ r' := by
  have hall := mapExcept_ok_all f l r h
  obtain ⟨r', hr'⟩ := mapExcept_of_all f l' (fun a ha => hall a (hp.symm.subset ha))
  refine ⟨r', hr', ?_⟩
  rw [mapExcept_ok_filterMap f l r h, mapExcept_ok_filterMap f l' r' hr']
  exact hp.filterMap _

/-! ### filenames: the location table does not depend on the container order -/

theorem dedup_sorted_perm {l l' : List Str} (hp : l ~ l') : pySorted (dedup l) = pySorted (dedup l') :=
  pySorted_ext (nodup_dedup l) (nodup_dedup l')
    (fun x => by rw [mem_dedup, mem_dedup]; exact hp.mem_iff)

theorem groupCommonPaths_congr (commonDir : Str) {a b : List Str} (h : pySorted a = pySorted b) :
    groupCommonPaths commonDir a = groupCommonPaths commonDir b := by
  unfold groupCommonPaths; rw [h]

theorem filenameTargets_perm (package commonDir : Str) {l l' : List Str} (hp : l ~ l') :
    filenameTargets package commonDir (dedup l) = filenameTargets package commonDir (dedup l') := by
  unfold filenameTargets
  rw [groupCommonPaths_congr commonDir (dedup_sorted_perm hp)]

end Xs.Codegen
