/-
C09 — `process_xinclude=True` (xsdata/formats/dataclass/parsers/handlers/native.py):

    root = etree.parse(source).getroot()
    base_url = get_base_url(self.parser.config.base_url, source)
    loader = functools.partial(xinclude_loader, base_url=base_url)
    xinclude.include(root, loader=loader)
    ctx = iterwalk(root, {})

`get_base_url` and `xinclude_loader` are xsdata's; `ElementInclude.include` is the standard
library's (modelled here for `parse="xml"`, the splitting of a document the property is about);
`urljoin` and the file system are the world.  The lxml handler calls `tree.xinclude()` (libxml2).
Both replace an `xi:include` element by the root element of the named document (tail text kept),
recursively.  What differs is what comes after: the native handler walks an ElementTree, whose
prefix declarations are gone (`iterwalk`, Backends/Handler.lean).
-/
import XsdataModel.Backends.Infoset

namespace Xs.Backends
open Py Xs.Bind

def xiNs : Str := "http://www.w3.org/2001/XInclude".toList
def xiInclude : QN := ['{'] ++ xiNs ++ "}include".toList
def xiFallback : QN := ['{'] ++ xiNs ++ "}fallback".toList

structure XiWorld where
  /-- `urllib.parse.urljoin` -/
  urljoin : Str → Str → Str
  /-- `ElementInclude.default_loader(href, "xml")`: the root element of the document (`none`: OSError) -/
  load : Str → Option XTree

inductive XiErr
  | io                 -- OSError from `open`
  | recursive          -- FatalIncludeError("recursive include of …")
  | depth              -- LimitedRecursiveIncludeError
  | fatal              -- FatalIncludeError (xi:fallback outside xi:include, unknown parse type)
  | unsupported        -- parse="text", missing href: outside the modelled fragment
deriving DecidableEq, Repr

/-- `get_base_url(base_url, source)`: the configured base url if it is not empty, else the source when
it is a file name -/
def getBaseUrl (cfgBase : Option Str) (sourceName : Option Str) : Option Str :=
  match cfgBase with
  | some b => if b.isEmpty then sourceName else some b
  | none => sourceName

/-- `xinclude_loader(href, "xml", base_url=base_url)` -/
def xincludeLoader (W : XiWorld) (baseUrl : Option Str) (href : Str) : Option XTree :=
  W.load (W.urljoin (baseUrl.getD []) href)

def attrGet (a : List (QN × Str)) (k : String) : Option Str := (a.find? (·.1 = k.toList)).map (·.2)

def XTree.withTail : XTree → Option Str → XTree
  | .node d q a s t c _, tl => .node d q a s t c tl
def XTree.tail : XTree → Option Str
  | .node _ _ _ _ _ _ tl => tl
def XTree.withKids : XTree → List XTree → XTree
  | .node d q a s t _ tl, c => .node d q a s t c tl
def XTree.kids : XTree → List XTree
  | .node _ _ _ _ _ c _ => c

/-- `ElementInclude._include(elem, loader, base_url, max_depth, _parent_hrefs)` over the children of an
element; `loaderBase` is the `base_url` frozen into xsdata's loader, `incBase` the `base_url` argument
of `_include` (`None` at the top, the href of the including document below), `fuel` bounds the
recursion of this definition (the code is bounded by `max_depth` and the size of the documents) -/
def includeKids (W : XiWorld) (loaderBase : Option Str) : Nat → Option Str → Nat → List Str → List XTree →
    Except XiErr (List XTree)
  | 0, _, _, _, _ => .error .unsupported
  | _, _, _, _, [] => .ok []
  | fuel + 1, incBase, maxDepth, parents, e :: rest =>
    match e with
    | .node d q a s t c tl =>
      if q = xiInclude then
        match attrGet a "href" with
        | none => .error .unsupported
        | some href0 =>
          let href := match incBase with
            | some b => if b.isEmpty then href0 else W.urljoin b href0
            | none => href0
          if (attrGet a "parse").getD "xml".toList ≠ "xml".toList then
            (if (attrGet a "parse") = some "text".toList then .error .unsupported else .error .fatal)
          else if parents.contains href then .error .recursive
          else if maxDepth = 0 then .error .depth
          else
            match xincludeLoader W loaderBase href with
            | none => .error .io
            | some node => do
              let kids ← includeKids W loaderBase fuel (some href) (maxDepth - 1) (href :: parents) node.kids
              let tail := match tl with
                | some s => if s.isEmpty then node.tail else some (node.tail.getD [] ++ s)
                | none => node.tail
              let r ← includeKids W loaderBase fuel incBase maxDepth parents rest
              pure ((node.withKids kids).withTail tail :: r)
      else if q = xiFallback then .error .fatal
      else do
        let kids ← includeKids W loaderBase fuel incBase maxDepth parents c
        let r ← includeKids W loaderBase fuel incBase maxDepth parents rest
        pure (.node d q a s t kids tl :: r)

/-- `xinclude.include(root, loader=loader)`: `DEFAULT_MAX_INCLUSION_DEPTH = 6` -/
def xiExpand (W : XiWorld) (fuel : Nat) (cfgBase sourceName : Option Str) (root : XTree) : Except XiErr XTree :=
  (includeKids W (getBaseUrl cfgBase sourceName) fuel none 6 [] root.kids).map root.withKids

/-- `XmlEventHandler.parse` with `process_xinclude`: the calls on the parser -/
def nativeXiCalls (W : XiWorld) (wk : List (Str × Str)) (fuel : Nat) (cfgBase sourceName : Option Str) (root : XTree) :
    Except XiErr (List PEv) :=
  (xiExpand W fuel cfgBase sourceName root).map (nativeParseTree wk)

/-- … and what the binding layer makes of them -/
def nativeXiResult (W : XiWorld) (wk : List (Str × Str)) (fuel : Nat) (cfgBase sourceName : Option Str) (root : XTree)
    (e : BEnv) (Γ : Ctx) (cfg : ParserConfig) (clazz : ClassId) : Except XiErr (Except Err (Val × Nat)) :=
  (nativeXiCalls W wk fuel cfgBase sourceName root).map fun calls =>
    match assemble calls with
    | some tree => parseRoot e Γ cfg clazz tree
    | none => .error (.parser "not well-formed")

/-- the document the split one stands for: the includes replaced, every element with its in-scope
namespaces (what `LxmlEventHandler` passes on after `tree.xinclude()`: `element.nsmap` looks through
the point of inclusion) -/
def mergedResult (T : XTree) (e : BEnv) (Γ : Ctx) (cfg : ParserConfig) (clazz : ClassId) : Except Err (Val × Nat) :=
  parseRoot e Γ cfg clazz (specTree [] T)

end Xs.Backends
