/-
QName *values* (an `xsi:type`, a QName-typed attribute) and the namespace scope of the element
they are written on: the prefix `QNameConverter.serialize` puts in front of the local name stays
bound to the QName's namespace through everything that happens to the element's prefix map
until it is declared (later attributes, `add_namespace` for attribute names, the default
namespace reset of `flush_start`), and the document's in-scope bindings of the element are that map
(`ScopeEq`, invariant of the L2 proof).
-/
import XsdataModel.Proofs.Generator
import XsdataModel.Proofs.Attrs
import XsdataModel.Proofs.Assembly

namespace Proofs.QNameScope
open Py Xs.Ns Xs.Sax Xs.Writer Spec.XmlNs Spec.Hyps Proofs.MapInv Proofs.Flush Proofs.Resolve Proofs.TreeWriter

/-- the lexical QName `s` is `p:l` with the non-empty prefix `p` bound to `u` in `M` -/
def Bound (M : NsMap) (s u l : Str) : Prop :=
  ∃ p, p ≠ [] ∧ s = p ++ ':' :: l ∧ dget M (some p) = some u ∧ declOK (some p, u) = true

theorem Bound.ext {M M' : NsMap} {s u l : Str} (h : Bound M s u l) (e : Ext M M') : Bound M' s u l := by
  obtain ⟨p, hp, hs, hg, hd⟩ := h
  obtain ⟨X, rfl, _⟩ := e
  exact ⟨p, hp, hs, dget_append_left M X (some p) u hg, hd⟩

theorem Bound.reset {M : NsMap} {s u l : Str} (h : Bound M s u l) (tag : EName) :
    Bound (resetDefaultNamespace tag M) s u l := by
  obtain ⟨p, hp, hs, hg, hd⟩ := h
  exact ⟨p, hp, hs, by rw [reset_dget_some]; exact hg, hd⟩

/-- … through `flush_start`: the map the element declares -/
theorem Bound.atFlush (env : NsEnv) (henv : EnvOK env) (d : Option Str) {M : NsMap} {s u l : Str}
    (h : Bound M s u l) (hM : MapOK env d M) (isNil : Bool) (base : NsMap) (tag : EName) (A : Attrs)
    (hA : AttrsOK d A) : Bound (Proofs.TreeWriter.flushed env isNil base tag A M).map s u l := by
  generalize hA'def : (if !isNil then dpop A (some env.xsiNil.1, env.xsiNil.2) else A) = A'
  have hA' : AttrsOK d A' := by
    rw [← hA'def]; split
    · exact hA.dpop _
    · exact hA
  have hnsA : ∀ e ∈ A', nsPartOK e.1.1 = true := by
    intro e he
    have := hA'.names e he
    simp only [attrNameOK, Bool.and_eq_true] at this
    cases h1 : e.1.1 with
    | none => rfl
    | some u => rw [h1] at this; exact this.2
  obtain ⟨eA, _, _⟩ := addAttrNamespaces_ok env henv d A' M hM hnsA
  have : (Proofs.TreeWriter.flushed env isNil base tag A M).map = resetDefaultNamespace tag (addAttrNamespaces env A' M) := by
    unfold Proofs.TreeWriter.flushed
    simp only [hA'def]
  rw [this]
  exact (h.ext eA).reset tag

/-- a bound lexical QName resolves, in any scope that agrees with the map, to the QName -/
theorem Bound.resolves {M : NsMap} {s u l : Str} (h : Bound M s u l)
    (hl : isNCName l = true) (S : List (Pfx × Str)) (hS : ScopeEq S M) :
    resolveElem S s = some (some u, l) := by
  obtain ⟨p, hp, hs, hg, hdecl⟩ := h
  have hpn := declOK_prefix_ncname p u hdecl
  simp only [declOK, Bool.and_eq_true, bne_iff_ne, ne_eq, Bool.not_eq_true', beq_iff_eq] at hdecl
  obtain ⟨⟨⟨⟨⟨_, hxmlns⟩, hne⟩, _⟩, _⟩, hxml⟩ := hdecl
  subst hs
  unfold resolveElem
  rw [splitColon_prefixed p l (isNCName_no_colon p hpn)]
  simp only [hpn, hl, Bool.not_true, Bool.false_or]
  have h1 : (p == xmlnsPrefix) = false := by simpa using hxmlns
  simp only [h1, Bool.false_eq_true, if_false]
  by_cases hx : p = xmlPrefix
  · have : u = xmlNsUri := by
      have := hxml
      simp only [hx, beq_self_eq_true] at this
      simpa using this.symm
    simp [hx, this]
  · have h2 : (p == xmlPrefix) = false := by simpa using hx
    simp only [h2, Bool.false_eq_true, if_false]
    rw [hS (some p), hg]
    have h3 : u.isEmpty = false := by simpa using hne
    simp [h3]

/-- `QNameConverter.serialize` on a QName with a declarable namespace: the text is bound in the
resulting map, or it is the bare local name (the namespace is the map's default / empty-prefix binding) -/
theorem serializeQName_bound (env : NsEnv) (henv : EnvOK env) (d : Option Str) (t u l : Str) (M : NsMap)
    (hM : MapOK env d M) (ht : clark t = some (some u, l)) (hu : uriOK u = true) :
    ∃ s M', serializeQName env t M = .ok (s, M') ∧ Ext M M' ∧ MapOK env d M' ∧ (s = l ∨ Bound M' s u l) := by
  have hs := clark_splitQName t _ ht
  obtain ⟨hext, hok, hget⟩ := loadPrefix_ok env henv d u M hM hu
  unfold serializeQName
  rw [hs]
  simp only []
  generalize hlp : loadPrefix env u M = r at hext hok hget
  obtain ⟨po, M'⟩ := r
  simp only [] at hext hok hget
  cases po with
  | none => exact ⟨l, M', rfl, hext, hok, Or.inl rfl⟩
  | some p =>
    by_cases hp : p.isEmpty = true
    · exact ⟨l, M', by simp [hp], hext, hok, Or.inl rfl⟩
    · refine ⟨p ++ ':' :: l, M', by simp [hp], hext, hok, Or.inr ⟨p, ?_, rfl, hget, hok.decl _ (dget_some_mem _ _ _ hget)⟩⟩
      intro h; subst h; simp at hp

theorem attrsRun_append (env : NsEnv) : ∀ (pre rest : List (Str × Val)) (M : NsMap) (A : Attrs),
    attrsRun env (pre ++ rest) M A = (attrsRun env pre M A).bind (fun r => attrsRun env rest r.1 r.2) := by
  intro pre
  induction pre with
  | nil => intro rest M A; rfl
  | cons a r ih =>
    obtain ⟨q, v⟩ := a
    intro rest M A
    simp only [List.cons_append, attrsRun]
    split
    · rfl
    · split
      · rfl
      · exact ih rest _ _

/-- the ATTR events of an element: the text written for a QName value with a declarable namespace is
`Bound` in the map the element ends up with (or it is the bare local name) -/
theorem attrsRun_bound (env : NsEnv) (henv : EnvOK env) (d : Option Str)
    (pre post : List (Str × Val)) (qa : Str) (v : Val) (t u l : Str) (M M2 : NsMap) (A A2 : Attrs)
    (hM : MapOK env d M) (hA : AttrsOK d A)
    (hall : (pre ++ (qa, v) :: post).all (attrOK env d) = true)
    (hv : xsiTypeValue env qa v = .atom (.qname t)) (ht : clark t = some (some u, l))
    (hrun : attrsRun env (pre ++ (qa, v) :: post) M A = some (M2, A2)) :
    ∃ s, s = l ∨ Bound M2 s u l := by
  simp only [List.all_append, List.all_cons, Bool.and_eq_true] at hall
  obtain ⟨hpre, ha, hpost⟩ := hall
  obtain ⟨Mp, Ap, hp, _, hMp, hAp⟩ := Proofs.Attrs.attrsRun_ok env henv d pre M A hM hA hpre
  rw [attrsRun_append, hp] at hrun
  simp only [Option.bind] at hrun
  simp only [attrOK, Bool.and_eq_true] at ha
  obtain ⟨⟨hname, hval⟩, _⟩ := ha
  rw [hv] at hval
  have hu : uriOK u = true := by
    simpa [Spec.Hyps.valOK, atomOK, qnameTextOK, ht] using hval
  cases hc : clark qa with
  | none => rw [hc] at hname; cases hname
  | some n =>
    rw [hc] at hname
    simp only [] at hname
    have hs := clark_splitQName qa n hc
    obtain ⟨s, M1, hser, _, hM1, hb⟩ := serializeQName_bound env henv d t u l Mp hMp ht hu
    obtain ⟨val, M1', he, _, _, hx⟩ := encodeData_ok env henv d (.atom (.qname t)) Mp hMp (by simpa using hval)
    have he2 : encodeData env (.atom (.qname t)) Mp = .ok (some s, M1) := by
      simp [encodeData, serializeAtom, hser]
    rw [he2] at he
    simp only [Except.ok.injEq, Prod.mk.injEq] at he
    obtain ⟨hval2, hM1eq⟩ := he
    subst hM1eq
    have hxs : xmlChars s = true := hx s hval2.symm
    simp only [attrsRun, hs, hv, he2] at hrun
    obtain ⟨M2', A2', h2, e2, _, _⟩ := Proofs.Attrs.attrsRun_ok env henv d post M1 (dset Ap n (some s)) hM1
      (hAp.dset n s hname hxs) hpost
    rw [hrun] at h2
    simp only [Option.some.injEq, Prod.mk.injEq] at h2
    obtain ⟨h2a, _⟩ := h2
    subst h2a
    rcases hb with hb | hb
    · exact ⟨s, Or.inl hb⟩
    · exact ⟨s, Or.inr (hb.ext e2)⟩

open Proofs.Generator in
/-- the same at the level of the written tokens: when the pending element is flushed
(`open_elem`), the frame the XML reader pushes for its start tag has in-scope namespace
bindings that resolve the bound text to the QName -/
theorem open_elem_qname (env : NsEnv) (henv : EnvOK env) (d : Option Str) (isNil : Bool) (base Y : NsMap)
    (tag : EName) (A : Attrs) (gctxs : List (List (Str × Pfx))) (gcur : List (Str × Pfx)) (gpend : Option Str)
    (st : List Frame) (root : Option Node) (sst : List SFrame) (sroot : Option Node)
    (hM : MapOK env d (base ++ Y)) (hK : K2 base gcur) (hS : ScopeEq (parentScope st) base)
    (hA : AttrsOK d A) (htag : TagOK tag (base ++ Y)) (hYok : YOK base Y)
    (hroot : st = [] → root = none) (hsroot : sst = [] → sroot = none)
    (s u l : Str) (hb : Bound (base ++ Y) s u l) (hl : isNCName l = true) :
    ∃ w ws vs scope' decls,
      gRun env.saxXmlNs ⟨gctxs, gcur, [], gpend⟩ (flushed env isNil base tag A (base ++ Y)).calls
          = .ok ([Tok.open_ w decls ws], ⟨pushCtxs gcur gctxs decls, applyCur gcur decls, [], some w⟩)
      ∧ pStep ⟨st, root, false⟩ (Tok.open_ w decls ws) = some ⟨⟨w, tag, vs, [], scope'⟩ :: st, root, false⟩
      ∧ resolveElem scope' s = some (some u, l) := by
  obtain ⟨w, ws, vs, scope', decls, _, _, h3, h4, _, _, _, h8, _⟩ :=
    open_elem env henv d isNil base Y tag A gctxs gcur gpend st root sst sroot hM hK hS hA htag hYok hroot hsroot
  exact ⟨w, ws, vs, scope', decls, h3, h4,
    (hb.atFlush env henv d hM isNil base tag A hA).resolves hl scope' h8⟩

open Proofs.Generator Proofs.UserMap in
/-- the document element: for every user prefix map in `userMapOK`, the start tag the native
writer writes for the root declares a scope in which the text of each QName-valued attribute
(`xsi:type`, …) with a declarable namespace resolves to that QName — or the text is the bare local
name (namespace = default of the map: findings c03-qname-default-*) -/
theorem root_qname_scope (env : NsEnv) (henv : envOK env = true) (m : List (Pfx × Str))
    (hm : userMapOK env m = true) (q : Str) (attrs : List (Str × Val))
    (hname : elemNameOK q = true) (hattrs : attrs.all (attrOK env (userDefault m)) = true)
    (tag : EName) (hq : splitQName q = .ok tag) (M2 : NsMap) (A : Attrs)
    (ha : attrsRun env attrs (addNamespace env tag.1 (serializerNsMap m)) [] = some (M2, A))
    (pre post : List (Str × Val)) (qa : Str) (v : Val) (t u l : Str)
    (hsplit : attrs = pre ++ (qa, v) :: post)
    (hv : xsiTypeValue env qa v = .atom (.qname t)) (ht : clark t = some (some u, l)) (isNil : Bool) :
    ∃ s w ws vs scope' decls g',
      gRun env.saxXmlNs ⟨[[]], [], [], none⟩ (flushed env isNil [] tag A M2).calls = .ok ([Tok.open_ w decls ws], g')
      ∧ pStep ⟨[], none, false⟩ (Tok.open_ w decls ws) = some ⟨[⟨w, tag, vs, [], scope'⟩], none, false⟩
      ∧ (s = l ∨ resolveElem scope' s = some (some u, l)) := by
  have hE := envOK_sound env henv
  have hM0 := userMapOK_MapOK env m hm
  obtain ⟨⟨X, hX, hXk⟩, hM2, hA, htag⟩ :=
    child_start env hE (userDefault m) (serializerNsMap m) q attrs tag M2 A hM0 hq ha hname hattrs
  have hYok : YOK [] M2 := by
    intro u' hu'
    refine ⟨rfl, serializerNsMap m, X, hX, hXk, ?_⟩
    intro s' hs'
    have hn0 : dget (serializerNsMap m) none = some u' := by
      rw [hX, dget_append] at hu'
      cases h0 : dget (serializerNsMap m) none with
      | some v' => rw [h0] at hu'; exact hu'
      | none =>
        rw [h0] at hu'
        exact absurd rfl (hXk _ (dget_some_mem _ _ _ hu'))
    exact serializerNsMap_nodflt env m hm s' u' hs' hn0
  -- the text of the QName value is bound in the map after the attributes …
  have hMa : MapOK env (userDefault m) (addNamespace env tag.1 (serializerNsMap m)) := by
    unfold elemNameOK at hname
    cases hc : clark q with
    | none => rw [hc] at hname; cases hname
    | some n =>
      rw [hc] at hname
      have hs := clark_splitQName q n hc
      rw [hq] at hs
      cases hs
      exact (addNamespace_ok env hE (userDefault m) tag.1 (serializerNsMap m) hM0 hname).2.1
  subst hsplit
  obtain ⟨s, hb⟩ := attrsRun_bound env hE (userDefault m) pre post qa v t u l _ M2 [] A hMa (AttrsOK.nil _)
    hattrs hv ht ha
  have hl := (clark_some_ns t u l ht).2
  rcases hb with hb | hb
  · obtain ⟨w, ws, vs, scope', decls, _, _, h3, h4, _⟩ :=
      open_elem env hE (userDefault m) isNil [] M2 tag A [[]] [] none [] none [] none
        (by simpa using hM2) K2_nil (by intro k; rfl) hA (by simpa using htag) hYok (fun _ => rfl) (fun _ => rfl)
    exact ⟨s, w, ws, vs, scope', decls, _, by simpa using h3, h4, Or.inl hb⟩
  · obtain ⟨w, ws, vs, scope', decls, h3, h4, h5⟩ :=
      open_elem_qname env hE (userDefault m) isNil [] M2 tag A [[]] [] none [] none [] none
        (by simpa using hM2) K2_nil (by intro k; rfl) hA (by simpa using htag) hYok (fun _ => rfl) (fun _ => rfl)
        s u l (by simpa using hb) hl
    exact ⟨s, w, ws, vs, scope', decls, _, by simpa using h3, h4, Or.inr h5⟩

end Proofs.QNameScope
