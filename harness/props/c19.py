"""C19 — A shared binding context is safe under concurrent use."""
from __future__ import annotations

import itertools
import json
import random
import re
import sys
import threading
import time

from framework import Corr, Oracle, ok
from props import ctxgen as G
from props import ctxlib as L
from props.conclib import Scheduler, hooked_context

PROP_ID = "C19"
DESIGN_REF = "6/C19"
XS = G.XS

# a universe with exactly one indexed class: 6 atomic steps per cold lookup
U_ONE = [L.cdef("PA", ns="urn:a", fields=[L.fdef("x")])]
# two indexed classes under one name + a namespace-less child
U_TWO = [
    L.cdef("C", glob=False, fields=[L.fdef("x")]),
    L.cdef("PA", ns="urn:a", fields=[L.fdef("c", cls=0)]),
    L.cdef("PA2", ns="urn:a", mname="PA", fields=[L.fdef("c", cls=0)]),
]


def p_build(c, pns=None):
    return {"k": "build", "c": c, "pns": pns}


def p_find(q):
    return {"k": "find_types", "q": q}


# ------------------------------------------------------------------ impl
def run_forced(a, sched_cls=Scheduler):
    """Run the threads of `a` on one hooked real context under the schedule."""
    realm = L.Realm(a["universe"])
    try:
        realm.set_world(a["loaded"], a["mods"])
        sch = sched_cls()
        ctx = hooked_context(sch, realm.pkg, warm=a["warm"])
        fns = [(lambda p=p: realm.call(ctx, p)) for p in a["progs"]]
        res = sch.run(fns, a["schedule"])
        outs = []
        for kind, v in res:
            outs.append(v if kind == "ok" else {"err": "LEAK:" + type(v).__name__})
        # the main thread is not managed by the scheduler: its accesses pass through
        try:
            state = realm.state(ctx)
        except Exception as e:  # noqa: BLE001
            state = {"unexportable": type(e).__name__}
        return outs, state, list(sch.trace)
    finally:
        realm.close()


def impl_conc(a):
    outs, state, _ = run_forced(a)
    return ok({"results": outs, "state": state})


def interleavings(n0, n1):
    for pos in itertools.combinations(range(n0 + n1), n0):
        s = [1] * (n0 + n1)
        for p in pos:
            s[p] = 0
        yield s


def base(universe, progs, schedule, warm=False, mods=0):
    return {"universe": universe, "loaded": len(universe), "mods": mods, "warm": warm, "progs": progs, "schedule": schedule}


# the model's counterexample schedule: thread 1 passes the staleness check,
# thread 0 rebuilds completely and stamps, thread 1 clears, thread 0 looks up
def race_schedule(n_indexed):
    return [1] + [0] * (n_indexed + 3) + [1] + [0, 0]


def gen_conc(rng, tier):
    # 1. hand-picked: the race, and the same threads on a warm context
    yield base(U_ONE, [p_find("{urn:a}PA"), p_find("{urn:a}PA")], race_schedule(1))
    yield base(U_ONE, [p_find("{urn:a}PA"), p_find("{urn:a}PA")], race_schedule(1), warm=True)
    yield base(U_TWO, [p_find("{urn:a}PA"), p_find("Nope")], race_schedule(2))
    yield base(U_TWO, [p_build(0, "urn:a"), p_build(0, "urn:a")], [0, 1, 0, 1, 0, 1])
    yield base(U_TWO, [p_build(0, "urn:a"), p_build(0, "urn:b")], [0, 1, 0, 1, 0, 1])
    # 2. bounded-exhaustive: all interleavings of two threads
    #    cold lookup x cold lookup over one indexed class (6 x 6 steps)
    stride = 1 if tier != "quick" else 3
    for i, s in enumerate(interleavings(6, 6)):
        if i % stride == 0:
            yield base(U_ONE, [p_find("{urn:a}PA"), p_find("{urn:a}PA")], s)
    #    build x build of the same class (3 x 3 steps), same and different parent
    for s in interleavings(3, 3):
        yield base(U_TWO, [p_build(0, "urn:a"), p_build(0, "urn:a")], s)
        yield base(U_TWO, [p_build(0, "urn:a"), p_build(0, "urn:b")], s)
        yield base(U_TWO, [p_build(1), p_build(9)], s)
    #    build x cold lookup (3 x 7 steps)
    for s in interleavings(3, 7):
        yield base(U_TWO, [p_build(1), p_find("{urn:a}PA")], s)
    #    warm context: lookup x lookup (3 x 3), stale stamp (mods changed after warm-up is cold again)
    for s in interleavings(3, 3):
        yield base(U_TWO, [p_find("{urn:a}PA"), p_find("Nope")], s, warm=True)
    # 3. random: 2-5 threads, random universes, random schedules
    n = 120 if tier == "quick" else 4000
    for _ in range(n):
        U = G.rand_universe(rng, n=rng.randint(1, 4))
        keys = G.index_keys(U)
        progs = []
        for _ in range(rng.randint(2, 5)):
            if rng.random() < 0.5:
                progs.append(p_build(rng.randrange(len(U) + 1), rng.choice(G.PNS)))
            else:
                progs.append(p_find(rng.choice(keys) if keys and rng.random() < 0.8 else rng.choice(["Nope", XS + "int"])))
        sched = [rng.randrange(len(progs)) for _ in range(rng.randint(0, 40))]
        yield base(U, progs, sched, warm=rng.random() < 0.3)


def classify_conc(a, o):
    if not isinstance(o, dict) or "ok" not in o:
        return "harness-error"
    alone = alone_results(a)
    diff = sum(1 for x, y in zip(o["ok"]["results"], alone) if x != y)
    return f"{'warm' if a['warm'] else 'cold'}|threads={len(a['progs'])}|{'all-as-alone' if diff == 0 else 'differs-from-alone'}"


_ALONE: dict[str, list] = {}


def alone_results(a):
    key = json.dumps([a["universe"], a["loaded"], a["mods"], a["progs"]], sort_keys=True)
    hit = _ALONE.get(key)
    if hit is None:
        realm = L.Realm(a["universe"])
        try:
            realm.set_world(a["loaded"], a["mods"])
            hit = [realm.call(realm.context(), p) for p in a["progs"]]
        finally:
            realm.close()
        if len(_ALONE) > 5000:
            _ALONE.clear()
        _ALONE[key] = hit
    return hit


CORRS = [
    Corr("conc.run", gen_conc, impl_conc, nontrivial=lambda a, o: len(a["schedule"]) >= 2, classify=classify_conc,
         describe="threads on one real XmlContext under a forced schedule (instrumented containers) vs the interleaved model: per-thread results and final cache/index/stamp"),
]


# ------------------------------------------------------------------ oracles
def _clearers(trace):
    return sorted({tid for tid, name in trace if name == "xsi.clear"})


def covered_conc(a, msg=""):
    """C19-F1: two different threads entered the index rebuild (both executed
    xsi_cache.clear()) in this execution.  C14-F1: two build threads request the
    same namespace-less class under different parent namespaces."""
    m = re.search(r"cleared the index: \[([0-9, ]*)\]", msg)
    clearers = [x for x in (m.group(1).split(",") if m else []) if x.strip()]
    if len(clearers) >= 2:
        return "C19-F1"
    seen = {}
    for p in a["progs"]:
        if p["k"] == "build" and p["c"] < len(a["universe"]) and not a["universe"][p["c"]]["has_ns"]:
            if seen.setdefault(p["c"], p["pns"]) != p["pns"]:
                return "C14-F1"
    return None


def _compare(a, outs, trace, how):
    alone = alone_results(a)
    for i, (x, y) in enumerate(zip(outs, alone)):
        if x != y:
            return (f"thread {i} {json.dumps(a['progs'][i])} returned {json.dumps(x)[:150]} {how} but "
                    f"{json.dumps(y)[:150]} when run alone [threads that cleared the index: {_clearers(trace)}]")
    return None


def check_forced(a):
    outs, _, trace = run_forced(a)
    return _compare(a, outs, trace, f"under schedule {a['schedule']}")


class YieldingScheduler(Scheduler):
    """Free-running threads with forced yield points at every hook."""

    def hook(self, name):
        if getattr(self.local, "tid", None) is None:
            return
        self.trace.append((self.local.tid, name))
        r = getattr(self.local, "rng", None)
        if r is None:
            r = self.local.rng = random.Random(self.local.tid * 7919 + self.seed)
        if r.random() < 0.6:
            time.sleep(0)
        if r.random() < 0.1:
            time.sleep(0.0002)

    def run(self, fns, schedule):
        results = {}
        self.seed = sum(schedule) if schedule else 0
        start = threading.Barrier(len(fns))

        def body(tid, fn):
            self.local.tid = tid
            start.wait()
            try:
                results[tid] = ("ok", fn())
            except BaseException as e:  # noqa: BLE001
                results[tid] = ("err", e)

        old = sys.getswitchinterval()
        sys.setswitchinterval(1e-6)
        try:
            ts = [threading.Thread(target=body, args=(i, f), daemon=True) for i, f in enumerate(fns)]
            for t in ts:
                t.start()
            for t in ts:
                t.join(20)
        finally:
            sys.setswitchinterval(old)
        return [results.get(i, ("err", TimeoutError())) for i in range(len(fns))]


def check_free(a):
    outs, _, trace = run_forced(a, YieldingScheduler)
    return _compare(a, outs, trace, f"in a free-running {len(a['progs'])}-thread execution")


def gen_free(rng, tier):
    n = 60 if tier == "quick" else 1500
    for _ in range(n):
        U = G.rand_universe(rng, n=rng.randint(2, 6), declared=True, clean=True)
        keys = G.index_keys(U)
        progs = []
        for _ in range(rng.randint(2, 16)):
            if rng.random() < 0.5:
                progs.append(p_build(rng.randrange(len(U)), rng.choice(G.PNS)))
            else:
                progs.append(p_find(rng.choice(keys) if keys else "Nope"))
        yield base(U, progs, [rng.randrange(100)], warm=rng.random() < 0.5)


ORACLES = [
    Oracle("forced-interleavings", gen_conc, check_forced, covered_conc, from_ops=("conc.run",)),
    Oracle("free-running", gen_free, check_free, covered_conc),
]


# ------------------------------------------------------------------ finding
def finding_f1():
    """The model's 2-thread schedule, on real XmlParser.from_string calls
    without a target class (thread 0 = victim)."""
    from xsdata.exceptions import ParserError
    from xsdata.formats.dataclass.parsers import XmlParser

    realm = L.Realm(U_ONE)
    try:
        realm.set_world(1, 0)
        sch = Scheduler()
        ctx = hooked_context(sch, realm.pkg)
        doc = '<ns0:PA xmlns:ns0="urn:a"><ns0:x>1</ns0:x></ns0:PA>'

        def parse():
            return XmlParser(context=ctx).from_string(doc)

        res = sch.run([parse, parse], race_schedule(1))
        alone = XmlParser(context=realm.context()).from_string(doc)
        k0, v0 = res[0]
        still = k0 == "err" and isinstance(v0, ParserError) and "No class found matching root" in str(v0) and type(alone).__name__ == "PA"
        return still, f"thread0={k0}:{v0!r} thread1={res[1][0]}:{res[1][1]!r} alone={alone!r} trace={sch.trace[:12]}"
    finally:
        realm.close()


FINDINGS = {"C19-F1": finding_f1}

LEVEL_TEXT = (
    "Lean proof over all schedules of the interleaved model (atomic step = one dict/list/slot operation, any number "
    "of threads): build_race_benign (every concurrent build returns the cache-free metadata, the check-then-insert "
    "race only duplicates work), xsi_lookup_warm (on a context whose type index is current every concurrent lookup "
    "is correct), no thread ever reads a missing cache entry; the full linearizability of the lazily rebuilt type "
    "index is refuted by a proved 2-thread schedule (xsi_race_counterexample) that is forced on the real code through "
    "instrumented containers (known finding C19-F1). The model is tied to /repo by replaying all interleavings of "
    "two threads (cold lookups, builds, mixed) and random schedules of up to five threads on the real XmlContext."
)
LEVEL_NOTE = (
    "Trusted: Lean kernel; the GIL makes each container operation atomic (no free-threaded build, no preemption "
    "inside C code, no memory-model effects); find_types' returned list is treated as a value at the time of the "
    "final read. Parser/serializer instances themselves (per-call state) and the match_namespace memo are not part "
    "of the interleaved model; the free-running oracle exercises them on the real code only."
)
TRUSTED = [
    "harness/props/conclib.py: instrumented dict/defaultdict subclasses and a sys_modules property on a harness-side XmlContext subclass park threads at every shared operation; one release = one model step",
    "threads that finish are skipped in the schedule; after the schedule the remaining threads run to completion in index order (same rule in model and harness)",
]
ASSUMPTIONS = [
    "CPython with the GIL: one dict/list/slot operation is atomic",
    "the set of loaded classes and len(sys.modules) do not change during the concurrent phase",
]
RULE = "hand-picked race schedules, then all interleavings of two threads for cold lookup x cold lookup (every 3rd in quick tier), build x build, build x lookup, warm lookups, then seeded random schedules of 2-5 threads over random universes"
