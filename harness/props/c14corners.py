"""Rarely used corners of the parsers for C14 (history independence) and C19 (concurrency):
hand-written models with union / base-class / compound / list / token fields, documents that
FAIL in different ways (union with no matching candidate, unconvertible primitives, unknown
properties, malformed input), parser options away from their defaults, and the non-default
entry points (native and lxml handlers, JsonParser, DictDecoder).

Sequential property (C14): a history of calls through ONE parser instance (one ParserConfig
object for the whole history, as an application holds it) returns call by call what fresh
instances with an equal configuration return, warnings included.
Concurrent property (C19): the same calls from several threads through one parser and one
hooked context, under forced schedules, return what each call returns alone.
Nothing here depends on the Lean model."""
from __future__ import annotations

import dataclasses
import itertools
import json
import warnings
from dataclasses import dataclass, field
from typing import List, Optional, Union


@dataclass
class Cat:
    lives: int = field(default=9, metadata={"type": "Attribute"})


@dataclass
class Dog:
    tricks: int = field(default=0, metadata={"type": "Attribute"})


@dataclass
class Owner:
    pet: Optional[Union[Cat, Dog]] = field(default=None, metadata={"type": "Element"})
    pets: List[Union[Cat, Dog]] = field(default_factory=list, metadata={"type": "Element"})


@dataclass
class Item:
    qty: Optional[int] = field(default=None, metadata={"type": "Element"})
    price: Optional[float] = field(default=None, metadata={"type": "Attribute"})
    sizes: List[int] = field(default_factory=list, metadata={"type": "Element", "tokens": True})
    flag: Optional[Union[int, bool]] = field(default=None, metadata={"type": "Element"})


@dataclass
class Base:
    id: Optional[int] = field(default=None, metadata={"type": "Element"})


@dataclass
class Ext(Base):
    extra: Optional[int] = field(default=None, metadata={"type": "Element"})


@dataclass
class Holder:
    base: Optional[Base] = field(default=None, metadata={"type": "Element"})
    choice: List[object] = field(default_factory=list, metadata={
        "type": "Elements", "choices": ({"name": "cat", "type": Cat}, {"name": "dog", "type": Dog},
                                        {"name": "n", "type": int})})
    item: Optional[Item] = field(default=None, metadata={"type": "Element"})


MODELS = {"Owner": Owner, "Item": Item, "Holder": Holder, "Cat": Cat, "Base": Base, "Ext": Ext}

# (name, class, xml, json-able dict or None)
DOCS = [
    ("good_union", "Owner", '<Owner><pet tricks="3"/></Owner>', {"pet": {"tricks": 3}}),
    ("bad_union", "Owner", "<Owner><pet><unknown/></pet></Owner>", {"pet": {"unknown": 1}}),
    ("bad_union_list", "Owner", '<Owner><pets lives="1"/><pets><zz/></pets></Owner>', {"pets": [{"lives": 1}, {"zz": 2}]}),
    ("union_bad_value", "Owner", '<Owner><pet lives="many"/></Owner>', {"pet": {"lives": "many"}}),
    ("lenient_int", "Item", "<Item><qty>abc</qty></Item>", {"qty": "abc"}),
    ("lenient_attr", "Item", '<Item price="cheap"/>', {"price": "cheap"}),
    ("lenient_tokens", "Item", "<Item><sizes>1 x 3</sizes></Item>", {"sizes": [1, "x", 3]}),
    ("lenient_prim_union", "Item", "<Item><flag>maybe</flag></Item>", {"flag": "maybe"}),
    ("good_item", "Item", '<Item price="1.5"><qty>2</qty><sizes>1 2</sizes><flag>true</flag></Item>',
     {"qty": 2, "price": 1.5, "sizes": [1, 2], "flag": True}),
    ("unknown_prop", "Item", "<Item><qty>1</qty><nope>1</nope></Item>", {"qty": 1, "nope": 1}),
    ("unknown_attr", "Item", '<Item nope="1"/>', None),
    ("malformed", "Item", "<Item><qty>1</Item>", None),
    ("base_ext", "Holder", '<Holder><base xmlns:xsi="http://www.w3.org/2001/XMLSchema-instance" xsi:type="Ext"><id>1</id><extra>2</extra></base></Holder>',
     {"base": {"id": 1, "extra": 2}}),
    ("base_bad", "Holder", "<Holder><base><id>x</id><zz>1</zz></base></Holder>", {"base": {"id": "x", "zz": 1}}),
    ("base_lenient", "Holder", "<Holder><base><id>x</id></base></Holder>", {"base": {"id": "x"}}),
    ("choice_good", "Holder", '<Holder><cat lives="2"/><n>5</n><dog tricks="1"/></Holder>',
     {"choice": [{"lives": 2}, 5, {"tricks": 1}]}),
    ("choice_bad", "Holder", '<Holder><cat lives="two"/><n>five</n></Holder>', {"choice": [{"lives": "two"}, {"zz": 1}]}),
    ("nested_lenient", "Holder", "<Holder><item><qty>abc</qty></item></Holder>", {"item": {"qty": "abc"}}),
]
# used by the Lean-modelled op only (both union candidates fail on a VALUE, whatever the options)
EXTRA = [("union_no_candidate", "Owner", '<Owner><pet lives="x" tricks="y"/></Owner>', None)]
DOC = {d[0]: d for d in DOCS + EXTRA}

KINDS = ("xml_native", "xml_lxml", "json", "dict")
# option sets away from the defaults (one ParserConfig object per history)
CONFIGS = [
    {},
    {"fail_on_unknown_properties": False},
    {"fail_on_unknown_properties": False, "fail_on_unknown_attributes": True},
    {"fail_on_converter_warnings": True},
    {"fail_on_unknown_properties": False, "fail_on_converter_warnings": True},
]


def make_parsers(cfg, ctx=None):
    """One instance of every parser kind over ONE context and ONE config object."""
    from xsdata.formats.dataclass.context import XmlContext
    from xsdata.formats.dataclass.parsers import DictDecoder, JsonParser, XmlParser
    from xsdata.formats.dataclass.parsers.config import ParserConfig
    from xsdata.formats.dataclass.parsers.handlers import LxmlEventHandler, XmlEventHandler

    ctx = ctx if ctx is not None else XmlContext()
    config = ParserConfig(**cfg)
    return {
        "xml_native": XmlParser(context=ctx, config=config, handler=XmlEventHandler),
        "xml_lxml": XmlParser(context=ctx, config=config, handler=LxmlEventHandler),
        "json": JsonParser(context=ctx, config=config),
        "dict": DictDecoder(context=ctx, config=config),
    }


def call(parsers, op, count=True):
    """(outcome, number of ConverterWarnings) of one call; outcome = ['ok', repr] or [error type, first line].
    count=False (threads: the warnings machinery is process-global): outcome only."""
    name, cls_name, xml, data = DOC[op["doc"]]
    cls = MODELS[cls_name]
    kind = op["kind"]
    with warnings.catch_warnings(record=True) as caught:
        warnings.simplefilter("always")
        try:
            if kind.startswith("xml"):
                res = parsers[kind].from_string(xml, cls)
            elif kind == "json":
                res = parsers[kind].from_string(json.dumps(data), cls)
            else:
                res = parsers[kind].decode(data, cls)
            out = ["ok", repr(res)]
        except Exception as e:  # noqa: BLE001
            out = [type(e).__name__, (str(e).splitlines() or [""])[0][:100]]
    return [out, sum(1 for w in caught if "Converter" in type(w.message).__name__) if count else None]


def usable(op):
    return op["kind"].startswith("xml") or DOC[op["doc"]][3] is not None


def ops_for(kind):
    return [{"kind": kind, "doc": d[0]} for d in DOCS if usable({"kind": kind, "doc": d[0]})]


# ------------------------------------------------------------------ C14: sequential histories
def check_history(a):
    shared = make_parsers(a["cfg"])
    for i, op in enumerate(a["calls"]):
        got = call(shared, op)
        want = call(make_parsers(a["cfg"]), op)
        if got != want:
            return (f"call #{i} {json.dumps(op)} (config {json.dumps(a['cfg'])}) through the shared parser returned "
                    f"{json.dumps(got)[:220]} but {json.dumps(want)[:220]} on fresh instances; history: "
                    f"{json.dumps(a['calls'][:i])[:300]}")
    return None


def gen_history(rng, tier):
    """all ordered pairs per parser kind and option set (every call after every other one, failing
    ones first included), triples that start with a failing call, mixed-kind random histories"""
    for cfg in (CONFIGS[:2] if tier == "quick" else CONFIGS):
        for kind in KINDS:
            pool = ops_for(kind)
            for a, b in itertools.product(pool, repeat=2):
                yield {"cfg": cfg, "calls": [a, b] if tier == "quick" else [a, b, a]}
    n = 300 if tier == "quick" else 6000
    allops = [op for k in KINDS for op in ops_for(k)]
    for _ in range(n):
        yield {"cfg": rng.choice(CONFIGS), "calls": [rng.choice(allops) for _ in range(rng.randint(3, 9))]}


# ------------------------------------------------------------------ C14: the options model (Ctx/ParserCfg.lean)
# abstract document of the model -> real document (XML parsers: UnionNode)
ABSTRACT = [
    ({"prim": True}, "good_item"),
    ({"prim": False}, "lenient_int"),
    ({"prim": False}, "nested_lenient"),
    ({"union": [True, True]}, "good_union"),        # Cat and Dog both bind cleanly (unknown attributes are ignored)
    ({"union": [False, True]}, "union_bad_value"),  # Cat: lives="many" fails in the strict replay, Dog binds
    ({"union": [False, False]}, "union_no_candidate"),
]


def impl_cfg_run(a):
    cfg = {"fail_on_converter_warnings": a["strict"], "fail_on_unknown_properties": a["unknown_fail"]}
    parsers = make_parsers(cfg)
    outs = []
    for real in a["real"]:
        out, n = call(parsers, {"kind": a["kind"], "doc": real})
        outs.append(("warned" if n else "ok") if out[0] == "ok" else "error" if out[0] == "ParserError" else out[0])
    return {"ok": {"outs": outs, "strict_after": bool(parsers[a["kind"]].config.fail_on_converter_warnings)}}


def gen_cfg_run(rng, tier):
    """every history of up to 3 (default options, native handler; thorough: everywhere) or 2 abstract documents"""
    for kind in ("xml_native", "xml_lxml"):
        for strict in (False, True):
            for uf in (True, False):
                deep = tier != "quick" or (kind == "xml_native" and not strict and uf)
                for n in range(1, 4 if deep else 3):
                    for h in itertools.product(ABSTRACT, repeat=n):
                        yield {"kind": kind, "strict": strict, "unknown_fail": uf,
                               "docs": [d for d, _ in h], "real": [r for _, r in h]}


# ------------------------------------------------------------------ C19: forced schedules
def run_threads(a):
    from props.conclib import Scheduler, hooked_context

    sch = Scheduler()
    parsers = make_parsers(a["cfg"], hooked_context(sch))
    res = sch.run([(lambda op=op: call(parsers, op, False)) for op in a["calls"]], a["schedule"])
    return [v if kind == "ok" else [["LEAK:" + type(v).__name__, str(v)[:80]], None] for kind, v in res]


def check_threads(a):
    got = run_threads(a)
    for i, op in enumerate(a["calls"]):
        want = call(make_parsers(a["cfg"]), op, False)
        if got[i] != want:
            return (f"thread {i} {json.dumps(op)} (config {json.dumps(a['cfg'])}) returned {json.dumps(got[i])[:200]} under "
                    f"schedule {a['schedule']} through the shared parser but {json.dumps(want)[:200]} when run alone")
    return None


def gen_threads(rng, tier):
    """two threads on one parser: thread 0 performs k of its context operations (it parks at every
    access of the shared metadata cache, e.g. in the middle of ranking the candidate classes),
    then thread 1 runs to its end, then thread 0 finishes — for every k, every pair of calls of
    the decoder kinds, default and lenient option sets"""
    ks = (0, 2, 5, 9) if tier == "quick" else range(0, 24)
    for cfg in (CONFIGS[0], CONFIGS[1]):
        for kind in (("dict", "json") if tier == "quick" else ("dict", "json", "xml_native", "xml_lxml")):
            pool = ops_for(kind)
            heavy = [op for op in pool if op["doc"] in ("base_ext", "base_bad", "choice_good", "choice_bad", "good_union", "bad_union", "bad_union_list")]
            light = [op for op in pool if op["doc"].startswith(("lenient", "nested", "base_lenient", "good_item"))]
            for a in heavy:
                for b in light:
                    for k in ks:
                        yield {"cfg": cfg, "calls": [a, b], "schedule": [0] * k + [1] * 60}
    if tier == "quick":
        # the XML parsers: EVERY park position of thread 0 (the window in which a node holds shared
        # state can be one or two accesses wide), union / compound / base-class documents vs lenient ones
        for kind in ("xml_native", "xml_lxml"):
            for h in ("good_union", "bad_union", "bad_union_list", "choice_good", "base_ext"):
                for l in ("lenient_int", "lenient_attr"):
                    for k in range(0, 20):
                        yield {"cfg": {}, "calls": [{"kind": kind, "doc": h}, {"kind": kind, "doc": l}],
                               "schedule": [0] * k + [1] * 60}
    n = 40 if tier == "quick" else 2000
    allops = [op for k in ("dict", "json", "xml_native", "xml_lxml") for op in ops_for(k)]
    for _ in range(n):
        calls = [rng.choice(allops) for _ in range(rng.randint(2, 4))]
        yield {"cfg": rng.choice(CONFIGS[:3]), "calls": calls,
               "schedule": [rng.randrange(len(calls)) for _ in range(rng.randint(0, 60))]}
