/- helper lemmas for Props/C10Shared: the state-passing parser computes what the pure
   parser computes on the context it was given, and hands that context on -/
import XsdataModel.BindShared.Parse

namespace Proofs.C10Shared
open Py Xs.Bind

/-- the element case of the pure parser is `parseKids` followed by `elementFinish` -/
theorem parseNode_element_split (e : BEnv) (Γ : Ctx) (cfg : ParserConfig) (m : XmlMeta)
    (attrs : List (QN × Str)) (nsmap : NsMap) (derived : Bool) (xsiType : Option QN) (xsiNil : Option Bool)
    (q : QN) (a : List (QN × Str)) (n : NsMap) (text tail : Option Str) (children : List Tree) :
    parseNode e Γ cfg (.element m attrs nsmap derived xsiType xsiNil) (.node q a n text children tail) =
      match parseKids e Γ cfg m {} none children with
      | .error err => .error err
      | .ok (sub, st) => elementFinish e Γ cfg m attrs nsmap derived xsiType xsiNil q text tail sub st := by
  rw [parseNode]
  cases parseKids e Γ cfg m {} none children with
  | error err => rfl
  | ok p => obtain ⟨sub, st⟩ := p; rfl

theorem parseNode_wildcard_split (e : BEnv) (Γ : Ctx) (cfg : ParserConfig) (var : XmlVar)
    (attrs : List (QN × Str)) (nsmap : NsMap)
    (q : QN) (a : List (QN × Str)) (n : NsMap) (text tail : Option Str) (children : List Tree) :
    parseNode e Γ cfg (.wildcard var attrs nsmap) (.node q a n text children tail) =
      match parseWild e Γ cfg var children with
      | .error err => .error err
      | .ok sub => wildFinish e var attrs nsmap q text tail sub := by
  rw [parseNode]
  cases parseWild e Γ cfg var children with
  | error err => rfl
  | ok sub => rfl

mutual

theorem parseNodeS_eq (e : BEnv) (cfg : ParserConfig) :
    ∀ (t : Tree) (node : Node) (Γ : Ctx), parseNodeS e cfg node t Γ = (parseNode e Γ cfg node t, Γ)
  | .node q a n text children tail, node, Γ => by
    cases node with
    | wildcard var attrs nsmap =>
      simp only [parseNodeS]
      rw [parseNode_wildcard_split, parseWildS_eq e cfg children var Γ]
      cases parseWild e Γ cfg var children <;> rfl
    | element m attrs nsmap derived xsiType xsiNil =>
      simp only [parseNodeS]
      rw [parseNode_element_split, parseKidsS_eq e cfg children m {} none Γ]
      cases parseKids e Γ cfg m {} none children with
      | error err => rfl
      | ok p => rfl
    | skip => simp only [parseNodeS]
    | wrapper w => simp only [parseNodeS]
    | primitive pm var ns => simp only [parseNodeS]
    | standard var dt ns nl d => simp only [parseNodeS]

theorem parseWildS_eq (e : BEnv) (cfg : ParserConfig) :
    ∀ (ts : List Tree) (var : XmlVar) (Γ : Ctx), parseWildS e cfg var ts Γ = (parseWild e Γ cfg var ts, Γ)
  | [], var, Γ => by simp only [parseWildS, parseWild]
  | (.node q a n t c tl) :: rest, var, Γ => by
    simp only [parseWildS]
    rw [parseWild, parseNodeS_eq e cfg (.node q a n t c tl) (.wildcard var a n) Γ]
    cases parseNode e Γ cfg (.wildcard var a n) (.node q a n t c tl) with
    | error err => rfl
    | ok o =>
      simp only [parseWildS_eq e cfg rest var Γ, bind, Except.bind]
      cases parseWild e Γ cfg var rest <;> rfl

theorem parseKidsS_eq (e : BEnv) (cfg : ParserConfig) :
    ∀ (ts : List Tree) (m : XmlMeta) (st : ElState) (w : Option QN) (Γ : Ctx),
      parseKidsS e cfg m st w ts Γ = (parseKids e Γ cfg m st w ts, Γ)
  | [], m, st, w, Γ => by simp only [parseKidsS, parseKids]
  | (.node q a n t c tl) :: rest, m, st, w, Γ => by
    simp only [parseKidsS]
    rw [parseKids.eq_2]
    split
    · rw [parseKidsS_eq e cfg c m st (some q) Γ]
      cases parseKids e Γ cfg m st (some q) c with
      | error err => rfl
      | ok p =>
        obtain ⟨o, st'⟩ := p
        simp only [parseKidsS_eq e cfg rest m st' w Γ, bind, Except.bind]
        cases parseKids e Γ cfg m st' w rest with
        | error err => rfl
        | ok p2 => rfl
    · simp only [childNodeS]
      cases childNode e Γ cfg m st q a n w with
      | error err => rfl
      | ok p =>
        obtain ⟨node, st'⟩ := p
        simp only [parseNodeS_eq e cfg (.node q a n t c tl) node Γ, bind, Except.bind]
        cases parseNode e Γ cfg node (.node q a n t c tl) with
        | error err => rfl
        | ok o =>
          simp only [parseKidsS_eq e cfg rest m st' w Γ]
          cases parseKids e Γ cfg m st' w rest with
          | error err => rfl
          | ok p2 => rfl

end

/-- over a shared context the parser returns what the pure
parser returns on the context as it stood when the call began, and hands the context on. -/
theorem parseRootS_eq (e : BEnv) (cfg : ParserConfig) (clazz : ClassId) (t : Tree) (Γ : Ctx) :
    parseRootS e cfg clazz t Γ = (parseRoot e Γ cfg clazz t, Γ) := by
  obtain ⟨q, a, n, text, c, tl⟩ := t
  simp only [parseRootS, parseRoot, bind, Except.bind]
  cases xsiTypeOf e a n with
  | error err => rfl
  | ok xt =>
    simp only
    cases Γ.fetch clazz none xt with
    | error err => rfl
    | ok m =>
      simp only [parseNodeS_eq]
      cases parseNode e Γ cfg _ (Tree.node q a n text c tl) with
      | error err => rfl
      | ok out => rfl

end Proofs.C10Shared
