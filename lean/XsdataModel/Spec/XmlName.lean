/-
XML 1.0 (Fifth Edition) production [4]/[4a] without the colon (Namespaces in XML:
NCName), which XSD's xs:NCName / xs:QName refer to. My transcription.
-/
import XsdataModel.Py.Basic

namespace Xs.Spec
open Py

/-- NameStartChar minus `:` -/
def nameStartRanges : List (Nat × Nat) :=
  [(0x41, 0x5A), (0x5F, 0x5F), (0x61, 0x7A), (0xC0, 0xD6), (0xD8, 0xF6), (0xF8, 0x2FF), (0x370, 0x37D),
   (0x37F, 0x1FFF), (0x200C, 0x200D), (0x2070, 0x218F), (0x2C00, 0x2FEF), (0x3001, 0xD7FF),
   (0xF900, 0xFDCF), (0xFDF0, 0xFFFD), (0x10000, 0xEFFFF)]

/-- NameChar adds `-`, `.`, digits, U+00B7, combining marks U+0300–036F, U+203F–2040 -/
def nameCharExtraRanges : List (Nat × Nat) :=
  [(0x2D, 0x2E), (0x30, 0x39), (0xB7, 0xB7), (0x300, 0x36F), (0x203F, 0x2040)]

def inRanges (rs : List (Nat × Nat)) (c : Char) : Bool := rs.any (fun r => r.1 ≤ c.toNat && c.toNat ≤ r.2)

def isNameStartChar (c : Char) : Bool := inRanges nameStartRanges c
def isNameChar (c : Char) : Bool := isNameStartChar c || inRanges nameCharExtraRanges c

/-- xs:NCName -/
def isXmlNcName : Str → Bool
  | [] => false
  | c :: cs => isNameStartChar c && cs.all isNameChar

end Xs.Spec
