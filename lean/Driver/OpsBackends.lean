import Driver.Proto
import Driver.OpsBind
import XsdataModel.Backends.Handler
import XsdataModel.Backends.Writer
open Lean Proto Py Xs.Bind Xs.Backends OpsBind

namespace OpsBackends

def dStore (j : Json) : Except String Store :=
  match j with
  | .str "passed" => .ok .passed
  | .str "top" => .ok .top
  | .str "empty" => .ok .empty
  | _ => .error "bad store"

partial def dXTree (j : Json) : Except String XTree := do
  let kids ← asArr (field j "c")
  let kids ← kids.mapM dXTree
  let st ← match field j "s" with
    | .null => pure Store.passed
    | x => dStore x
  pure (.node (← dList (dPair dStr dStr) (field j "d")) (← dStr (field j "q"))
    (← dList (dPair dStr dStr) (field j "a")) st (← dOptStr (field j "t")) kids (← dOptStr (field j "tl")))

def jNs (m : NsMap) : Json := jList (fun (p, u) => Json.arr #[jOpt jStr p, jStr u]) m

def jPEv : PEv → Json
  | .registerNs p u => Json.arr #[Json.str "start-ns", jOpt jStr p, jStr u]
  | .start q a m => Json.arr #[Json.str "start", jStr q, jPairs a, jNs m]
  | .end q t tl => Json.arr #[Json.str "end", jStr q, jOpt jStr t, jOpt jStr tl]
  | .crash => Json.arr #[Json.str "crash"]

mutual
partial def allPrefixes : XTree → List (Option Str)
  | .node d _ _ _ _ kids _ => d.map (fun pu => orNone pu.1) ++ (kids.map allPrefixes).flatten
end

def jSEv (cands : List (Option Str)) : SEv → Json
  | .registerNs p u => Json.arr #[Json.str "start-ns", jOpt jStr p, jStr u]
  | .start q a f => Json.arr #[Json.str "start", jStr q, jPairs a,
      jList (fun p => Json.arr #[jOpt jStr p, jOpt jStr (f p)]) cands]
  | .end q t tl => Json.arr #[Json.str "end", jStr q, jOpt jStr t, jOpt jStr tl]
  | .crash => Json.arr #[Json.str "crash"]

def dIndent (a : Json) : Except String (Option Str) := dOptStr (field a "indent")

def serCfg (a : Json) : SerCfg :=
  { ignoreDefaultAttributes := (field a "ignore_default_attributes").getBool?.toOption.getD false }

def run (op : String) (a : Json) : Option (Except String Json) :=
  match op with
  | "c08.native_tree" => some do
      let Γ ← dCtx (field a "ctx")
      let v ← dVal (field a "value")
      let ind ← dIndent a
      pure <| match (generate benv Γ (serCfg a) v).bind (nativeTree (isDatatype Γ) ind) with
        | .ok t => ok (jTree t)
        | .error e => jErr e
  | "c08.lxml_tree" => some do
      let Γ ← dCtx (field a "ctx")
      let v ← dVal (field a "value")
      let ind ← dIndent a
      pure <| match (generate benv Γ (serCfg a) v).bind (lxmlTree benv.py (isDatatype Γ) ind) with
        | .ok t => ok (jTree t)
        | .error e => jErr e
  | "c08.indent" => some do
      let t ← dTree (field a "tree")
      let sp ← dStr (field a "space")
      pure (ok (jTree (lxmlIndent benv.py sp t)))
  | "c08.pump" => some do
      let t ← dXTree (field a "doc")
      let evs := pump [] [] (toks t)
      pure (ok (jObj [("events", jList jPEv evs), ("ns_map", jNs (recorded evs))]))
  | "c08.iterwalk" => some do
      let t ← dXTree (field a "doc")
      let wk ← dList (dPair dStr dStr) (field a "well_known")
      let evs := nativeParseTree wk t
      pure (ok (jObj [("events", jList jPEv evs), ("ns_map", jNs (recorded evs))]))
  | "c08.inscope" => some do
      let t ← dXTree (field a "doc")
      let cands := (none :: allPrefixes t).eraseDups
      pure (ok (jList (jSEv cands) (spec [] t)))
  | "c08.decl" => some do
      pure (ok (jStr (xmlDeclaration (← dBool (field a "on")) (← dStr (field a "version")) (← dStr (field a "encoding")))))
  | _ => none

end OpsBackends
