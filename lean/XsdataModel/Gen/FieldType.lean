/-
L8 — the python type of a generated field (C02, "nothing … retyped"):

* `DataType` (xsdata/models/enums.py, regenerated into `Tables.dataTypeMembers`): the python type
  of every XSD builtin; `AttrType.datatype`, `Filters.type_name`;
* `ProcessAttributeTypes.process_native_type` (`update_restrictions`: the tokens flag of the list
  builtins — after the repair `fix: xs:ENTITIES is a list type like xs:NMTOKENS and xs:IDREFS`;
  a `pattern` facet resets the type to `xs:string`), `copy_attribute_properties` (an attr typed by
  a user simple type takes over the types and restrictions of that type's value attr: lists set
  `tokens`, unions contribute several types);
* `Filters.field_type` / `_join_type_names` for native types: distinct python names joined by
  ` | `, `list[…]` for tokens, another `list[…]` for `max_occurs > 1`, `None | …` for an optional
  single value without default.

Spec (`specPy`, written from XML Schema part 2, 3.2 – 3.4 and the value spaces C05 proves the
converters for): the python value space of every builtin.
-/
import XsdataModel.Py.Basic
import XsdataModel.Tables

namespace Xs.Gen
open Py

/-! ### the code -/

/-- `DataType.<member>.type.__name__` by the member's code (`none`: no such builtin) -/
def pyTypeOfCode (code : Str) : Option Str :=
  (Tables.dataTypeMembers.find? (·.1 = code)).map (·.2.1)

/-- `update_restrictions`: the builtins that are lists of tokens -/
def codeIsTokens (code : Str) : Bool :=
  code = "NMTOKENS".toList || code = "IDREFS".toList || code = "ENTITIES".toList

/-- simple types: builtins and what a schema derives from them (enumerations become classes and are
not part of this model) -/
inductive STy
  | builtin (code : Str)
  /-- `xs:restriction`; `pattern`: it has a pattern facet -/
  | restriction (base : STy) (pattern : Bool)
  | list (item : STy)
  | union (members : List STy)
deriving Repr

/-- `collections.unique_sequence` -/
def uniqueSeq : List Str → List Str
  | [] => []
  | x :: xs => x :: (uniqueSeq xs).filter (· ≠ x)

def isAnyCode (c : Str) : Bool := c = "anyType".toList || c = "anySimpleType".toList

/-- `ClassUtils.filter_types`: unique by qname, no `xs:error`, no `xs:anyType`/`xs:anySimpleType`
next to other types, `xs:string` when nothing is left -/
def filterTypes (cs : List Str) : List Str :=
  let u := (uniqueSeq cs).filter (· ≠ "error".toList)
  let u := if u.length > 1 then u.filter (fun c => !isAnyCode c) else u
  if u.isEmpty then ["string".toList] else u

/-- the processed value attr of a simple type class: native types, tokens flag, "has a pattern" -/
structure TRes where
  codes : List Str
  tokens : Bool
  pattern : Bool
deriving DecidableEq, Repr

mutual
/-- the value attr of the class of a (named) simple type after the FLATTEN step.
* restriction: `FlattenClassExtensions` copies the value attr of the base (or adds one of the native
  base) and merges the facets; `process_native_type` then resets every native type when a pattern
  is present;
* list: value attr typed by the item type, `tokens`; * union: value attr typed by the members. -/
def classOf : STy → TRes
  | .builtin code => ⟨[code], codeIsTokens code, false⟩
  | .restriction base pattern =>
    let r := classOf base
    let pat := pattern || r.pattern
    ⟨filterTypes (if pat then r.codes.map fun _ => "string".toList else r.codes), r.tokens, pat⟩
  | .list item =>
    -- one type, no pattern of its own: `processTypes [item] false`
    let r := classOf item
    ⟨filterTypes r.codes, true, r.pattern⟩
  | .union members =>
    let r := processTypes members false
    ⟨filterTypes r.codes, r.tokens, r.pattern⟩
/-- `ProcessAttributeTypes.process_types` over the types of one attr, in order, `pat`: the attr's
restrictions have a pattern so far. A native type: `update_restrictions` + reset to `xs:string`
under a pattern; a simple type: `copy_attribute_properties` (its types as they are, its
restrictions merged in — the pattern too, which hits the native types that FOLLOW). -/
def processTypes : List STy → Bool → TRes
  | [], pat => ⟨[], false, pat⟩
  | .builtin code :: ms, pat =>
    let b := processTypes ms pat
    ⟨(if pat then "string".toList else code) :: b.codes, codeIsTokens code || b.tokens, b.pattern⟩
  | m :: ms, pat =>
    let r := classOf m
    let b := processTypes ms (pat || r.pattern)
    ⟨r.codes ++ b.codes, r.tokens || b.tokens, b.pattern⟩
end

/-- the attr of an element / attribute declaration of the type -/
def attrOf (t : STy) : TRes :=
  let r := processTypes [t] false
  ⟨filterTypes r.codes, r.tokens, r.pattern⟩

def joinBar : List Str → Str
  | [] => []
  | [x] => x
  | x :: xs => x ++ " | ".toList ++ joinBar xs

/-- the occurrence class of the field -/
inductive Card | required | optional | many
deriving DecidableEq, Repr

/-- `Filters.field_type` for an attr whose types are native (no default value, not nillable) -/
def fieldTypeText (codes : List Str) (tokens : Bool) (card : Card) : Str :=
  let names := uniqueSeq (codes.filterMap pyTypeOfCode)
  let base := joinBar names
  let t := if tokens then "list[".toList ++ base ++ "]".toList else base
  match card with
  | .many => "list[".toList ++ t ++ "]".toList
  | .optional => if tokens then t else "None | ".toList ++ t
  | .required => t

def codeIsObject (code : Str) : Bool := pyTypeOfCode code = some "object".toList

/-- occurrence class of the generated field: `Attr.is_list`, `is_optional`, and
`SanitizeAttributesDefaultValue.should_reset_required` (an element that admits any object) -/
def cardOf (isAttribute : Bool) (min max : Nat) (codes : List Str) : Card :=
  if max > 1 then .many
  else if min = 0 then .optional
  else if !isAttribute && codes.any codeIsObject then .optional
  else .required

/-- the annotation of the field generated for `<xs:element|attribute type=t minOccurs maxOccurs>` -/
def fieldTypeOf (t : STy) (isAttribute : Bool) (min max : Nat) : Str :=
  let r := attrOf t
  fieldTypeText r.codes r.tokens (cardOf isAttribute min max r.codes)

/-! ### Spec: the python value space of a builtin -/

def stringLike : List Str := ["string", "normalizedString", "token", "language", "NMTOKEN", "Name",
  "NCName", "ID", "IDREF", "ENTITY", "anyURI"].map String.toList
def tokenLists : List Str := ["NMTOKENS", "IDREFS", "ENTITIES"].map String.toList
def integerLike : List Str := ["integer", "nonPositiveInteger", "negativeInteger", "long", "int",
  "short", "byte", "nonNegativeInteger", "unsignedLong", "unsignedInt", "unsignedShort",
  "unsignedByte", "positiveInteger"].map String.toList
def periodLike : List Str := ["gYearMonth", "gYear", "gMonthDay", "gMonth", "gDay"].map String.toList

/-- python type and "is a list of tokens" of a builtin: the value spaces of XML Schema part 2 in
the types C05 proves the converters for (`Conv/Factory` `Ty.name`); `xs:anyType` /
`xs:anySimpleType` admit every value: `object`; `xs:anyAtomicType` and `xs:error` have no lexical
mapping of their own and are kept as text -/
def specPy (code : Str) : Option (Str × Bool) :=
  if stringLike.contains code then some ("str".toList, false)
  else if tokenLists.contains code then some ("str".toList, true)
  else if integerLike.contains code then some ("int".toList, false)
  else if periodLike.contains code then some ("XmlPeriod".toList, false)
  else if code = "boolean".toList then some ("bool".toList, false)
  else if code = "decimal".toList then some ("Decimal".toList, false)
  else if code = "float".toList || code = "double".toList then some ("float".toList, false)
  else if code = "duration".toList || code = "dayTimeDuration".toList || code = "yearMonthDuration".toList then
    some ("XmlDuration".toList, false)
  else if code = "dateTime".toList || code = "dateTimeStamp".toList then some ("XmlDateTime".toList, false)
  else if code = "time".toList then some ("XmlTime".toList, false)
  else if code = "date".toList then some ("XmlDate".toList, false)
  else if code = "hexBinary".toList || code = "base64Binary".toList then some ("bytes".toList, false)
  else if code = "QName".toList || code = "NOTATION".toList then some ("QName".toList, false)
  else if code = "anyType".toList || code = "anySimpleType".toList then some ("object".toList, false)
  else if code = "anyAtomicType".toList || code = "error".toList then some ("str".toList, false)
  else none

mutual
/-- the builtins a simple type is made of, in document order -/
def leaves : STy → List Str
  | .builtin code => [code]
  | .restriction base _ => leaves base
  | .list item => leaves item
  | .union members => leavesL members
def leavesL : List STy → List Str
  | [] => []
  | m :: ms => leaves m ++ leavesL ms
end

mutual
/-- Spec: the value is a list (an `xs:list`, or a builtin that is one) -/
def isListTy : STy → Bool
  | .builtin code => codeIsTokens code
  | .restriction base _ => isListTy base
  | .list _ => true
  | .union members => isListL members
def isListL : List STy → Bool
  | [] => false
  | m :: ms => isListTy m || isListL ms
end

/-- Spec: the python types a value of the simple type may have: those of its builtin leaves (a
facet constrains the value, a pattern its lexical form; neither changes the value space's type) -/
def specTypes (t : STy) : List Str := (leaves t).filterMap fun c => (specPy c).map (·.1)

/-- python type names of a processed attr (`Filters._field_type_names`) -/
def pyNames (r : TRes) : List Str := uniqueSeq (r.codes.filterMap pyTypeOfCode)

mutual
/-- the simple types the faithfulness theorem is about: builtins of the live table other than
`xs:error` / `xs:anyType` / `xs:anySimpleType` at the leaves, no pattern facet, unions with members -/
def plainSTy : STy → Bool
  | .builtin code => (pyTypeOfCode code).isSome && !isAnyCode code && code ≠ "error".toList
  | .restriction base pattern => !pattern && plainSTy base
  | .list item => plainSTy item
  | .union members => !members.isEmpty && plainL members
def plainL : List STy → Bool
  | [] => true
  | m :: ms => plainSTy m && plainL ms
end

end Xs.Gen
