/-
L8 — requiredness and default of a generated field (C02): `use` / `default` / `fixed` of an
`xs:attribute`, `minOccurs` / `maxOccurs` / `default` / `fixed` of an `xs:element`.

* `SchemaMapper.build_class_attribute` with `Attribute.get_restrictions` /
  `Element.get_restrictions`, `ElementBase.default_value` / `is_fixed`, `default_type`;
* `SanitizeAttributesDefaultValue.process_attribute` (`should_reset_required`,
  `should_reset_default`);
* `ValidateAttributesOverrides.validate_attrs` for a class without base class (a prohibited attr
  is removed);
* `Filters.field_definition` / `field_default_value`: `init`, `default` / `default_factory`.

Types are `xs:string` or absent (`xs:anySimpleType` / `xs:anyType`, python `object`): the literal
of a default value is then the string itself (other types: converters, property C05).
Tokens, nillable, enumerations, wildcards and text nodes are outside this model.
-/
import XsdataModel.Py.Basic

namespace Xs.Gen
open Py

inductive Use | optional | required | prohibited
deriving DecidableEq, Repr

/-- `type="xs:string"`, or no `type` attribute and no inline type -/
inductive TypeKind | str | absent
deriving DecidableEq, Repr

/-- `<xs:attribute name=… use=… default=… fixed=… type=…/>` -/
structure AttrDecl where
  use : Use := .optional
  default : Option Str := none
  fixed : Option Str := none
  type : TypeKind := .str
deriving DecidableEq, Repr

/-- `<xs:element name=… minOccurs=… maxOccurs=… default=… fixed=… type=…/>`; `min`/`max` are the
bounds after `CalculateAttributePaths` (`Gen/Occurs`) -/
structure ElemDecl where
  min : Nat := 1
  max : Nat := 1
  default : Option Str := none
  fixed : Option Str := none
  type : TypeKind := .str
deriving DecidableEq, Repr

/-- the parts of a codegen `Attr` that decide requiredness and default -/
structure GAttr where
  isAttribute : Bool
  min : Nat
  max : Nat
  default : Option Str
  fixed : Bool
  /-- `object in attr.native_types` -/
  anyObj : Bool
  /-- `attr.is_xsi_type` -/
  xsiType : Bool := false
  /-- `attr.is_tokens` (`restrictions.tokens`): the value is a whitespace separated list (NMTOKENS / IDREFS /
  ENTITIES, `xs:list`) held in ONE attribute / element; with `isList` it makes up `Attr.is_factory` -/
  tokens : Bool := false
deriving DecidableEq, Repr

/-- `ElementBase.default_value`: the `default`, else the `fixed` value -/
def defaultValue (default fixed : Option Str) : Option Str :=
  match default with
  | some d => some d
  | none => fixed

/-- no `type`: `default_type` is `xs:string` for a fixed value, else `xs:anySimpleType`/`xs:anyType` -/
def typeIsObject (t : TypeKind) (fixed : Option Str) : Bool := t = .absent && fixed.isNone

/-- `Attribute.get_restrictions` -/
def useBounds : Use → Nat × Nat
  | .required => (1, 1)
  | .prohibited => (0, 0)
  | .optional => (0, 1)

/-- `SchemaMapper.build_class_attribute` on an `xs:attribute` -/
def mapAttribute (d : AttrDecl) : GAttr :=
  { isAttribute := true, min := (useBounds d.use).1, max := (useBounds d.use).2,
    default := defaultValue d.default d.fixed, fixed := d.fixed.isSome,
    anyObj := typeIsObject d.type d.fixed }

/-- … on an `xs:element` -/
def mapElement (d : ElemDecl) : GAttr :=
  { isAttribute := false, min := d.min, max := d.max,
    default := defaultValue d.default d.fixed, fixed := d.fixed.isSome,
    anyObj := typeIsObject d.type d.fixed }

def GAttr.isList (a : GAttr) : Bool := a.max > 1

/-- `SanitizeAttributesDefaultValue.should_reset_required` -/
def shouldResetRequired (a : GAttr) : Bool :=
  !a.isAttribute && a.default.isNone && a.anyObj && !a.isList

/-- `SanitizeAttributesDefaultValue.should_reset_default`: `attr.is_list` (several occurrences), NOT
`attr.is_factory` — the declared default of a tokens attr is one value and is kept -/
def shouldResetDefault (a : GAttr) : Bool :=
  a.default.isSome && (a.xsiType || a.isList || (!a.isAttribute && a.min = 0))

/-- `SanitizeAttributesDefaultValue.process_attribute` (default values that convert; no text node) -/
def sanitize (a : GAttr) : GAttr :=
  let a := if shouldResetRequired a then { a with min := 0 } else a
  if shouldResetDefault a then { a with fixed := false, default := none } else a

inductive FDefault
  /-- no default: the constructor demands the argument -/
  | missing
  | none
  | listFactory
  | value (s : Str)
deriving DecidableEq, Repr

structure Field where
  init : Bool
  default : FDefault
deriving DecidableEq, Repr

/-- `ValidateAttributesOverrides.validate_attrs` (no base class: a prohibited attr is removed), then
`Filters.field_definition` / `field_default_value`; `none` = no field -/
def fieldOf (a : GAttr) : Option Field :=
  if a.max = 0 then none else
  some { init := !a.fixed,
         default := if a.isList || (a.tokens && a.default.isNone) then .listFactory else
           -- a tokens default is rendered as `default_factory=lambda: [t1, t2]`: the declared tokens
           match a.default with
           | some s => .value s
           | none => if a.min = 0 then .none else .missing }

/-- the field generated for an attribute / element declaration -/
def attrField (d : AttrDecl) : Option Field := fieldOf (sanitize (mapAttribute d))
def elemField (d : ElemDecl) : Option Field := fieldOf (sanitize (mapElement d))

/-! ### Spec: attribute uses (XSD part 1, 3.5 Attribute Uses; written from the definition) -/

/-- what an element may carry for the declaration: `none` = no such attribute, `some v` = the value -/
def AttrDecl.allows (d : AttrDecl) : Option Str → Prop
  | none => d.use ≠ .required
  | some v => d.use ≠ .prohibited ∧ ∀ f, d.fixed = some f → v = f

/-- the schema-normalized value: an absent attribute takes the `default` / `fixed` value -/
def AttrDecl.normalized (d : AttrDecl) : Option Str → Option Str
  | some v => some v
  | none => if d.use = .prohibited then none else defaultValue d.default d.fixed

/-- the declarations a schema may contain: not both `default` and `fixed`; `default` only with
`use="optional"`; nothing on a prohibited attribute -/
def AttrDecl.wf (d : AttrDecl) : Bool :=
  !(d.default.isSome && d.fixed.isSome) &&
  (d.default.isNone || d.use = .optional) &&
  (d.use ≠ .prohibited || (d.default.isNone && d.fixed.isNone))

/-- how the strict parser (`fail_on_unknown_attributes`) fills the field from a document: an outer
`none` is a `ParserError` (unknown attribute; missing constructor argument; a value other than the
fixed one). A field with `init=False` is never assigned, it keeps its default; the value a document
gives for it goes through `ParserUtils.validate_fixed_value` (`ElementNode.bind_attr`) and must
equal that default. Tied to the real parser on the generated class by the ops `gen.read_attr` /
`gen.dtd_read_attr`. -/
def readAttr (f : Option Field) (x : Option Str) : Option (Option Str) :=
  match f, x with
  | none, none => some none
  | none, some _ => none
  | some f, some v =>
    if f.init then some (some v) else
      (match f.default with
       | .value s => if v = s then some (some s) else none
       | _ => some none)
  | some f, none =>
    match f.default with
    | .missing => none
    | .none => some none
    | .listFactory => some none
    | .value s => some (some s)

end Xs.Gen
