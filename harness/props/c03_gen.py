"""C03 generators: writer event lists × user prefix maps × configurations."""
import itertools

XSI = "http://www.w3.org/2001/XMLSchema-instance"
XS = "http://www.w3.org/2001/XMLSchema"
XMLNS = "http://www.w3.org/XML/1998/namespace"
XLINK = "http://www.w3.org/1999/xlink"

URIS = [None, None, "urn:a", "urn:a", "urn:b", "urn:c", "http://example.com/ns", XSI, XS, XMLNS, XLINK]
PLAIN_URIS = ["urn:a", "urn:b", "urn:c", "http://example.com/ns"]
LOCALS = ["a", "b", "R", "item", "x-y", "_u", "é", "n1"]
TEXTS = ["t", "a b", "1 < 2 & 3 > 2", '"q"', "'s'", "\"both'", "x\ty", "l1\nl2", "", " ", "]]>", "é✓", "{curly}", "&amp;", "0"]
HOSTILE = ["a\rb", "\r\n", "x\r", "\nlead", "\r", "\n", "ctl\x01", "\x0b", "nul\x00", "￾", "a\x85b", " "]

# ------------------------------------------------------------------ user maps
USER_MAPS = [
    [],
    [],
    [[None, "urn:a"]],
    [["", "urn:a"]],
    [[None, "urn:b"]],
    [["p", "urn:a"]],
    [["p", "urn:a"], ["q", "urn:b"]],
    [["p", "urn:a"], ["q", "urn:a"]],            # duplicate URI
    [["unused", "urn:zzz"]],
    [["unused", "urn:zzz"], ["p", "urn:b"], [None, "urn:c"]],
    [[None, "urn:a"], ["p", "urn:a"]],           # default also prefixed → default dropped
    [["", "urn:a"], [None, "urn:b"]],            # both spellings of the default
    [["p", ""], ["q", "urn:a"]],                 # empty URI entry is dropped
    [["xsi", XSI], ["xs", XS]],
    [["x", XSI]],
    [["ns0", "urn:a"]],
    [["ns1", "urn:a"]],
    [["ns1", "urn:zzz"]],
    [["ns2", "urn:zzz"]],
    [["ns0", "urn:x0"], ["ns1", "urn:x1"], ["ns2", "urn:x2"]],
    [["ns5", "urn:a"]],
    [["xs", "urn:a"]],                           # standard prefix bound elsewhere
    [["xml", "urn:a"]],
    [["xmlns", "urn:a"]],
    [["a b", "urn:a"]],
    [["1p", "urn:a"]],
    [["\u00aa", "urn:a"]],                       # a letter for str.isalpha, not an XML NameStartChar
    [["\u00e9", "urn:a"]],                       # é: a NCName
    [[None, XMLNS]],
    [["p", "http://www.w3.org/2000/xmlns/"]],
    [["p", XMLNS]],
    [["xml", XMLNS]],
    [[None, "urn:a&b"]],
]
SAFE_MAPS = USER_MAPS[:15]


def rand_map(rng):
    r = rng.random()
    if r < 0.65:
        return [list(x) for x in rng.choice(SAFE_MAPS)]
    if r < 0.9:
        return [list(x) for x in rng.choice(USER_MAPS)]
    keys = rng.sample([None, "", "p", "q", "ns0", "ns1", "ns2", "ns3", "xs", "xsi", "xml", "pre.fix"], rng.randint(1, 4))
    return [[k, rng.choice(PLAIN_URIS + ["", "urn:zzz", XSI, XS])] for k in keys]


def rand_cfg(rng, indent_ok=True):
    cfg = {}
    r = rng.random()
    if r < 0.12:
        cfg["schema_location"] = rng.choice(["urn:a a.xsd", "x", "{curly", ""])
    if rng.random() < 0.08:
        cfg["no_ns"] = rng.choice(["a.xsd", "b & c"])
    if indent_ok and rng.random() < 0.2:
        cfg["indent"] = rng.choice(["  ", "\t", " ", ""])
    if rng.random() < 0.1:
        cfg["decl"] = True
    return cfg


# ------------------------------------------------------------------ event trees
def qn(uri, local):
    return "{%s}%s" % (uri, local) if uri else local


def rand_name(rng, uris=URIS):
    return qn(rng.choice(uris), rng.choice(LOCALS))


def rand_atom(rng, hostile):
    r = rng.random()
    if r < 0.5:
        return rng.choice(TEXTS)
    if r < 0.55 and hostile:
        return rng.choice(HOSTILE)
    if r < 0.75:
        u = rng.choice(URIS)
        return {"q": qn(u, rng.choice(LOCALS))}
    if r < 0.85:
        return rng.choice([0, 1, -5, 42, 10**12])
    if r < 0.92:
        return rng.choice([True, False])
    return "{%s}%s" % (XS, rng.choice(["string", "int", "QName", "nosuchtype"]))


def rand_val(rng, hostile, allow_none=True):
    r = rng.random()
    if r < 0.1 and allow_none:
        return None
    if r < 0.13 and allow_none:
        return []
    if r < 0.25:
        return [rand_atom(rng, hostile) for _ in range(rng.randint(1, 3))]
    return rand_atom(rng, hostile)


def rand_element(rng, depth, hostile, messy):
    """events of one element; `messy` allows consecutive DATA and tail text"""
    q = rand_name(rng)
    ev = [["start", q]]
    for _ in range(rng.choice([0, 0, 1, 1, 2, 3])):
        r = rng.random()
        if r < 0.12:
            ev.append(["attr", qn(XSI, "nil"), "true"])
        elif r < 0.25:
            ev.append(["attr", qn(XSI, "type"), rng.choice([{"q": rand_name(rng)}, qn(rng.choice(PLAIN_URIS + [XS]), "T"), "plain"])])
        else:
            ev.append(["attr", rand_name(rng), rand_val(rng, hostile, allow_none=messy and rng.random() < 0.3)])
    n_content = rng.choice([0, 1, 1, 2, 3]) if depth > 0 else rng.choice([0, 1])
    last_data = False
    for _ in range(n_content):
        r = rng.random()
        if r < 0.45 and (messy or not last_data):
            ev.append(["data", rand_val(rng, hostile, allow_none=True)])
            last_data = True
        elif depth > 0:
            ev.extend(rand_element(rng, depth - 1, hostile, messy))
            last_data = False
    ev.append(["end", q])
    return ev


def rand_events(rng, hostile=False, messy=False):
    return rand_element(rng, rng.choice([0, 1, 2, 2, 3]), hostile, messy)


def corrupt(rng, ev):
    ev = [list(e) for e in ev]
    r = rng.random()
    if not ev:
        return [["end", "a"]]
    i = rng.randrange(len(ev))
    if r < 0.2:
        del ev[i]
    elif r < 0.4:
        ev.insert(i, rng.choice([["data", "x"], ["attr", "z", "1"], ["end", "a"], ["start", "a"], ["bogus", "a"], ["start", ""], ["attr", "", "v"], ["data", {"q": ""}]]))
    elif r < 0.55:
        j = rng.randrange(len(ev))
        ev[i], ev[j] = ev[j], ev[i]
    elif r < 0.7:
        ev = ev[:i]
    elif r < 0.85:
        if ev[i][0] in ("start", "end", "attr"):
            ev[i][1] = rng.choice(["", "{}a", "{urn:a}", "{urn:a", "a:b", "a b", "{urn:a}b}c", "{{x}}y", "1a", "{urn:a}1a"])
    else:
        ev = ev + ev
    return ev


# ------------------------------------------------------------------ hand-picked
A, B = "{urn:a}A", "{urn:b}B"
HAND = [
    ([["start", "R"], ["end", "R"]], [], {}),
    ([["start", A], ["end", A]], [], {}),
    ([["start", B], ["end", B]], [["ns1", "urn:a"]], {}),
    ([["start", B], ["attr", "{urn:a}x", "1"], ["end", B]], [["ns1", "urn:a"]], {}),          # KeyError
    ([["start", B], ["start", "{urn:a}c"], ["end", "{urn:a}c"], ["end", B]], [["ns1", "urn:a"]], {}),
    ([["start", A], ["attr", "{urn:a}x", "1"], ["end", A]], [["", "urn:a"]], {}),              # unprefixed attr
    ([["start", A], ["start", "B"], ["attr", "{urn:a}x", "1"], ["end", "B"], ["end", A]], [[None, "urn:a"]], {}),
    ([["start", A], ["end", A]], [["xml", "urn:a"]], {}),
    ([["start", A], ["end", A]], [["xmlns", "urn:a"]], {}),
    ([["start", A], ["end", A]], [["a b", "urn:a"]], {}),
    ([["start", "M"], ["data", "a"], ["data", "b"], ["end", "M"]], [], {}),
    ([["start", "R"], ["start", "M"], ["data", "a"], ["data", "b"], ["data", "c"], ["end", "M"], ["end", "R"]], [], {}),
    ([["start", "M"], ["data", None], ["data", "b"], ["end", "M"]], [], {}),
    ([["start", "M"], ["data", "a\rb"], ["end", "M"]], [], {}),
    ([["start", "M"], ["attr", "x", "a\rb\n\tc"], ["end", "M"]], [], {}),
    ([["start", "{urn:a?x=1&y=2}M"], ["end", "{urn:a?x=1&y=2}M"]], [], {}),
    ([["start", "A"], ["start", "B"], ["end", "B"], ["data", {"q": "{urn:x}y"}], ["start", "{urn:x}C"], ["end", "{urn:x}C"], ["end", "A"]], [], {}),
    ([["start", "A"], ["start", "B"], ["end", "B"], ["data", {"q": "{urn:x}y"}], ["end", "A"]], [], {}),
    ([["start", A], ["start", "B"], ["start", "{urn:a}C"], ["end", "{urn:a}C"], ["end", "B"], ["end", A]], [[None, "urn:a"]], {}),
    ([["start", A], ["attr", "t", "{%s}string" % XS], ["attr", "{%s}type" % XSI, "{urn:q}T"], ["data", None], ["end", A]], [[None, "urn:a"]], {"schema_location": "urn:a a.xsd"}),
    ([["start", A], ["attr", "{%s}nil" % XSI, "true"], ["data", ""], ["end", A]], [["ns0", "urn:z"], ["ns1", "urn:y"]], {}),
    ([["start", A], ["attr", "{%s}nil" % XSI, "true"], ["data", None], ["end", A]], [], {}),
    ([["start", A], ["attr", "{%s}nil" % XSI, "true"], ["end", A]], [], {}),
    ([["start", A], ["attr", "{%s}nil" % XSI, "true"], ["start", "c"], ["end", "c"], ["end", A]], [], {}),
    ([["start", A], ["start", B], ["attr", "{urn:z}k", "v"], ["end", B], ["end", A]], [["ns2", "urn:z"]], {}),   # KeyError
    ([["start", "A"], ["data", "x"], ["start", "B"], ["end", "B"], ["data", "t"], ["data", "u"], ["end", "A"]], [], {"indent": "  "}),
    ([["start", A], ["attr", "{urn:b}x", "1"], ["attr", "{urn:b}x", "2"], ["attr", "x", "3"], ["end", A]], [["p", "urn:b"], ["q", "urn:b"]], {}),
    ([["start", A], ["attr", "{%s}lang" % XMLNS, "en"], ["end", A]], [], {}),
    ([["start", A], ["attr", "k", None], ["end", A]], [], {}),
    ([["start", A], ["attr", "k", {"q": "{urn:b}v"}], ["data", [{"q": "{urn:c}w"}, {"q": "{urn:b}v"}, "s", 1, True]], ["end", A]], [], {}),
    ([["start", A], ["data", {"q": "plain"}], ["end", A]], [[None, "urn:a"]], {}),
    ([["start", A], ["start", B], ["start", "{urn:c}C"], ["end", "{urn:c}C"], ["end", B], ["start", "{urn:c}C"], ["end", "{urn:c}C"], ["end", A]], [], {"indent": "  ", "decl": True}),
    ([["attr", "k", "v"]], [], {}),
    ([["data", "x"]], [], {}),
    ([["end", "a"]], [], {}),
    ([["start", ""]], [], {}),
    ([["start", "a"], ["end", ""]], [], {}),
    ([["start", "a"], ["end", "b"]], [], {}),
    ([["start", "a"], ["data", "t"], ["end", "{urn:q}b"]], [], {}),
    ([["start", "a"], ["end", "a"], ["start", "b"], ["end", "b"]], [], {}),
    ([["start", "a"], ["end", "a"], ["data", "t"]], [], {}),
    ([["start", "a"]], [], {}),
    ([["bogus", "a"]], [], {}),
    ([], [], {}),
    ([], [], {"schema_location": "x"}),
    ([["start", "{urn:a}a"], ["end", "{urn:a}a"]], [["xs", "urn:a"]], {}),
    ([["start", "{urn:a}a"], ["attr", "t", "{%s}int" % XS], ["end", "{urn:a}a"]], [["xs", "urn:a"]], {}),   # KeyError
    ([["start", "{urn:a}a"], ["end", "{urn:a}a"]], [["p", XMLNS]], {}),
    ([["start", "{urn:a}a"], ["data", "ctl\x01"], ["end", "{urn:a}a"]], [], {}),
]

# ------------------------------------------------------------------ bounded exhaustive
ALPHABET = [
    ["start", "A"],
    ["start", "{urn:a}B"],
    ["start", "{urn:b}C"],
    ["attr", "{urn:a}x", "1"],
    ["attr", "{urn:c}y", {"q": "{urn:b}v"}],
    ["attr", "{%s}nil" % XSI, "true"],
    ["data", "t"],
    ["data", None],
    ["data", {"q": "{urn:c}w"}],
    ["end", "A"],
    ["end", "{urn:a}B"],
    ["end", "{urn:b}C"],
]
EXH_MAPS = [[], [[None, "urn:a"]], [["ns1", "urn:c"]], [["p", "urn:b"], ["q", "urn:b"]]]


def exhaustive(maxlen, maps):
    for n in range(0, maxlen + 1):
        for combo in itertools.product(ALPHABET, repeat=n):
            for m in maps:
                yield {"events": [list(e) for e in combo], "ns_map": [list(x) for x in m], "cfg": {}}


def balanced_exhaustive(rng, count):
    """balanced lists up to 3 elements deep/wide over the alphabet, sampled maps"""
    starts = ["A", "{urn:a}B", "{urn:b}C", "{urn:c}D"]
    attrs = [[], [["attr", "{urn:a}x", "1"]], [["attr", "{urn:c}y", {"q": "{urn:b}v"}]], [["attr", "{urn:b}z", "2"], ["attr", "w", "3"]]]
    datas = [[], [["data", "t"]], [["data", {"q": "{urn:c}w"}]]]
    shapes = []
    for s1, s2, s3 in itertools.product(starts, repeat=3):
        for a1, a2 in itertools.product(attrs, repeat=2):
            for d in datas:
                # nested: s1( s2( s3 ) ) and siblings: s1( s2, s3 )
                shapes.append([["start", s1]] + a1 + [["start", s2]] + a2 + d + [["start", s3], ["end", s3], ["end", s2], ["end", s1]])
                shapes.append([["start", s1]] + a1 + d + [["start", s2]] + a2 + [["end", s2], ["start", s3], ["end", s3], ["end", s1]])
    rng.shuffle(shapes)
    for ev in shapes[:count]:
        yield {"events": ev, "ns_map": [list(x) for x in rng.choice(USER_MAPS)], "cfg": {}}


# ------------------------------------------------------------------ the generators used by the Corrs
def _writer_cases(rng, tier, indent_ok=True):
    for ev, m, cfg in HAND:
        yield {"events": ev, "ns_map": m, "cfg": cfg}
    # every user map against two fixed instances
    fixed = [
        [["start", A], ["attr", "{urn:b}x", "1"], ["start", B], ["attr", "k", {"q": "{urn:c}v"}], ["data", "t"], ["end", B], ["start", "c"], ["end", "c"], ["end", A]],
        [["start", "r"], ["attr", "{urn:a}x", "1"], ["start", "{urn:a}k"], ["start", "{urn:zzz}z"], ["end", "{urn:zzz}z"], ["end", "{urn:a}k"], ["end", "r"]],
    ]
    for m in USER_MAPS:
        for ev in fixed:
            yield {"events": ev, "ns_map": m, "cfg": {}}
    yield from exhaustive(3 if tier == "quick" else 4, EXH_MAPS[:2] if tier == "quick" else EXH_MAPS)
    yield from balanced_exhaustive(rng, 400 if tier == "quick" else 6000)
    n = 2500 if tier == "quick" else 50000
    for _ in range(n):
        r = rng.random()
        hostile = r < 0.18
        messy = 0.15 <= r < 0.35
        ev = rand_events(rng, hostile=hostile, messy=messy)
        if 0.35 <= r < 0.5:
            ev = corrupt(rng, ev)
        yield {"events": ev, "ns_map": rand_map(rng), "cfg": rand_cfg(rng, indent_ok)}


def gen_native(rng, tier):
    yield from _writer_cases(rng, tier)


def gen_sax(rng, tier):
    yield from _writer_cases(rng, tier, indent_ok=False)


def gen_lxml(rng, tier):
    for c in _writer_cases(rng, tier, indent_ok=False):
        c["cfg"].pop("indent", None)
        yield c


def gen_events_tree(rng, tier):
    yield from _writer_cases(rng, tier, indent_ok=False)


def gen_clean(rng, tier):
    for m in USER_MAPS:
        yield {"ns_map": m}
    keys = [None, "", "p", "q", "ns1"]
    vals = ["", "urn:a", "urn:b"]
    for ks in itertools.permutations(keys, 3):
        for vs in itertools.product(vals, repeat=3):
            yield {"ns_map": [[k, v] for k, v in zip(ks, vs)]}
    for _ in range(300):
        yield {"ns_map": rand_map(rng)}


def gen_split(rng, tier):
    hand = ["", "a", "{", "}", "{}", "{}a", "{a}", "{a}b", "{a}b}c", "{{a}b", "{a", "a}b", "{a}}", "{urn:a}é", "{ }x", "{a}{b}c", "x{a}b"]
    for q in hand:
        yield {"q": q}
    for _ in range(400):
        yield {"q": "".join(rng.choice("{}ab:é ") for _ in range(rng.randint(0, 6)))}


def gen_prefix(rng, tier):
    uris = ["urn:a", "urn:b", XSI, XS, XMLNS, XLINK, "", "http://www.w3.org/1998/Math/MathML", "http://schemas.xmlsoap.org/soap/envelope/"]
    for m in USER_MAPS:
        for u in uris:
            yield {"ns_map": _dedupe(m), "uri": u}
    for _ in range(300):
        yield {"ns_map": _dedupe(rand_map(rng)), "uri": rng.choice(uris)}


def _dedupe(m):
    seen = {}
    for k, v in m:
        seen[k] = v
    return [[k, v] for k, v in seen.items()]


def gen_escape(rng, tier):
    for s in TEXTS + HOSTILE + ["&<>\"'", "\"", "'", "\"'", "a\nb\rc\td", "&#10;", "&quot;'", "'&quot;\""]:
        yield {"s": s}
    alpha = "&<>\"'\n\r\t a;#q"
    for _ in range(1500 if tier == "quick" else 20000):
        yield {"s": "".join(rng.choice(alpha) for _ in range(rng.randint(0, 7)))}


def gen_ncname(rng, tier):
    for c in range(1, 0x250):
        yield {"s": chr(c)}
        yield {"s": "a" + chr(c)}
    for s in ["", "a", "a:b", "_", "-a", ".a", "1a", "a1", "a-b.c", "é", "a b", "xml", "a·", "·a", "à", "̀"]:
        yield {"s": s}
    edges = [0x2FF, 0x300, 0x36F, 0x370, 0x37D, 0x37E, 0x37F, 0x1FFF, 0x2000, 0x200B, 0x200C, 0x200D, 0x200E, 0x203E, 0x203F, 0x2040, 0x2041,
             0x206F, 0x2070, 0x218F, 0x2190, 0x2BFF, 0x2C00, 0x2FEF, 0x2FF0, 0x3000, 0x3001, 0xD7FF, 0xE000, 0xF8FF, 0xF900, 0xFDCF, 0xFDD0,
             0xFDEF, 0xFDF0, 0xFFFD, 0x10000, 0xEFFFF, 0xF0000, 0x10FFFF]
    for c in edges:
        yield {"s": chr(c)}
        yield {"s": "a" + chr(c)}


def classify_native(a, o):
    out = "ok" if "ok" in o else "err:" + str(o.get("err"))
    if "ok" in o:
        out += ":wf" if o["ok"]["infoset"] is not None else ":not-wf"
    feats = []
    m = a["ns_map"]
    if any(k in (None, "") for k, _ in m):
        feats.append("default")
    if any(isinstance(k, str) and (k.startswith("ns") and k[2:].isdigit()) for k, _ in m):
        feats.append("nsK")
    if a["cfg"].get("indent"):
        feats.append("indent")
    if any(e[0] in ("attr", "data") and _has_q(e[-1]) for e in a["events"]):
        feats.append("qname")
    return out + ("[" + ",".join(feats) + "]" if feats else "")


def _has_q(v):
    if isinstance(v, dict):
        return True
    if isinstance(v, list):
        return any(isinstance(x, dict) for x in v)
    return False
