/-
`xsdata/codegen/resolver.py : DependenciesResolver` — class order inside a
module and the import list: `create_class_map`, `create_class_list`
(`toposort_flatten` over `set(obj.dependencies())`), `import_classes`,
`resolve_imports`, `resolve_conflicts`, `sorted_imports`, `sorted_classes`.
-/
import XsdataModel.Codegen.Toposort

namespace Xs.Codegen
open Py

/-- `namespaces.local_name(qname)` = `split_qname(qname)[1]` -/
def localName (q : Str) : Str :=
  match q with
  | '{' :: rest =>
    let left := rest.takeWhile (· != '}')
    let right := (rest.dropWhile (· != '}')).drop 1
    if !left.isEmpty && !right.isEmpty then right else q
  | _ => q

def isAsciiAlnum (c : Char) : Bool :=
  (48 ≤ c.toNat && c.toNat ≤ 57) || (65 ≤ c.toNat && c.toNat ≤ 90) || (97 ≤ c.toNat && c.toNat ≤ 122)

def asciiLower (c : Char) : Char :=
  if 65 ≤ c.toNat && c.toNat ≤ 90 then Char.ofNat (c.toNat + 32) else c

/-- `text.alnum(value)` -/
def alnum (s : Str) : Str := (s.filter isAsciiAlnum).map asciiLower

/-- `re.split("[_.]", s)` -/
def splitParts : Str → List Str
  | [] => [[]]
  | c :: cs =>
    if c = '_' || c = '.' then [] :: splitParts cs
    else match splitParts cs with
      | p :: ps => (c :: p) :: ps
      | [] => [[c]]

/-- `s.split(".")[-1]` -/
def lastDotPart (s : Str) : Str := (s.reverse.takeWhile (· != '.')).reverse

/-- `"_".join(parts)` -/
def joinUnderscore : List Str → Str
  | [] => []
  | [p] => p
  | p :: ps => p ++ '_' :: joinUnderscore ps

structure Import where
  qname : Str
  source : Str
  alias : Option Str := none
deriving Repr, DecidableEq

def Import.name (i : Import) : Str := localName i.qname
def Import.slug (i : Import) : Str := alnum i.name

/-- what the resolver reads from a class of the module -/
structure ModClass where
  qname : Str
  /-- `set(obj.dependencies())` in some order -/
  deps : List Str
deriving Repr

def ModClass.slug (c : ModClass) : Str := alnum (localName c.qname)

inductive ResErr where
  | duplicate     -- CodegenError("Duplicate class during resolve")
  | circular      -- CircularDependencyError
  | unresolved    -- CodegenError("Failed to resolve dependency")
deriving Repr, DecidableEq

/-- `create_class_map`: fails on a repeated qname -/
def createClassMap : List ModClass → Option (List Str)
  | [] => some []
  | c :: cs =>
    if cs.any (·.qname == c.qname) then none else (createClassMap cs).map (c.qname :: ·)

/-- `create_class_list` -/
def createClassList (classes : List ModClass) : Option (List Str) :=
  toposortFlatten (classes.map (fun c => (c.qname, c.deps)))

/-- alias for the import at position `idx` of a same-slug `group` of length ≥ 2 -/
def conflictAlias (group : List Import) (idx : Nat) (cur : Import) : Str :=
  let cmp := if idx = 0 then group[1]? else group[idx - 1]?
  let parts := splitParts cur.source
  let other := match cmp with
    | some c => splitParts c.source
    | none => []
  let add := joinUnderscore (parts.filter (fun p => !other.contains p))
  add ++ ':' :: cur.name

/-- `resolve_conflicts(imports, protectedSlugs)`: returns qname ↦ alias for every import that gets one -/
def resolveConflicts (imports : List Import) (protectedSlugs : List Str) : List (Str × Str) :=
  (groupBy Import.slug imports).flatMap (fun g =>
    match g.2 with
    | [imp] =>
      if protectedSlugs.contains g.1 then [(imp.qname, lastDotPart imp.source ++ ':' :: imp.name)] else []
    | group => (group.zipIdx).map (fun p => (p.1.qname, conflictAlias group p.2 p.1)))

structure Resolved where
  classList : List Str
  /-- `self.imports` after `resolve_conflicts` (list order = class_list order) -/
  imports : List Import
  /-- `sorted_imports()` -/
  sortedImports : List Import
  /-- qnames of `sorted_classes()` -/
  sortedClasses : List Str
deriving Repr

/-- `DependenciesResolver.process(classes)` followed by `sorted_imports()` / `sorted_classes()` -/
def resolverProcess (registry : List (Str × Str)) (classes : List ModClass) : Except ResErr Resolved :=
  match createClassMap classes with
  | none => .error .duplicate
  | some classMap =>
    match createClassList classes with
    | none => .error .circular
    | some classList =>
      let toImport := classList.filter (fun q => !classMap.contains q)
      match toImport.mapM (fun q => (dget registry q).map (fun src => ({ qname := q, source := src } : Import))) with
      | none => .error .unresolved
      | some imports =>
        let protectedSlugs := classes.map ModClass.slug
        let aliases := resolveConflicts imports protectedSlugs
        let imports := imports.map (fun i => { i with alias := List.lookup i.qname aliases })
        .ok { classList := classList
              imports := imports
              sortedImports := pySortedBy Import.name imports
              sortedClasses := classList.filter (fun q => classMap.contains q) }

end Xs.Codegen
