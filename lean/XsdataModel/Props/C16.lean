/- C16 — the occurrence decisions of `DtdMapper.build_content` against the language of the DTD
content model: property theorems (only).

`dtdSites c` are the fields `DtdMapper` creates for the content tree `c` (libxml2's binary
tree), `occurs` what the handlers of the FLATTEN step leave of them, `c.toParticle` the content
model `lxml.etree.DTD` validates, `Matches` its language. As for C02: a non-list field rejects
a second occurrence of its element, a field with `min ≥ 1` that is not a list rejects a
document without the element. Vocabulary (`dtdNames`, `dtdElemNames`, `dtdDistinct`,
`restricted`, `restrictedN`, `restrictedStrict`) and helper lemmas: `Proofs/OccursDtd`. -/
import XsdataModel.Gen.Occurs
import XsdataModel.Proofs.OccursDtd

namespace Props.C16
open Py Xs.Gen

/-! ## 1. the restricted fragment -/

/-- a running example: `(a, ((b | c | d)?, e*))` -/
def exC : DtdContent :=
  .seq .once (some (.element ['a'] .once))
    (some (.seq .once
      (some (.or .opt (some (.element ['b'] .once))
        (some (.or .once (some (.element ['c'] .once)) (some (.element ['d'] .once))))))
      (some (.element ['e'] .mult))))

/-- its content model as a particle -/
def exCP : Particle :=
  .seq 1 1 [.elem ['a'] 1 1,
    .seq 1 1 [.choice 0 1 [.elem ['b'] 1 1, .choice 1 1 [.elem ['c'] 1 1, .elem ['d'] 1 1]],
              .elem ['e'] 0 maxsize]]

theorem exC_toParticle : exC.toParticle = some exCP := rfl

/-- `[a, c, e, e]` is a word of the running example -/
theorem exC_matches : Matches exCP [['a'], ['c'], ['e'], ['e']] :=
  matches_seq.2 ⟨[[['a'], ['c'], ['e'], ['e']]], by decide, (by
    intro x hx
    rw [List.mem_singleton.1 hx]
    exact seqOnce_cons.2 ⟨[['a']], [['c'], ['e'], ['e']], matches_elem.2 ⟨1, by decide, rfl⟩,
      seqOnce_cons.2 ⟨[['c'], ['e'], ['e']], [],
        matches_seq.2 ⟨[[['c'], ['e'], ['e']]], by decide, (by
          intro y hy
          rw [List.mem_singleton.1 hy]
          exact seqOnce_cons.2 ⟨[['c']], [['e'], ['e']],
            matches_choice.2 ⟨[[['c']]], by decide, (by
              intro z hz
              rw [List.mem_singleton.1 hz]
              exact choiceOnce_cons.2 (Or.inr (choiceOnce_cons.2 (Or.inl
                (matches_choice.2 ⟨[[['c']]], by decide, (by
                  intro u hu
                  rw [List.mem_singleton.1 hu]
                  exact choiceOnce_cons.2 (Or.inl (matches_elem.2 ⟨1, by decide, rfl⟩))),
                  rfl⟩))))), rfl⟩,
            seqOnce_cons.2 ⟨[['e'], ['e']], [], matches_elem.2 ⟨2, by decide, rfl⟩,
              seqOnce_nil.2 rfl, rfl⟩, rfl⟩), rfl⟩,
        seqOnce_nil.2 rfl, rfl⟩, rfl⟩), rfl⟩

/-- the fields of the running example: `a` required, `b c d` optional, `e` a list -/
theorem exC_occurs : occurs (dtdSites exC) = some [
    { name := ['a'], index := 0, min := 1, max := 1 },
    { name := ['b'], index := 1, min := 0, max := 1, choice := some 1 },
    { name := ['c'], index := 2, min := 0, max := 1, choice := some 1 },
    { name := ['d'], index := 3, min := 0, max := 1, choice := some 1 },
    { name := ['e'], index := 4, min := 0, max := maxsize }] := by
  decide

/-- **No AssertionError, the fields survive the handlers unchanged**: with pairwise distinct
field names the FLATTEN handlers leave the fields `DtdMapper` created as they are
(one per element / `#PCDATA` node, in document order). -/
theorem dtd_occurs_distinct (c : DtdContent) (hd : dtdDistinct c = true) :
    occurs (dtdSites c) = some (dtdSites c) ∧ (dtdSites c).map (·.name) = dtdNames c :=
  ⟨occurs_dtdSites c (of_decide_eq_true hd), dtdSites_names c⟩

example : dtdDistinct exC = true := by decide

/-- **A non-list field never sees its element twice**, provided every `seq` node carries no
indicator and nothing below an `or` node carries `*` or `+` (`restricted`). -/
theorem dtd_nonlist_sound (c : DtdContent) (hr : restricted c = true) (hd : dtdDistinct c = true)
    (p : Particle) (hp : c.toParticle = some p) (w : List Str) (hw : Matches p w)
    (ss : List Site) (h : occurs (dtdSites c) = some ss) (s : Site) (hs : s ∈ ss)
    (hl : s.isList = false) : w.count s.name ≤ 1 :=
  dtd_nonlist_sound_core c (restricted_restrictedN c hr) (of_decide_eq_true hd) p hp w hw ss h s hs hl

/-- the hypotheses are satisfiable: field `c` of the running example, word `[a, c, e, e]` -/
example : List.count ['c'] [['a'], ['c'], ['e'], ['e']] ≤ 1 :=
  dtd_nonlist_sound exC (by decide) (by decide) _ exC_toParticle _ exC_matches _ exC_occurs
    { name := ['c'], index := 2, min := 0, max := 1, choice := some 1 } (by decide) (by decide)

/-- the same with `?` allowed on `seq` nodes (`restrictedN`): `(a, b)?` is harmless for
non-list fields (not for required ones, see `dtd_seq_opt_dropped`). -/
theorem dtd_nonlist_sound_seqopt (c : DtdContent) (hr : restrictedN c = true)
    (hd : dtdDistinct c = true)
    (p : Particle) (hp : c.toParticle = some p) (w : List Str) (hw : Matches p w)
    (ss : List Site) (h : occurs (dtdSites c) = some ss) (s : Site) (hs : s ∈ ss)
    (hl : s.isList = false) : w.count s.name ≤ 1 :=
  dtd_nonlist_sound_core c hr (of_decide_eq_true hd) p hp w hw ss h s hs hl

/-- `(a, b)?` and the empty word -/
def optSeqC : DtdContent := .seq .opt (some (.element ['a'] .once)) (some (.element ['b'] .once))

theorem optSeqC_matches : Matches (.seq 0 1 [.elem ['a'] 1 1, .elem ['b'] 1 1]) [] :=
  matches_seq.2 ⟨[], by decide, by simp, rfl⟩

theorem optSeqC_occurs : occurs (dtdSites optSeqC) = some [
    { name := ['a'], index := 0, min := 1, max := 1 },
    { name := ['b'], index := 1, min := 1, max := 1 }] := by
  decide

example : List.count ['a'] ([] : List Str) ≤ 1 :=
  dtd_nonlist_sound_seqopt optSeqC (by decide) (by decide) _ rfl _ optSeqC_matches _
    optSeqC_occurs { name := ['a'], index := 0, min := 1, max := 1 } (by decide) (by decide)

/-- **A required non-list field always finds its element exactly once** (`restricted` content
models; the field must belong to an element, the `value` field of `#PCDATA` is text). -/
theorem dtd_required_sound (c : DtdContent) (hr : restricted c = true) (hd : dtdDistinct c = true)
    (p : Particle) (hp : c.toParticle = some p) (w : List Str) (hw : Matches p w)
    (ss : List Site) (h : occurs (dtdSites c) = some ss) (s : Site) (hs : s ∈ ss)
    (hn : (dtdElemNames c).contains s.name = true)
    (hr1 : s.min ≥ 1) (hl : s.isList = false) : w.count s.name = 1 :=
  dtd_required_sound_core c hr (of_decide_eq_true hd) p hp w hw ss h s hs
    (List.contains_iff_mem.1 hn) hr1 hl

/-- the hypotheses are satisfiable: field `a` of the running example -/
example : List.count ['a'] [['a'], ['c'], ['e'], ['e']] = 1 :=
  dtd_required_sound exC (by decide) (by decide) _ exC_toParticle _ exC_matches _ exC_occurs
    { name := ['a'], index := 0, min := 1, max := 1 } (by decide) (by decide) (by decide)
    (by decide)

/-- property C16's own restriction (choices of single elements without indicator, `seq` nodes
without indicator) lies inside `restricted` -/
theorem restrictedStrict_implies_restricted (c : DtdContent) (h : restrictedStrict c = true) :
    restricted c = true :=
  restrictedStrict_restricted c h

example : restrictedStrict exC = true := by decide

/-! ## 2. outside the restricted fragment the statements fail -/

/-- `dtd_nonlist_sound` without `restricted` -/
def DtdNonlistSound : Prop :=
  ∀ (c : DtdContent) (p : Particle) (w : List Str) (ss : List Site) (s : Site),
    dtdDistinct c = true → c.toParticle = some p → Matches p w →
    occurs (dtdSites c) = some ss → s ∈ ss → s.isList = false → w.count s.name ≤ 1

/-- `dtd_required_sound` without `restricted` -/
def DtdRequiredSound : Prop :=
  ∀ (c : DtdContent) (p : Particle) (w : List Str) (ss : List Site) (s : Site),
    dtdDistinct c = true → c.toParticle = some p → Matches p w →
    occurs (dtdSites c) = some ss → s ∈ ss → (dtdElemNames c).contains s.name = true →
    s.min ≥ 1 → s.isList = false → w.count s.name = 1

/-- `(a, b)*` -/
def starSeqC : DtdContent := .seq .mult (some (.element ['a'] .once)) (some (.element ['b'] .once))

theorem starSeqC_matches :
    Matches (.seq 0 maxsize [.elem ['a'] 1 1, .elem ['b'] 1 1]) [['a'], ['b'], ['a'], ['b']] :=
  have hab : SeqOnce [.elem ['a'] 1 1, .elem ['b'] 1 1] [['a'], ['b']] :=
    seqOnce_cons.2 ⟨[['a']], [['b']], matches_elem.2 ⟨1, by decide, rfl⟩,
      seqOnce_cons.2 ⟨[['b']], [], matches_elem.2 ⟨1, by decide, rfl⟩, seqOnce_nil.2 rfl, rfl⟩, rfl⟩
  matches_seq.2 ⟨[[['a'], ['b']], [['a'], ['b']]], by decide, (by
    intro x hx
    simp only [List.mem_cons, List.not_mem_nil, or_false, or_self] at hx
    rw [hx]; exact hab), rfl⟩

theorem starSeqC_occurs : occurs (dtdSites starSeqC) = some [
    { name := ['a'], index := 0, min := 1, max := 1 },
    { name := ['b'], index := 1, min := 1, max := 1 }] := by
  decide

/-- **Defect**: `build_content` ignores the occurrence indicator of a sequence node:
`<!ELEMENT r ((a, b)*)>` gives two required single-valued fields `a`, `b`, but
`<r><a/><b/><a/><b/></r>` is valid. -/
theorem dtd_seq_occurrence_dropped : ¬ DtdNonlistSound := by
  intro h
  have := h starSeqC _ [['a'], ['b'], ['a'], ['b']] _ { name := ['a'], index := 0, min := 1, max := 1 }
    (by decide) rfl starSeqC_matches starSeqC_occurs (by decide) (by decide)
  exact absurd this (by decide)

/-- `(a | b+)` -/
def plusAltC : DtdContent := .or .once (some (.element ['a'] .once)) (some (.element ['b'] .plus))

theorem plusAltC_matches :
    Matches (.choice 1 1 [.elem ['a'] 1 1, .elem ['b'] 1 maxsize]) [['b'], ['b']] :=
  matches_choice.2 ⟨[[['b'], ['b']]], by decide, (by
    intro x hx
    rw [List.mem_singleton.1 hx]
    exact choiceOnce_cons.2 (Or.inr (choiceOnce_cons.2 (Or.inl
      (matches_elem.2 ⟨2, by decide, rfl⟩))))), rfl⟩

theorem plusAltC_occurs : occurs (dtdSites plusAltC) = some [
    { name := ['a'], index := 0, min := 0, max := 1, choice := some 1 },
    { name := ['b'], index := 1, min := 0, max := 1, choice := some 1 }] := by
  decide

/-- **Defect**: the keyword overrides of an `OR` node replace the occurrence indicators of
its alternatives: `<!ELEMENT r (a | b+)>` gives an optional single-valued field `b`, but
`<r><b/><b/></r>` is valid. -/
theorem dtd_choice_overrides_child : ¬ DtdNonlistSound := by
  intro h
  have := h plusAltC _ [['b'], ['b']] _ { name := ['b'], index := 1, min := 0, max := 1, choice := some 1 }
    (by decide) rfl plusAltC_matches plusAltC_occurs (by decide) (by decide)
  exact absurd this (by decide)

/-- **Defect** (same cause as `dtd_seq_occurrence_dropped`): `<!ELEMENT r ((a, b)?)>` gives two
*required* fields, but `<r/>` is valid. -/
theorem dtd_seq_opt_dropped : ¬ DtdRequiredSound := by
  intro h
  have := h optSeqC _ [] _ { name := ['a'], index := 0, min := 1, max := 1 }
    (by decide) rfl optSeqC_matches optSeqC_occurs (by decide) (by decide) (by decide)
    (by decide)
  exact absurd this (by decide)

end Props.C16
