"""More sections for Tables.lean live in harness/tables/*.py (one file per area, so
that parallel work never edits the same file). Each section is a function decorated
with `@extract_tables.extra` that receives the line writer `w`."""
import importlib
import os

from extract_tables import chars, extra, lean_bool, nats, strs  # noqa: F401

_here = os.path.join(os.path.dirname(os.path.abspath(__file__)), "tables")
for _f in sorted(os.listdir(_here)):
    if _f.endswith(".py") and not _f.startswith("_"):
        importlib.import_module("tables." + _f[:-3])
