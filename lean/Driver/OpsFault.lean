import Driver.OpsBind
import XsdataModel.Fault.Doc
open Lean Proto Py Xs.Bind Xs.Fault

namespace OpsFault
open OpsBind

def dTok (j : Json) : Except String Tok :=
  match j with
  | .str "syntax" => .ok .syntaxError
  | _ =>
    match j.getObjVal? "tree", j.getObjVal? "raised" with
    | .ok t, _ => (dTree t).map .tree
    | _, .ok (.str s) => .ok (.raised s)
    | _, _ => .error "bad tokenizer outcome"

def run (op : String) (a : Json) : Option (Except String Json) :=
  match op with
  | "fault.document" | "fault.document.lxml" => some do
      let Γ ← dCtx (field a "ctx")
      let tok ← dTok (field a "tok")
      let c ← dStr (field a "clazz")
      pure <| match parseDocument benv Γ (dCfg (field a "config")) c tok with
        | .ok (v, w) => ok (jObj [("value", jVal v), ("warnings", jNat w)])
        | .error e => jErr e
  | _ => none

end OpsFault
