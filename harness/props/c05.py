"""C05 — Primitive values map to valid XSD lexical forms and back."""
import base64 as _b64
import itertools
import json
import math
import re
from decimal import Decimal
from enum import Enum, IntEnum
from fractions import Fraction
from xml.etree.ElementTree import QName

from framework import Corr, Oracle, err, ok
from xsdata.exceptions import ConverterError
from xsdata.formats.converter import ConverterFactory, converter
from xsdata.models.datatype import (
    XmlBase64Binary,
    XmlDate,
    XmlDateTime,
    XmlDuration,
    XmlHexBinary,
    XmlPeriod,
    XmlTime,
)
from xsdata.models.enums import DataType
from xsdata.utils import namespaces as NS
from xsdata.utils import text as TX

PROP_ID = "C05"
DESIGN_REF = "6/C05"

TRUSTED = [
    "CPython float(str) rounding and repr(float) are not modelled: the model's float grammar yields the exact decimal "
    "written in the string, repr(float(s)) enters the model through CEnv.floatRepr (supplied per request by the harness)",
    "CPython int()/Decimal()/binascii/base64/str.strip/str.split/re '\\s' are hand models (Conv/*.lean) compared through conv.de/conv.ser",
    "Unicode tables (isspace, isdigit, decimal, isalpha) come from the interpreter that runs xsdata, regenerated each run",
    "XSD 1.1 Part 2 lexical grammars (boolean, integer, decimal, double, hexBinary, base64Binary, QName) in Props/C05.lean "
    "and, independently, in the harness oracles are my transcriptions",
    "xml.etree.ElementTree.QName is identified with its .text; Python dict with an insertion-ordered association list",
]
ASSUMPTIONS = [
    "ints have fewer than sys.get_int_max_str_digits() (4300) digits: beyond that CPython's int<->str conversion itself raises ValueError",
    "Decimal exponents stay within the decimal context limits (|exp| < 10**6 in the checks); signaling NaN comparisons are not modelled",
    "float(repr(x)) == x and repr is the shortest round-tripping form (CPython guarantee, David Gay's algorithm)",
    "acceptance of strings outside the XSD lexical space (1_000, 'infinity', Unicode digits) is not forbidden by the statement; it is modelled, not judged",
    "enum classes have pairwise unequal member values (Python would alias them otherwise)",
]

XSD_WS = " \t\n\r"

# ---------------------------------------------------------------------------
# encoding of python values <-> protocol JSON
# ---------------------------------------------------------------------------
TYPES = {
    "int": int,
    "bool": bool,
    "float": float,
    "Decimal": Decimal,
    "str": str,
    "QName": QName,
    "bytes": bytes,
    "XmlDate": XmlDate,
    "XmlTime": XmlTime,
    "XmlDateTime": XmlDateTime,
}


class Unregistered:
    """a class without converter"""


TYPES["unregistered"] = Unregistered
import datetime as _dt  # noqa: E402

TYPES.update({
    "XmlDuration": XmlDuration, "XmlPeriod": XmlPeriod, "XmlHexBinary": XmlHexBinary, "XmlBase64Binary": XmlBase64Binary,
    "date": _dt.date, "time": _dt.time, "datetime": _dt.datetime,
})
PY_DT_TYPES = ("date", "time", "datetime")


def enc_dec(d):
    t = d.as_tuple()
    if t.exponent == "F":
        return {"t": "dec", "k": "inf", "neg": bool(t.sign)}
    if t.exponent in ("n", "N"):
        return {"t": "dec", "k": "nan", "neg": bool(t.sign), "sig": t.exponent == "N",
                "diag": int("".join(map(str, t.digits)) or "0")}
    return {"t": "dec", "k": "fin", "neg": bool(t.sign), "coeff": int("".join(map(str, t.digits))), "exp": t.exponent}


def enc_atom(v):
    if isinstance(v, bool):
        return {"t": "bool", "v": v}
    if isinstance(v, int):
        return {"t": "int", "v": v}
    if isinstance(v, float):
        return {"t": "float", "v": repr(v)}
    if isinstance(v, Decimal):
        return enc_dec(v)
    if isinstance(v, str):
        return {"t": "str", "v": v}
    if isinstance(v, bytes):
        k = "hex" if isinstance(v, XmlHexBinary) else "b64" if isinstance(v, XmlBase64Binary) else "plain"
        return {"t": "bytes", "k": k, "v": list(v)}
    if isinstance(v, QName):
        return {"t": "qname", "v": v.text}
    if isinstance(v, XmlDateTime):
        return {"t": "datetime", "v": list(v)}
    if isinstance(v, XmlDate):
        return {"t": "date", "v": list(v)}
    if isinstance(v, XmlTime):
        return {"t": "time", "v": list(v)}
    if isinstance(v, XmlDuration):
        return {"t": "duration", "v": str(v)}
    if isinstance(v, XmlPeriod):
        return {"t": "period", "v": str(v)}
    if isinstance(v, _dt.datetime):
        if v.tzinfo is not None:
            raise TypeError("aware datetime: outside the model")
        return {"t": "pydatetime", "v": [v.year, v.month, v.day, v.hour, v.minute, v.second, v.microsecond]}
    if isinstance(v, _dt.date):
        return {"t": "pydate", "v": [v.year, v.month, v.day]}
    if isinstance(v, _dt.time):
        if v.tzinfo is not None:
            raise TypeError("aware time: outside the model")
        return {"t": "pytime", "v": [v.hour, v.minute, v.second, v.microsecond]}
    if isinstance(v, tuple):
        return {"t": "tuple", "v": [enc_atom(x) for x in v]}
    raise TypeError(f"cannot encode {v!r}")


def dec_atom(j):
    t = j["t"]
    v = j.get("v")
    if t in ("str", "int", "bool"):
        return v
    if t == "float":
        return float(v)
    if t == "dec":
        if j["k"] == "inf":
            return Decimal("-Infinity" if j["neg"] else "Infinity")
        if j["k"] == "nan":
            return Decimal(("-" if j["neg"] else "") + ("sNaN" if j["sig"] else "NaN") + (str(j["diag"]) if j["diag"] else ""))
        return Decimal((int(j["neg"]), tuple(int(c) for c in str(j["coeff"])), j["exp"]))
    if t == "bytes":
        cls = {"plain": bytes, "hex": XmlHexBinary, "b64": XmlBase64Binary}[j["k"]]
        return cls(bytes(v))
    if t == "qname":
        return QName(v)
    if t == "date":
        return XmlDate(*v)
    if t == "time":
        return XmlTime(*v)
    if t == "datetime":
        return XmlDateTime(*v)
    if t == "duration":
        return XmlDuration(v)
    if t == "period":
        return XmlPeriod(v)
    if t == "pydate":
        return _dt.date(*v)
    if t == "pytime":
        return _dt.time(*v)
    if t == "pydatetime":
        return _dt.datetime(*v)
    if t == "tuple":
        return tuple(dec_atom(x) for x in v)
    raise TypeError(t)


_ENUMS = {}


def make_enum(members):
    """Enum class whose i-th member has the i-th value (values pairwise unequal)."""
    key = repr(members)
    if key not in _ENUMS:
        vals = [dec_atom(m) for m in members]
        cls = Enum("E%d" % len(_ENUMS), [("M%d" % i, v) for i, v in enumerate(vals)])
        if len(list(cls)) != len(vals):
            raise ValueError("aliased enum members")
        _ENUMS[key] = cls
    return _ENUMS[key]


def dec_type(j):
    if isinstance(j, str):
        return TYPES[j]
    return make_enum(j["enum"])


def dec_kw(kw):
    out = {}
    if kw.get("format") is not None:
        out["format"] = kw["format"]
    if kw.get("ns_map") is not None:
        out["ns_map"] = {k: v for k, v in kw["ns_map"]}
    return out


def enc_nsmap(m):
    return None if m is None else [[k, v] for k, v in m.items()]


def enc_val(v, types):
    if isinstance(v, Enum):
        for i, t in enumerate(types):
            if t is type(v):
                return {"t": "member", "ty": i, "idx": list(t).index(v)}
    return enc_atom(v)


def KW(format=None, ns_map=None):  # noqa: A002
    return {"format": format, "ns_map": ns_map}


def freprs_for(s):
    out = {}
    cands = {s, s.strip()} | set(s.split())
    for c in cands:
        try:
            out[c] = repr(float(c))
        except ValueError:
            pass
    return out


# ---------------------------------------------------------------------------
# implementation side
# ---------------------------------------------------------------------------
def impl_de(a):
    types = [dec_type(t) for t in a["types"]]
    if a.get("sort"):
        types = ConverterFactory.sort_types(types)
    try:
        v = converter.deserialize(a["s"], types, **dec_kw(a["kw"]))
    except ConverterError:
        return err("ConverterError")
    except Exception as e:  # noqa: BLE001
        return err("LEAK:" + type(e).__name__)
    return ok(enc_val(v, types))


def impl_test(a):
    types = [dec_type(t) for t in a["types"]]
    try:
        return ok(converter.test(a["s"], types, strict=a["strict"], **dec_kw(a["kw"])))
    except Exception as e:  # noqa: BLE001
        return err("LEAK:" + type(e).__name__)


def dec_servalue(v):
    if v["t"] == "list":
        return [dec_atom(x) for x in v["v"]]
    if v["t"] == "member":
        return list(make_enum([v["v"]]))[0]
    return dec_atom(v)


def impl_ser(a):
    kw = dec_kw(a["kw"])
    try:
        s = converter.serialize(dec_servalue(a["v"]), **kw)
    except ConverterError:
        return err("ConverterError")
    except Exception as e:  # noqa: BLE001
        return err("LEAK:" + type(e).__name__)
    return ok({"s": s, "ns_map": enc_nsmap(kw.get("ns_map"))})


class E1(Enum):
    A = "a"


class E2(IntEnum):
    A = 1


class SubStr(str):
    pass


class SubDT(__import__("datetime").datetime):
    pass


class Plain:
    pass


import datetime as _dt  # noqa: E402

SORT_NAMES = {
    **{k: v for k, v in TYPES.items() if k != "unregistered"},
    "datetime": _dt.datetime, "date": _dt.date, "time": _dt.time,
    "XmlDuration": XmlDuration, "XmlPeriod": XmlPeriod,
    "E1": E1, "E2": E2, "object": object, "Plain": Plain, "SubStr": SubStr,
}
CLASSES = {
    **SORT_NAMES, "XmlHexBinary": XmlHexBinary, "XmlBase64Binary": XmlBase64Binary, "SubDT": SubDT,
    "Enum": Enum, "IntEnum": IntEnum, "NoneType": type(None), "tuple": tuple, "list": list,
}


def impl_sort(a):
    types = [SORT_NAMES[n] for n in a["names"]]
    return ok([t.__name__ for t in ConverterFactory.sort_types(types)])


def impl_type_converter(a):
    cls = CLASSES[a["cls"]]
    try:
        c = converter.type_converter(cls)
    except ConverterError:
        return err("ConverterError")
    except Exception as e:  # noqa: BLE001
        return err("LEAK:" + type(e).__name__)
    return ok(sorted(k.__name__ for k, v in converter.registry.items() if v is c))


def cmp_type_converter(mo, io, a):
    if "err" in mo or "err" in io:
        return mo == io
    return mo["ok"] in io["ok"]


def impl_from_value(a):
    return ok(DataType.from_value(dec_atom(a["v"])).code)


def impl_float_lit(a):
    try:
        return ok(repr(float(a["s"])))
    except ValueError:
        return err("ValueError")


def cmp_float_lit(mo, io, a):
    if "err" in mo or "err" in io:
        return mo == io
    m = mo["ok"]
    if m["k"] == "nan":
        return io["ok"] == "nan"
    if m["k"] == "inf":
        return io["ok"] == ("-inf" if m["neg"] else "inf")
    # correctly rounded conversion of the exact decimal the model read, done
    # without float(str): integer ratio division is correctly rounded
    q = Fraction(m["coeff"]) * (Fraction(10) ** m["exp"]) if abs(m["exp"]) < 5000 else None
    if q is None:
        x = 0.0 if (m["exp"] < 0 or m["coeff"] == 0) else math.inf
    else:
        try:
            x = q.numerator / q.denominator
        except OverflowError:
            x = math.inf
    if m["neg"]:
        x = -x
    return repr(x) == io["ok"]


def impl_split_qname(a):
    try:
        return ok(list(NS.split_qname.__wrapped__(a["s"])))
    except IndexError:
        return err("LEAK:IndexError")


def cmp_split_qname(mo, io, a):
    if a["s"] == "":
        return io == err("LEAK:IndexError")  # the model's function is only used on non-empty text
    return mo == io


def impl_build_qname(a):
    try:
        return ok(NS.build_qname.__wrapped__(a["uri"], a["tag"]))
    except ValueError:
        return err("ValueError")


def impl_is_ncname(a):
    return ok(NS.is_ncname(a["s"]))


def impl_is_uri(a):
    return ok(NS.is_uri(a["s"]))


def impl_text_split(a):
    return ok(list(TX.split(a["s"], a["sep"])))


# ---------------------------------------------------------------------------
# generators
# ---------------------------------------------------------------------------
NUM_HAND = [
    "0", "1", "-1", "+1", "00", "-0", "+0", "007", "1.0", "1.", ".5", "-.5", "+.5", "1.50", "0.0", "-0.0", "1e5", "1E5", "1e+5",
    "1E-5", "1e05", "1.5e-7", "1E22", "1e22", "1e21", "1E+22", "1e16", "1e-5", "0.0001", "0.00001", "123456789012345678", "2e308", "1e400",
    "-1e-400", "4.9e-324", "5e-324", "2.2250738585072014e-308", "1.7976931348623157e308", "9223372036854775807", "9223372036854775808",
    "-9223372036854775809", "32767", "32768", "-32768", "-32769", "2147483647", "2147483648", "-2147483648", "-2147483649",
    "INF", "-INF", "+INF", "inf", "Infinity", "-infinity", "infinit", "NaN", "nan", "-NaN", "+nan", "sNaN", "NaN12", "sNaN007", "nanx",
    "1_0", "_1", "1_", "1__0", "1_.5", "1._5", "1e_5", "1_e5", "1_0.0_1e1_0", " 1 ", "\t1\n", "\r\n1.5 ", "1 2", "", " ", "-", "+", ".", "e1",
    "1e", "1e+", "+-1", "--1", "0x10", "1,5", "٣", "٣.٥", "１２", "²", "1\x1c", "\x1c1", "\x1f1\x1f", "1\x85", "\xa01", "1 ", "1\x0b", "\x0c1",
    "1\x00", "1e1000000", "1E-1000000", "0E+5", "0e-5", "-0E3", "000.000", "1.0E0", "12.50E-1", "true", "false", "True", "FALSE", "TRUE",
    " true", "false\n", "t", "tru", "1.0000000000000000000000000001", "0.1", "0.10000000000000000555", "3.4028235e38", "3.402823466e38",
    "3.402823467e38", "-1.175494351e-38", "-1.1754943e-38", "-1e-39", "-1.17549436e-38", "1" * 60, "-" + "9" * 40 + "." + "9" * 40,
]

QNAME_HAND = [
    "a", "a:b", "xs:int", " xs:int ", "xs:", ":a", "a:b:c", "a b", "{urn:a}b", "{urn:a}", "{}b", "{urn:a}b c", "{urn:a-b}c", "{http://www.w3.org/2001/XMLSchema-instance}type",
    "{http://www.w3.org/2001/XMLSchema}string", "{urn:a}b}c", "{{a}b", "{a#b}c", "{a#}c", "{#f}c", "{a\n}b", "{\n}b", "{a b}c", "{a}1b", "1a", "_a", "a.b-c_d", "a·b", "-a", ".a",
    "कि", "á", "Ⅰ", "a٣", "a²", "é", "u:a", "zz:a", "", " ", "{", "}", "{a", "a}", "xs:in t", "xml:lang", "{urn:a}b:c", " a", "a\x1c", "{urn:[::1]}a", "{a\\b}c", "{a^b}c", "{a_b}c", "{a]b}c",
]
NS_MAPS = [
    None,
    [],
    [["xs", "http://www.w3.org/2001/XMLSchema"]],
    [[None, "urn:default"]],
    [["", "urn:empty"]],
    [[None, "urn:default"], ["u", "urn:u"]],
    [["u", "urn:u"], [None, "urn:u"]],
    [[None, ""], ["u", "urn:u"]],
    [["ns1", "urn:a"]],
    [["ns0", "urn:a"], ["ns2", "urn:b"], ["ns1", "urn:c"]],
    [["xs", "urn:notxs"], ["u", "urn:u"]],
    [["u", ""], ["zz", "urn:zz"]],
    [["a", "urn:a-b"], ["xsi", "http://www.w3.org/2001/XMLSchema-instance"]],
]
QNAME_VALUES = [
    "a", "{urn:u}a", "{urn:default}a", "{urn:empty}x", "{urn:new}a", "{urn:a}b", "{urn:b}b", "{urn:c}b", "{http://www.w3.org/2001/XMLSchema}int",
    "{http://www.w3.org/2001/XMLSchema-instance}type", "{http://www.w3.org/XML/1998/namespace}lang", "{http://www.w3.org/1999/xlink}href",
    "{urn:a-b}c", "{}a", "{urn:a}", "{urn:a", "a:b", "", "{urn:notxs}q", "{urn:zz}q", "x y", "कि", "{urn:u}कि",
    "{urn:a,b}c", "{urn:x#frag}a", "{http://www.w3.org/2000/09/xmldsig#}Signature", "{urn:x#}a", "{#f}a", "{urn:uuid:6e8bc430-9c3a-11d9-9669-0800200c9a66}a",
    "{http://a.b/c;d?e=f&g=h+i$j_k!l~m*n'o(p)%20}q",
]
B64_HAND = [
    "", "QQ==", "QR==", "QQ=", "QQ", "Q", "QQ==QQ==", "=QQ=", "QQ= =", "Q Q = =", "QUJD", "QUJDRA==", "QUJDR===", "QUJD====", "====", "QQ=Q", "Q=Q=",
    "Q\nU\nJ\nD", "QUJD\r\n", " QUJD", "QUJDRA=", "QUJDRUY=", "QUI=", "QUJ=", "QUJ==", "+/+/", "-_-_", "QUJD!", "Q\xa0Q==", "é", "QQ==\n", "=", "==", "A===", "AA==", "AAA=", "AAAA",
    "////", "/w==", "//8=", "Zm9vYmFy", "Zm9vYmE=", "Zm9vYg==", "Zm9v\nYmFy", "Z m 9 v", "QUJD=", "QUJDQ", "QUJDQU", "QUJDQUJ", "QQ\x1c==", "QQ==\x00",
]
HEX_HAND = ["", "0", "00", "0g", "aB", "a B", "é0", "٣٣", "00\xa000", "0FB7", "0fb7", "0F B7", " 0FB7\n", "0x10", "FFF", "GG", "００", "0\x1c0", "+1", "-1", "1_0"]
ENUM_SETS = [
    [{"t": "str", "v": "a"}, {"t": "str", "v": "b c"}, {"t": "str", "v": ""}],
    [{"t": "str", "v": " "}, {"t": "str", "v": " x"}, {"t": "str", "v": "x"}, {"t": "str", "v": "a  b"}],
    [{"t": "int", "v": 1}, {"t": "int", "v": 10}, {"t": "int", "v": -5}],
    [{"t": "float", "v": "1.5"}, {"t": "float", "v": "nan"}, {"t": "float", "v": "inf"}, {"t": "float", "v": "1e+22"}, {"t": "float", "v": "-0.0"}],
    [{"t": "dec", "k": "fin", "neg": False, "coeff": 150, "exp": -2}, {"t": "dec", "k": "fin", "neg": False, "coeff": 1, "exp": 3}, {"t": "dec", "k": "inf", "neg": True}],
    [{"t": "tuple", "v": [{"t": "str", "v": "a"}, {"t": "str", "v": "b"}]}, {"t": "tuple", "v": [{"t": "int", "v": 1}, {"t": "int", "v": 2}, {"t": "int", "v": 3}]}, {"t": "tuple", "v": []}],
    [{"t": "bool", "v": True}, {"t": "bool", "v": False}],
    [{"t": "qname", "v": "{urn:u}a"}, {"t": "qname", "v": "b"}, {"t": "qname", "v": "{urn:a-b}c"}],
    [{"t": "str", "v": "1"}, {"t": "int", "v": 1}, {"t": "float", "v": "2.0"}, {"t": "tuple", "v": [{"t": "float", "v": "1.0"}, {"t": "str", "v": "x"}]}],
    [{"t": "bytes", "k": "plain", "v": [65, 66]}, {"t": "bytes", "k": "hex", "v": [255]}],
    # members of XmlDate/XmlTime type are compared with the Xml* classes' own __eq__ (C06): not modelled
]
# one lexical string that denotes different members under different prefix maps / binary
# formats: the result must depend on the arguments of *this* call only (a seeded change
# memoised the member per (enum, string) and was not seen while every enumeration was asked
# with one prefix map)
ENUM_SETS_CTX = [
    [{"t": "qname", "v": "{urn:u}a"}, {"t": "qname", "v": "{urn:v}a"}, {"t": "qname", "v": "a"}],
    [{"t": "bytes", "k": "plain", "v": [0xAB, 0xCD]}, {"t": "bytes", "k": "plain", "v": [0x00, 0x10, 0x83]}],
]
ENUM_CTX_KWS = [
    KW(format="base16", ns_map=[["u", "urn:u"]]),
    KW(format="base64", ns_map=[["u", "urn:v"]]),
    KW(format="base16", ns_map=[[None, "urn:u"]]),
    KW(format="base64", ns_map=[[None, "urn:v"], ["u", "urn:u"]]),
    KW(format="base16", ns_map=[["u", "urn:v"], ["w", "urn:u"]]),
    KW(format="base64", ns_map=None),
    KW(format="base16", ns_map=[["u", "urn:u"]]),
]
ENUM_CTX_STRINGS = ["u:a", "a", " u:a ", "w:a", "ABCD", "abcd", " ABCD", "{urn:v}a"]
ENUM_SETS += [
    [{"t": "qname", "v": " q"}, {"t": "str", "v": "z "}, {"t": "str", "v": "z"}, {"t": "int", "v": 7}],
    [{"t": "str", "v": "x"}, {"t": "str", "v": " x"}, {"t": "str", "v": "a b"}, {"t": "str", "v": "a  b"}, {"t": "str", "v": "\ta"}],
    [{"t": "dec", "k": "fin", "neg": False, "coeff": 15, "exp": -1}, {"t": "tuple", "v": [{"t": "dec", "k": "fin", "neg": False, "coeff": 1, "exp": 0}, {"t": "str", "v": "k"}]}],
]
ENUM_STRINGS = [
    " q", "q", "z ", " z ", "z", " 7", "\ta", "\ta ", "a  b ", " a  b", "sNaN", "snan", "-sNaN12", "sNaN k", "1 sNaN", "NaN",
    "a", " a ", "b c", "b  c", " b\tc\n", "", " ", "  ", " x", "x", "a  b", "a b", "1", " 1 ", "01", "1.0", "1.50", "1.5", "10", "-5", "1e22", "1E22", "1E+22", "nan", "NaN", "INF", "inf",
    "0", "-0", "0.0", "1000", "1E3", "-Infinity", "-INF", "a b", "b a", "1 2 3", "1 2", "1  2\t3", "01 2.0 3", "true", "false", "1", "0", "{urn:u}a", "u:a", "b", "{urn:a-b}c", "a:c",
    "1.0 x", "1 x", "x 1.0", "2", "2.0", "QUI=", "FF", "ff", "4142", "2000-01-02", "01:02:03Z", "01:02:03", "2000-01-02 ",
]

ATOM_TYPES = ["int", "bool", "float", "Decimal", "str", "QName", "bytes", "XmlDate", "XmlTime", "XmlDateTime"]


def de_case(s, types, kw=None):
    return {"s": s, "types": types, "kw": kw or KW(), "freprs": freprs_for(s)}


def pad(rng, s):
    r = rng.random()
    if r < 0.6:
        return s
    ws = [" ", "\t", "\n", "\r", "  ", "\r\n"]
    if r < 0.9:
        return rng.choice(ws + [""]) + s + rng.choice(ws + [""])
    odd = ["\x0b", "\x0c", "\x1c", "\x1f", "\x85", "\xa0", " ", "　", "​"]
    return rng.choice(odd + [""]) + s + rng.choice(odd + [""])


def mutate(rng, s, alpha):
    if not s:
        return rng.choice(alpha)
    i = rng.randrange(len(s))
    r = rng.random()
    if r < 0.3:
        return s[:i] + s[i + 1:]
    if r < 0.6:
        return s[:i] + rng.choice(alpha) + s[i:]
    if r < 0.9:
        return s[:i] + rng.choice(alpha) + s[i + 1:]
    return s[:i] + s[i] + s[i:]


def rand_int(rng):
    r = rng.random()
    if r < 0.3:
        return rng.randint(-20, 20)
    if r < 0.5:
        b = rng.choice([2**15, 2**31, 2**63, 2**64, 10**9, 10**18, 256, 65536])
        return rng.choice([-1, 1]) * b + rng.randint(-2, 2)
    if r < 0.8:
        return rng.randint(-10**rng.randint(1, 25), 10**rng.randint(1, 25))
    return rng.randint(-10**60, 10**60)


FLOAT_EDGE = [
    0.0, -0.0, 1.0, -1.0, 0.1, 1e22, 1e21, 1e16, 1e15, 9999999999999998.0, 1e-5, 1e-4, 0.0001, 1.5e-7, 5e-324, 2.2250738585072014e-308, 1.7976931348623157e308,
    float("inf"), float("-inf"), float("nan"), 3.4028234663852886e38, 3.402823466e38, 3.4028235e38, 3.4028236e38, -1.175494351e-38, -1.1754943508222875e-38,
    -1.17549436e-38, -1.1754942e-38, 1.175494351e-38, 1e-300, -1e-300, -1e30, 123456789.123456789, 2.0**63, 2.0**-1074, 1e100, 123e-7,
]


def rand_float(rng):
    r = rng.random()
    if r < 0.3:
        return rng.choice(FLOAT_EDGE)
    if r < 0.5:
        return rng.uniform(-1000, 1000)
    if r < 0.7:
        return float(f"{rng.choice(['', '-'])}{rng.random():.17f}e{rng.randint(-330, 310)}")
    if r < 0.85:
        return float(rng.randint(-10**6, 10**6)) / rng.choice([1, 2, 4, 8, 10, 100])
    import struct

    x = struct.unpack("<d", struct.pack("<Q", rng.getrandbits(64)))[0]
    return x


def rand_decimal(rng):
    r = rng.random()
    if r < 0.1:
        return Decimal(rng.choice(["0", "-0", "0E+5", "0E-5", "-0.000", "1E+5", "1E-5", "Infinity", "-Infinity", "NaN", "-NaN", "NaN12", "sNaN"]))
    sign = rng.choice([0, 0, 1])
    nd = rng.choice([1, 1, 2, 3, 5, 12, 30])
    digits = [rng.randint(1, 9)] + [rng.randint(0, 9) for _ in range(nd - 1)]
    if rng.random() < 0.15:
        digits = [0]
    if rng.random() < 0.3:
        digits[-1] = 0
    exp = rng.choice([0, 0, -1, -2, -nd, -nd - 1, -nd + 1, 1, 3, -7, rng.randint(-40, 40)])
    return Decimal((sign, tuple(digits), exp))


def rand_bytes(rng):
    r = rng.random()
    n = rng.choice([0, 1, 2, 3, 4, 5, 6, 7, 8, 9, 20]) if r < 0.9 else rng.randint(0, 80)
    mode = rng.random()
    if mode < 0.2:
        return bytes(rng.choice([0, 255, 251, 63, 62, 128]) for _ in range(n))
    return bytes(rng.getrandbits(8) for _ in range(n))


def rand_atom(rng, t):
    from props import c06

    if t == "int":
        return rand_int(rng)
    if t == "bool":
        return rng.random() < 0.5
    if t == "float":
        return rand_float(rng)
    if t == "Decimal":
        return rand_decimal(rng)
    if t == "str":
        return rng.choice(["", "a", " a ", "a b", "x\ty", "é", "1", "true", "1.0"])
    if t == "QName":
        return QName(rng.choice(QNAME_VALUES))
    if t == "bytes":
        return rng.choice([bytes, XmlHexBinary, XmlBase64Binary])(rand_bytes(rng))
    if t == "XmlDate":
        return XmlDate(*c06.rand_value(rng, "date"))
    if t == "XmlTime":
        return XmlTime(*c06.rand_value(rng, "time"))
    return XmlDateTime(*c06.rand_value(rng, "datetime"))


def ser_plain(v, kw=None):
    """serialise through the real converter, for building inputs"""
    try:
        return converter.serialize(v, **dec_kw(kw or KW()))
    except Exception:  # noqa: BLE001
        return None


def exhaustive(alpha, maxlen):
    for n in range(0, maxlen + 1):
        for tup in itertools.product(alpha, repeat=n):
            yield "".join(tup)


_HUGE_EXP = re.compile(r"[eE][+-]?[0-9٠-٩_]{7,}|[0-9]{40,}[eE]?[0-9]+\Z")


def huge_exp_hazard(c):
    """Strings with a very large exponent are only run against types whose model needs
    no 10**exp (float/int/bool/str and a bare Decimal parse): comparing or printing
    Decimal('1E+99999999') would materialise that many digits on both sides."""
    if not _HUGE_EXP.search(c["s"]):
        return False
    if c.get("strict") is not None and "Decimal" in c["types"]:
        return True
    return any(isinstance(t, dict) for t in c["types"])


DEC_LIMITS = [
    "1E999999999999999999", "1E1000000000000000000", "1E-999999999999999999", "1E-1999999999999999997", "1E-1999999999999999998",
    "10E999999999999999999", "1.0E1000000000000000000", "0E1000000000000000000", "0E99999999999999999999999", "1E9223372036854775807",
    "0.1E1000000000000000000", "123E999999999999999997", "123E999999999999999998", "0.001E-1999999999999999994", "0.001E-1999999999999999995",
    "-0E-1999999999999999997", "-0E-1999999999999999998", "9" * 30 + "E999999999999999970", "9" * 30 + "E999999999999999971",
]


def gen_de(rng, tier):
    for s in DEC_LIMITS:
        yield de_case(s, ["Decimal"])
        yield de_case(s, ["float"])
        yield de_case(s, ["Decimal", "str"])
    for c in gen_de_all(rng, tier):
        if not huge_exp_hazard(c):
            yield c
    yield from gen_de_round_d(rng, tier)


def gen_de_all(rng, tier):
    quick = tier == "quick"
    num_types = ["int", "float", "Decimal", "bool"]
    # hand-picked, every numeric type on every numeric string (also padded)
    for s in NUM_HAND:
        for t in num_types:
            yield de_case(s, [t])
        yield de_case(s, ["int", "float", "str"])
    # bounded-exhaustive small strings
    for s in exhaustive("01.-e_ ", 4 if quick else 5):
        for t in ("int", "float", "Decimal"):
            yield de_case(s, [t])
    for s in exhaustive("+9E.N", 3 if quick else 5):
        for t in ("int", "float", "Decimal"):
            yield de_case(s, [t])
    for s in exhaustive("INFinfaAty", 3):
        yield de_case(s, ["float"])
        yield de_case(s, ["Decimal"])
    for s in exhaustive("true01fals ", 2):
        yield de_case(s, ["bool"])
    for w in ("true", "false", "1", "0"):
        for a in ("", " ", "\t", "\n", "\r", "\x0b", "\x1c", "\xa0", "x"):
            for b in ("", " ", "\n", "\x85", " ", "e"):
                yield de_case(a + w + b, ["bool"])
    # bytes
    for s in B64_HAND:
        yield de_case(s, ["bytes"], KW(format="base64"))
    for s in HEX_HAND:
        yield de_case(s, ["bytes"], KW(format="base16"))
        yield de_case(s, ["bytes"], KW(format="base64"))
        yield de_case(s, ["bytes"], KW(format=None))
        yield de_case(s, ["bytes"], KW(format="base32"))
    for s in exhaustive("AQ/=w", 5 if quick else 7):
        yield de_case(s, ["bytes"], KW(format="base64"))
    for s in exhaustive("Q= *", 4):
        yield de_case(s, ["bytes"], KW(format="base64"))
    for s in exhaustive("0aF g", 4):
        yield de_case(s, ["bytes"], KW(format="base16"))
    for _ in range(300 if quick else 12000):
        b = rand_bytes(rng)
        fmt = rng.choice(["base16", "base64"])
        s = ser_plain(b, KW(format=fmt))
        r = rng.random()
        if r < 0.3:
            # line-wrapped, as MIME encoders produce
            k = rng.choice([1, 4, 5, 76])
            s = rng.choice(["\n", "\r\n", " "]).join(s[i:i + k] for i in range(0, len(s), k))
        elif r < 0.5:
            s = s.lower() if fmt == "base16" else s
        elif r < 0.8:
            s = mutate(rng, s, "AQ=/+0fg \n-_é")
        yield de_case(pad(rng, s), ["bytes"], KW(format=fmt))
    # QName
    for s in QNAME_HAND:
        for m in NS_MAPS:
            yield de_case(s, ["QName"], KW(ns_map=m))
    for s in exhaustive("a:{}u 1", 4):
        yield de_case(s, ["QName"], KW(ns_map=[["u", "urn:u"], [None, "urn:d"]]))
    for _ in range(300 if quick else 12000):
        m = rng.choice(NS_MAPS)
        s = rng.choice(QNAME_HAND)
        for _ in range(rng.choice([0, 1, 1, 2])):
            s = mutate(rng, s, "a:{}u -#./_é́१1\n")
        yield de_case(pad(rng, s), ["QName"], KW(ns_map=m))
    # random valid values, serialised by the real code, optionally padded / mutated
    for _ in range(1500 if quick else 60000):
        t = rng.choice(ATOM_TYPES)
        v = rand_atom(rng, t)
        kw = KW(format=rng.choice(["base16", "base64"])) if t == "bytes" else KW(ns_map=rng.choice(NS_MAPS)) if t == "QName" else KW()
        s = ser_plain(v, kw)
        if s is None:
            continue
        r = rng.random()
        if r < 0.35:
            s = mutate(rng, s, "0123456789+-.eE_ INFa:TZ")
        s = pad(rng, s)
        yield de_case(s, [t], kw)
    # candidate lists: all orders of small subsets on a pool of strings
    pool = ["1", "0", "true", " 1 ", "1.0", "1.5", "1e5", "INF", "NaN", "abc", "", "a:b", "xs:int", "2000-01-02", "01:02:03", "2000-01-02T01:02:03Z",
            "1_0", "٣", "+1", "-0", "1.50", "0.1", "nan", "1E+5", "true ", "a b", "QQ==", "00"]
    subsets = [("int", "str"), ("bool", "int"), ("float", "int"), ("Decimal", "float", "int"), ("str", "bool"), ("QName", "str"),
               ("XmlDate", "XmlDateTime", "XmlTime"), ("unregistered", "int"), ("float", "bool", "str"), ("bytes", "int"), ("QName", "bool")]
    for sub in subsets:
        for perm in itertools.permutations(sub):
            for s in pool:
                yield de_case(s, list(perm), KW(format="base16", ns_map=[["xs", "http://www.w3.org/2001/XMLSchema"]]))
                yield {**de_case(s, list(perm), KW(format="base16", ns_map=[["xs", "http://www.w3.org/2001/XMLSchema"]])), "sort": True}
    for _ in range(400 if quick else 16000):
        k = rng.randint(0, 5)
        types = [rng.choice(ATOM_TYPES + ["unregistered"]) for _ in range(k)]
        if rng.random() < 0.3:
            types.insert(rng.randint(0, len(types)), {"enum": rng.choice(ENUM_SETS)})
        s = rng.choice(pool + NUM_HAND + ENUM_STRINGS)
        c = de_case(pad(rng, s), types, KW(format=rng.choice([None, "base16", "base64"]), ns_map=rng.choice(NS_MAPS)))
        if rng.random() < 0.5:
            c["sort"] = True
        yield c
    # enums
    for members in ENUM_SETS:
        for s in ENUM_STRINGS:
            yield de_case(s, [{"enum": members}], KW(format="base16", ns_map=[["u", "urn:u"], ["a", "urn:a-b"]]))
    for members in ENUM_SETS_CTX:
        for s in ENUM_CTX_STRINGS:
            for kw in ENUM_CTX_KWS:
                yield de_case(s, [{"enum": members}], kw)
    for _ in range(100 if quick else 4000):
        yield de_case(pad(rng, rng.choice(ENUM_CTX_STRINGS)), [{"enum": rng.choice(ENUM_SETS_CTX)}], rng.choice(ENUM_CTX_KWS))
    for _ in range(400 if quick else 16000):
        members = rand_enum(rng)
        if members is None:
            continue
        kw = KW(format="base64", ns_map=rng.choice(NS_MAPS))
        if rng.random() < 0.6:
            m = rng.choice(members)
            vals = m["v"] if m["t"] == "tuple" else [m]
            toks = [ser_plain(dec_atom(x), kw) for x in vals]
            if any(t is None for t in toks):
                continue
            s = rng.choice([" ", "  ", "\t", "\n "]).join(toks) if rng.random() < 0.3 else " ".join(toks)
            if rng.random() < 0.3:
                s = mutate(rng, s, "01. aE+x")
        else:
            s = rng.choice(ENUM_STRINGS)
        yield de_case(pad(rng, s), [{"enum": members}], kw)


def rand_enum(rng):
    kind = rng.choice(["str", "int", "float", "Decimal", "mixed", "tuple"])
    n = rng.randint(1, 4)
    vals = []
    for _ in range(n):
        if kind == "tuple":
            t = rng.choice(["int", "str", "float"])
            v = tuple(rand_atom(rng, t) for _ in range(rng.randint(0, 3)))
        elif kind == "mixed":
            v = rand_atom(rng, rng.choice(["int", "str", "float", "Decimal", "bool"]))
        else:
            v = rand_atom(rng, kind)
        if isinstance(v, Decimal) and v.is_snan():
            continue
        try:
            if any(v == w for w in vals):
                continue
        except Exception:  # noqa: BLE001
            continue
        vals.append(v)
    if not vals:
        return None
    members = [enc_atom(v) for v in vals]
    try:
        make_enum(members)
    except Exception:  # noqa: BLE001
        return None
    return members


def gen_ser(rng, tier):
    yield from gen_ser_round_d(rng, tier)
    quick = tier == "quick"
    for v in FLOAT_EDGE:
        yield {"v": enc_atom(v), "kw": KW()}
    for s in ["0", "-0", "0E+5", "0E-5", "-0.000", "1E+5", "1E-5", "1.50", "123E-2", "123E-3", "123E-5", "123E+2", "Infinity", "-Infinity", "NaN", "-NaN", "NaN12", "sNaN", "-sNaN5",
              "1E+30", "1E-30", "9" * 40, "0.000", "10", "100E-2"]:
        yield {"v": enc_atom(Decimal(s)), "kw": KW()}
    for i in [0, 1, -1, 2**63, -2**63, 10**30, -10**30, 9, 10, 99, 100]:
        yield {"v": enc_atom(i), "kw": KW()}
    for b in (True, False):
        yield {"v": enc_atom(b), "kw": KW()}
    # bytes: every kind x every format, short lengths exhaustively on edge bytes
    for n in range(0, 5):
        for tup in itertools.product([0, 255, 65], repeat=n):
            for kind in ("plain", "hex", "b64"):
                for fmt in (None, "base16", "base64", "base32"):
                    if n < 3 or (kind == "plain" and fmt in ("base16", "base64")):
                        yield {"v": {"t": "bytes", "k": kind, "v": list(tup)}, "kw": KW(format=fmt)}
    # QNames x maps
    for q in QNAME_VALUES:
        for m in NS_MAPS:
            yield {"v": {"t": "qname", "v": q}, "kw": KW(ns_map=m)}
    # lists and members
    yield {"v": {"t": "list", "v": []}, "kw": KW()}
    yield {"v": {"t": "tuple", "v": []}, "kw": KW()}
    yield {"v": {"t": "tuple", "v": [enc_atom(1), enc_atom("a"), enc_atom(2.5), enc_atom(XmlDate(2000, 1, 2))]}, "kw": KW()}
    yield {"v": {"t": "tuple", "v": [{"t": "qname", "v": "{urn:p}a"}, {"t": "qname", "v": "{urn:q}b"}]}, "kw": KW(ns_map=[])}
    yield {"v": {"t": "list", "v": [enc_atom(XmlDate(2000, 1, 2)), enc_atom(XmlTime(1, 2, 3))]}, "kw": KW()}
    yield {"v": {"t": "list", "v": [enc_atom(1), enc_atom(2.5), enc_atom("a b"), enc_atom(True)]}, "kw": KW()}
    yield {"v": {"t": "list", "v": [{"t": "qname", "v": "{urn:p}a"}, {"t": "qname", "v": "{urn:q}b"}, {"t": "qname", "v": "{urn:p}c"}]}, "kw": KW(ns_map=[])}
    yield {"v": {"t": "list", "v": [{"t": "qname", "v": "{urn:p}a"}, {"t": "qname", "v": "{urn:q}b"}]}, "kw": KW(ns_map=[["ns1", "urn:z"]])}
    for members in ENUM_SETS:
        for m in members:
            yield {"v": {"t": "member", "v": m}, "kw": KW(format="base16", ns_map=[["u", "urn:u"]])}
    for _ in range(1500 if quick else 60000):
        t = rng.choice(ATOM_TYPES)
        v = rand_atom(rng, t)
        kw = KW(format=rng.choice([None, "base16", "base64"])) if t == "bytes" else KW(ns_map=rng.choice(NS_MAPS)) if t == "QName" else KW()
        r = rng.random()
        if r < 0.1:
            items = [enc_atom(rand_atom(rng, rng.choice(["int", "float", "QName", "str", "Decimal"]))) for _ in range(rng.randint(0, 4))]
            yield {"v": {"t": rng.choice(["list", "tuple"]), "v": items}, "kw": KW(ns_map=rng.choice(NS_MAPS))}
        elif r < 0.2:
            yield {"v": {"t": "member", "v": enc_atom(v)}, "kw": kw}
        else:
            yield {"v": enc_atom(v), "kw": kw}


def gen_test(rng, tier):
    for c in gen_test_all(rng, tier):
        if not huge_exp_hazard(c):
            yield c
    yield from gen_test_round_d(rng, tier)


def gen_test_all(rng, tier):
    quick = tier == "quick"
    strs_ = NUM_HAND + ["1.0", "1.00", "01", "+1", "1e5", "1E5", "100000.0", "1E+22", "1e22", "1E22", "0.1", ".1", "true", "1", "0", "INF", "inf", "NaN", "nan", "-0", "-0.0", "1.50", "abc", ""]
    for s in strs_:
        for t in ("int", "float", "Decimal", "bool", "str"):
            for strict in (True, False):
                yield {**de_case(s, [t]), "strict": strict}
    for _ in range(600 if quick else 24000):
        t = rng.choice(["int", "float", "Decimal", "bool"])
        v = rand_atom(rng, t)
        s = ser_plain(v)
        r = rng.random()
        if r < 0.3:
            s = mutate(rng, s, "0123456789+-.eE_ ")
        elif r < 0.4 and t == "float":
            s = s.replace("E", "e")
        elif r < 0.5:
            s = s + "0" if "." in s else "0" + s
        types = [t] if rng.random() < 0.7 else [rng.choice(["int", "float", "Decimal", "bool", "str"]) for _ in range(rng.randint(1, 3))]
        yield {**de_case(pad(rng, s), types), "strict": rng.random() < 0.8}


def gen_sort(rng, tier):
    names = list(SORT_NAMES)
    for n in names:
        yield {"names": [n]}
    for a, b in itertools.permutations(names, 2):
        yield {"names": [a, b]}
    yield {"names": []}
    for _ in range(800 if tier == "quick" else 32000):
        k = rng.randint(2, 8)
        yield {"names": [rng.choice(names) for _ in range(k)]}
    for _ in range(100):
        p = list(names)
        rng.shuffle(p)
        yield {"names": p}


def gen_type_converter(rng, tier):
    for k, cls in CLASSES.items():
        yield {"cls": k, "mro": [c.__name__ for c in cls.__mro__]}


def gen_from_value(rng, tier):
    yield from gen_from_value_round_d(rng, tier)
    for b in (2**15, 2**31, 2**63):
        for d in (-2, -1, 0, 1, 2):
            yield {"v": enc_atom(b + d)}
            yield {"v": enc_atom(-b + d)}
    for v in [0, 1, -1, True, False, "a", Decimal("1.5"), QName("a"), b"a", XmlHexBinary(b"a"), XmlBase64Binary(b"a"), XmlDate(2000, 1, 2), XmlTime(1, 2, 3),
              XmlDateTime(2000, 1, 2, 3, 4, 5)]:
        yield {"v": enc_atom(v)}
    for v in FLOAT_EDGE:
        yield {"v": enc_atom(v)}
    for _ in range(600 if tier == "quick" else 24000):
        yield {"v": enc_atom(rand_atom(rng, rng.choice(["int", "float", "float", "bool", "Decimal", "bytes"])))}


def gen_float_lit(rng, tier):
    for s in NUM_HAND:
        yield {"s": s}
    for s in exhaustive("1.e-_ 0", 5 if tier == "quick" else 7):
        yield {"s": s}
    for _ in range(800 if tier == "quick" else 32000):
        s = repr(rand_float(rng))
        for _ in range(rng.choice([0, 1, 1, 2])):
            s = mutate(rng, s, "0123456789+-.eE_ infa٣")
        yield {"s": pad(rng, s)}
    # literals generated from the grammar float() accepts (so that accepted inputs are not a small minority)
    for _ in range(12000 if tier == "quick" else 480000):
        dig = lambda n: "_".join("".join(rng.choice("0123456789٣") for _ in range(rng.randint(1, 4))) for _ in range(n))  # noqa: E731
        ip = dig(rng.randint(1, 3)) if rng.random() < 0.85 else ""
        fp = dig(rng.randint(1, 2)) if rng.random() < 0.6 or not ip else ""
        s = rng.choice(["", "", "+", "-"]) + ip + ("." + fp if fp or rng.random() < 0.2 else "")
        if rng.random() < 0.5:
            s += rng.choice("eE") + rng.choice(["", "+", "-"]) + dig(1)
        if rng.random() < 0.05:
            s = rng.choice(["inf", "-Infinity", "NAN", "+nan", "iNf"])
        yield {"s": pad(rng, s) if rng.random() < 0.3 else s}


def gen_split_qname(rng, tier):
    for s in QNAME_VALUES + QNAME_HAND:
        yield {"s": s}
    for s in exhaustive("{}a:", 5):
        yield {"s": s}


def gen_build_qname(rng, tier):
    xs = [None, "", "a", "urn:x", "{", "}"]
    for u in xs:
        for t in xs:
            yield {"uri": u, "tag": t}


def gen_is_ncname(rng, tier):
    yield {"s": None}
    for s in QNAME_HAND + ["a", "_", "-", ".", "·", "·a", "a·", "a·", "a:", "é", "é", "१", "a१", "ⅰ", "a b", "a\n", "xml", "A1-._b"]:
        yield {"s": s}
    alpha = "a_1-.: é́·٣²"
    for s in exhaustive(alpha, 3):
        yield {"s": s}
    for _ in range(500 if tier == "quick" else 20000):
        yield {"s": "".join(chr(rng.choice([rng.randint(0, 0x250), rng.randint(0x300, 0x3ff), rng.randint(0x900, 0x97f), rng.randint(0x2000, 0x2200), rng.randint(0, 0x2FFFF)])) for _ in range(rng.randint(1, 3)))}


def gen_is_uri(rng, tier):
    yield {"s": None}
    for s in ["", "\n", "a\n", "a\n\n", "\na", "urn:a", "urn:a-b", "http://www.w3.org/2001/XMLSchema-instance", "http://www.w3.org/2001/XMLSchema", "a#b", "a#", "#b", "#", "a#b#c", "a b",
              "http://[::1]/", "a\\b", "a^b", "a]b", "a_b", "a[b", "a|b", "a`b", "a{b", "a,b", "a\"b", "a<b", "é", "mailto:x@y.z", "../a", "//a", "///a", "a:b:c", "+:a", "1:a", "a%20b", "a~b", "a'b", "(a)", "a*b!", "a;b?c=d&e",
              "urn:uuid:6e8bc430-9c3a-11d9-9669-0800200c9a66"]:
        yield {"s": s}
    for s in exhaustive("a#-\n/:", 4):
        yield {"s": s}
    for cp in range(0, 0x180):
        yield {"s": chr(cp)}
        yield {"s": "a" + chr(cp) + "b"}
        yield {"s": "a#" + chr(cp)}
        yield {"s": "a" + chr(cp) + ":b"}  # would-be scheme character
    for s in exhaustive("a-,#:\\", 4):
        yield {"s": s}
    for s in ["http://www.w3.org/2000/09/xmldsig#", "http://www.w3.org/1999/02/22-rdf-syntax-ns#", "a-b:c", "a+b-c.d:e", "-a:b", "a,b#c,d", "a#b,c-d", "a\\b", "a^b#c", "a#b^c", "a#b]c", "a#b\\c"]:
        yield {"s": s}
    for _ in range(300 if tier == "quick" else 12000):
        n = rng.randint(1, 6)
        yield {"s": "".join(rng.choice(["a", "Z", "0", "-", ",", ".", "/", ":", "#", "%", "~", "\\", "^", "]", "_", " ", "\n", chr(rng.randint(0x80, 0x2FFF)), chr(rng.randint(0, 0x10FFFF))]) for _ in range(n)).encode("utf-8", "surrogatepass").decode("utf-8", "replace")}


def gen_text_split(rng, tier):
    for sep in ":}":
        for s in exhaustive("a" + sep + " ", 5):
            yield {"s": s, "sep": sep}


# ---------------------------------------------------------------------------
# classification (distribution buckets in evidence/C05.json)
# ---------------------------------------------------------------------------

# ---------------------------------------------------------------------------
# round d: date/time/datetime with formats, XmlDuration/XmlPeriod, wrapper classes,
# exact float repr
# ---------------------------------------------------------------------------
DT_FORMATS = [
    "%Y-%m-%d", "%H:%M:%S", "%Y-%m-%dT%H:%M:%S", "%Y-%m-%dT%H:%M:%S.%f", "%d/%m/%Y", "%Y%m%d", "%H%M%S%f", "%d.%m.%Y %H:%M",
    "%m%d", "%Y", "%H:%M:%S.%f", "%S", "%Y-%m-%d %H:%M:%S", "%%%Y", "%d %m  %Y", "T%H", "%Y-%m-%dZ", "%Y-%m-%d\t%H", "(%Y)[%m]", "%m-%d", "%M", "%f",
    "%H.%M", "%Y+%m", "%d%m%Y", "%Y %m %d", " %Y", "%Y ", "x%dx",
]
DT_BAD_FORMATS = ["%Q", "%", "%Y%Y", "%Y-%", "% Y", "%.", "", "%Y-%m-%d%", "%k", "%-d", "%é", "%d%d"]
DT_HAND = [
    "2000-01-02", "2000-1-2", " 2000-01-02", "2000-01-02 ", "2000-02-30", "2000-02-29", "1900-02-29", "0000-01-01", "0001-01-01", "9999-12-31", "999-01-02",
    "01:02:03", "1:2:3", "24:00:00", "23:59:60", "23:59:61", "00:00:00", "2000-01-02T03:04:05", "2000-01-02t03:04:05", "2000-01-02T03:04:05.5", "2000-01-02T03:04:05.123456",
    "2000-01-02T03:04:05.1234567", "٢٠٠٠-01-02", "2000-٠١-02", "2000-01-0٢", "20000102", "2000012", "200001023", "0229", "229", "1231", "131", "31/12/1999", " 5/12/1999",
    "5/12/1999", "05/ 5/1999", "31.12.1999 23:59", "31.12.1999  23:59", "31.12.1999\t23:59", "%2000", "2000", "20000", "200", "12", "1", "60", "61", "59", "0", "", " ",
    "(2000)[12]", "T5", "t23", "T24", "2000-01-02Z", "2000-01-02z", "x5x", "X31X", "x32x", "2000+1", "2000 1 2", "2000  1  2", "02-29", "2-29", "123456", "1234567",
    "010203000004", "0102030", "2000-01-02 03:04:05", "2000-01-0203:04:05",
]


def rand_py_dt(rng, t):
    y = rng.choice([1, 9, 10, 99, 100, 999, 1000, 1900, 1904, 2000, 2024, 9999, rng.randint(1, 9999)])
    m = rng.randint(1, 12)
    d = rng.randint(1, 28) if rng.random() < 0.8 else _dt.date(y, m, 1).replace(day=28).day
    us = rng.choice([0, 0, 1, 10, 4500, 100000, 123456, 999999, rng.randint(0, 999999)])
    if t == "date":
        return _dt.date(y, m, d)
    if t == "time":
        return _dt.time(rng.randint(0, 23), rng.randint(0, 59), rng.randint(0, 59), us)
    return _dt.datetime(y, m, d, rng.randint(0, 23), rng.randint(0, 59), rng.randint(0, 59), us)


def rand_dt_format(rng):
    r = rng.random()
    if r < 0.55:
        return rng.choice(DT_FORMATS)
    if r < 0.65:
        return rng.choice(DT_BAD_FORMATS)
    dirs = ["%Y", "%m", "%d", "%H", "%M", "%S", "%f", "%%"]
    rng.shuffle(dirs)
    lits = ["-", ":", "T", " ", "/", ".", "  ", "", "", "", "x", "1", "(", "+", "[", "Z"]
    out = rng.choice(lits)
    for d in dirs[: rng.randint(0, 6)]:
        out += d + rng.choice(lits)
    return out


def gen_de_round_d(rng, tier):
    from props import c06

    quick = tier == "quick"
    # every hand string x every hand format x the three stdlib types
    for f in DT_FORMATS + DT_BAD_FORMATS + [None]:
        for s in DT_HAND if (not quick or f in DT_FORMATS[:8] + DT_BAD_FORMATS[:4] + [None]) else DT_HAND[::5]:
            for t in PY_DT_TYPES:
                yield de_case(s, [t], KW(format=f))
    for _ in range(4000 if quick else 160000):
        t = rng.choice(PY_DT_TYPES)
        f = rand_dt_format(rng)
        v = rand_py_dt(rng, "datetime")
        try:
            s = v.strftime(f)
        except Exception:  # noqa: BLE001
            s = rng.choice(DT_HAND)
        r = rng.random()
        if r < 0.2:
            for _ in range(rng.randint(1, 2)):
                s = mutate(rng, s, "0123456789 -:T٣t.x/")
        elif r < 0.3:
            s = s.replace("0", "", 1)
        elif r < 0.35:
            s = pad(rng, s)
        types = [t] if rng.random() < 0.8 else [rng.choice(PY_DT_TYPES + ("int", "str", "XmlDate")) for _ in range(rng.randint(2, 3))]
        c = de_case(s, types, KW(format=f))
        if len(types) > 1 and rng.random() < 0.5:
            c["sort"] = True
        yield c
    # XmlDuration / XmlPeriod / wrapper classes as field types
    for s in c06.DUR_HAND:
        yield de_case(s.replace("\\n", "\n"), ["XmlDuration"])
        yield de_case(s.replace("\\n", "\n"), ["XmlPeriod", "XmlDuration", "str"])
    for s in c06.PERIOD_HAND:
        yield de_case(s, ["XmlPeriod"])
        yield {**de_case(s, ["str", "XmlPeriod", "int", "XmlDate"]), "sort": True}
    gens = [c06.gen_dur(rng, "quick"), c06.gen_period(rng, "quick")]
    for i, g in enumerate(gens):
        for k, c in enumerate(g):
            if quick and k > 500:
                break
            yield de_case(pad(rng, c["s"]), ["XmlDuration" if i == 0 else "XmlPeriod"])
    for s in B64_HAND + HEX_HAND:
        for t in ("XmlHexBinary", "XmlBase64Binary"):
            for f in (None, "base16", "base64", "base32"):
                yield de_case(s, [t], KW(format=f))


def fmt_ser_supported(f):
    """strftime formats inside the model: every % introduces a numeric directive or %%
    (what glibc does with an unknown conversion is not modelled)"""
    return f is None or re.fullmatch(r"(?:[^%]|%[YmdHMSf%])*", f) is not None


def gen_ser_round_d(rng, tier):
    for c in gen_ser_round_d_all(rng, tier):
        if fmt_ser_supported(c["kw"].get("format")) or c["v"]["t"] not in ("pydate", "pytime", "pydatetime"):
            yield c


def gen_ser_round_d_all(rng, tier):
    quick = tier == "quick"
    for f in DT_FORMATS + DT_BAD_FORMATS + [None]:
        for v in [_dt.date(999, 1, 2), _dt.date(1, 1, 1), _dt.date(2020, 2, 29), _dt.time(1, 2, 3, 4500), _dt.time(0, 0, 0), _dt.datetime(2000, 1, 2, 3, 4, 5, 6),
                  _dt.datetime(9999, 12, 31, 23, 59, 59, 999999), _dt.datetime(1000, 10, 10, 10, 10, 10, 100000)]:
            yield {"v": enc_atom(v), "kw": KW(format=f)}
    for _ in range(600 if quick else 24000):
        t = rng.choice(PY_DT_TYPES)
        yield {"v": enc_atom(rand_py_dt(rng, t)), "kw": KW(format=rand_dt_format(rng))}
    for s in ["P1D", "P2Y6M5DT12H35M30.5S", "-P1Y", "PT0.5S"]:  # "P١D" is not a value any more since /repo f68a32b (ascii digits only)
        yield {"v": {"t": "duration", "v": s}, "kw": KW()}
    for s in ["2001", "2001-10", "--10", "--10-31", "---31", "2001Z", "--10+02:00", "-2001", "12345-10"]:
        yield {"v": {"t": "period", "v": s}, "kw": KW()}
        yield {"v": {"t": "list", "v": [{"t": "period", "v": s}, {"t": "duration", "v": "P1D"}]}, "kw": KW()}


def gen_test_round_d(rng, tier):
    for s in ["2001", " 2001 ", "2001-10", "--10", "---31\n", "2001-13", "P1D", " P1D", "x"]:
        for t in ("XmlPeriod", "XmlDuration"):
            for strict in (True, False):
                yield {**de_case(s, [t]), "strict": strict}
    for f in DT_FORMATS[:6]:
        for s in DT_HAND[:30]:
            for strict in (True, False):
                yield {**de_case(s, [rng.choice(PY_DT_TYPES)], KW(format=f)), "strict": strict}


def gen_from_value_round_d(rng, tier):
    for s in ["2001", "2001-10", "--10", "--10-31", "---31", "2001Z", "--10+02:00", "-2001", "12345-10", "--05--", "0000"]:
        try:
            XmlPeriod(s)
        except ValueError:
            continue
        yield {"v": {"t": "period", "v": s}}
    yield {"v": {"t": "duration", "v": "P1D"}}
    for t in PY_DT_TYPES:
        yield {"v": enc_atom(rand_py_dt(rng, t))}


def impl_float_repr(a):
    try:
        return ok(repr(float(a["s"])))
    except ValueError:
        return err("ValueError")


def gen_float_repr(rng, tier):
    import struct

    quick = tier == "quick"
    for s in NUM_HAND:
        yield {"s": s}
    # all floats with <= 3 significant digits x exponents -330..310 (thorough); a lattice of them (quick)
    step_m, step_e = (37, 11) if quick else (1, 1)
    off_m, off_e = rng.randrange(step_m), rng.randrange(step_e)
    for m in range(1 + off_m, 1000, step_m):
        for e in range(-330 + off_e, 311, step_e):
            yield {"s": f"{m}e{e}"}
    for m in (1, 2, 5, 9, 10, 99, 100, 999):
        for e in range(-330, 311):
            yield {"s": f"{m}e{e}"}
    if not quick:
        # four significant digits on a lattice of exponents
        off = rng.randrange(3)
        for m in range(1000, 10000):
            for e in range(-331 + off, 308, 3):
                yield {"s": f"{m}e{e}"}
    # powers of two and their neighbours, halfway cases between adjacent doubles, subnormals, the overflow threshold
    for k in list(range(-1075, -1060)) + list(range(-1030, -1015)) + list(range(-5, 70)) + list(range(1015, 1025)):
        x = Fraction(2) ** k
        for num in (x, x * (1 + Fraction(1, 2**53)), x * (1 - Fraction(1, 2**54)), x * (1 + Fraction(3, 2**53)), x * (1 + Fraction(1, 2**52))):
            d = Decimal(num.numerator) / Decimal(num.denominator) if False else None
            n, dd = num.numerator, num.denominator
            # exact decimal expansion of a dyadic rational
            sh = max(dd.bit_length() - 1, 0)
            yield {"s": f"{n * 5**sh}e-{sh}"}
    for s in ["1.7976931348623157e308", "1.7976931348623158e308", "1.797693134862315807e308", "1.797693134862315808e308", "1.7976931348623159e308",
              "4.9406564584124654e-324", "2.4703282292062327e-324", "2.4703282292062328e-324", "2.47032822920623272e-324", "9007199254740993", "9007199254740992.5",
              "9007199254740993.000000000000000000001", "0.1", "0.2", "0.3", "1e23", "8.41e21", "2.2250738585072011e-308", "2.2250738585072014e-308", "5e-324", "3e-324", "2e-324"]:
        yield {"s": s}
        yield {"s": "-" + s}
    for _ in range(3000 if quick else 600000):
        r = rng.random()
        if r < 0.5:
            x = struct.unpack("<d", struct.pack("<Q", rng.getrandbits(64)))[0]
            s = repr(x)
            if r < 0.1:
                s = mutate(rng, s, "0123456789e-.")
        elif r < 0.8:
            nd = rng.randint(1, 25)
            s = f"{rng.randint(1, 10**nd)}e{rng.randint(-340, 310)}"
        else:
            s = f"{rng.randint(0, 10**6)}.{rng.randint(0, 10**rng.randint(1, 20))}"
        yield {"s": s}


def classify_float_repr(a, o):
    if "err" in o:
        return "err"
    r = o["ok"]
    if r in ("inf", "-inf", "nan"):
        return "special"
    if r.strip("-") == "0.0":
        return "zero"
    return ("exp" if "e" in r else "fixed") + ":" + str(min(len(r.replace("-", "").replace(".", "").split("e")[0].strip("0")), 17) // 6 * 6) + "+digits"


def impl_strptime(a):
    try:
        d = _dt.datetime.strptime(a["s"], a["fmt"])
    except Exception:  # noqa: BLE001  (ValueError, re.error: DateTimeBase.parse turns every exception into ConverterError)
        return err("ValueError")
    if d.tzinfo is not None:
        return err("HARNESS:aware")
    return ok([d.year, d.month, d.day, d.hour, d.minute, d.second, d.microsecond])


def impl_strftime(a):
    try:
        return ok(_dt.datetime(*a["v"]).strftime(a["fmt"]))
    except Exception:  # noqa: BLE001
        return err("ValueError")


def gen_strptime(rng, tier):
    for c in gen_de_round_d(rng, tier):
        if c["kw"]["format"] is not None and any(t in PY_DT_TYPES for t in c["types"] if isinstance(t, str)):
            yield {"s": c["s"], "fmt": c["kw"]["format"]}


def gen_strftime(rng, tier):
    for c in gen_ser_round_d(rng, tier):
        v = c["v"]
        if c["kw"]["format"] is None or v["t"] not in ("pydate", "pytime", "pydatetime"):
            continue
        x = v["v"]
        full = x + [0, 0, 0, 0] if v["t"] == "pydate" else [1900, 1, 1] + x if v["t"] == "pytime" else x
        yield {"v": full, "fmt": c["kw"]["format"]}


def classify_strptime(a, o):
    n = a["fmt"].count("%")
    return f"dirs{min(n, 4)}->" + ("err" if "err" in o else "ok")


def _tyname(t):
    return t if isinstance(t, str) else "enum"


def classify_de(a, o):
    kind = "err" if "err" in o else o["ok"]["t"]
    ts = a["types"]
    head = _tyname(ts[0]) if len(ts) == 1 else f"list{min(len(ts), 3)}"
    if head == "bytes":
        head += ":" + str(a["kw"]["format"])
    return f"{head}->{kind}"


def classify_ser(a, o):
    v = a["v"]
    k = v["t"] + (":" + v["k"] if v["t"] in ("bytes", "dec") else "")
    if v["t"] == "qname":
        k += ":map" if a["kw"]["ns_map"] is not None else ":nomap"
    if v["t"] == "float":
        r = v["v"]
        k += ":special" if r in ("nan", "inf", "-inf") else ":exp" if "e" in r else ":plain"
    return k + ("->" + o["err"] if "err" in o else "")


def classify_test(a, o):
    return f"{_tyname(a['types'][0]) if len(a['types']) == 1 else 'list'}:{'strict' if a['strict'] else 'lax'}->{o.get('ok')}"


def classify_sort(a, o):
    names = a["names"]
    keys = [DOC_PRIORITY.index(n) + 1 if n in DOC_PRIORITY else 0 for n in names]
    return f"n{min(len(names), 5)}:{'ties' if len(set(keys)) < len(keys) else 'distinct'}:{'sorted' if keys == sorted(keys) else 'unsorted'}" + (":object" if "object" in names else "")


def classify_bool(a, o):
    s = a.get("s")
    kind = "none" if s is None else "empty" if s == "" else "ascii" if s.isascii() else "unicode"
    return f"{kind}->{o.get('ok', o.get('err'))}"


def classify_split_qname(a, o):
    if "err" in o:
        return "err"
    return ("brace" if a["s"].startswith("{") else "plain") + "->" + ("ns" if o["ok"][0] is not None else "no-ns")


def classify_text_split(a, o):
    return ("sep" if a["sep"] in a["s"] else "nosep") + "->" + ("pair" if o["ok"][0] is not None else "single")


def classify_strftime(a, o):
    ds = dt_directives(a["fmt"])
    return f"dirs{min(len(ds), 4)}" + (":Y<1000" if "Y" in ds and a["v"][0] < 1000 else "") + (":f" if "f" in ds else "")


def classify_float_lit(a, o):
    if "err" in o:
        return "err"
    r = o["ok"]
    s = a["s"]
    feat = ("us" if "_" in s else "") + ("exp" if "e" in s.lower() and r not in ("inf", "-inf", "nan") else "") + ("uni" if not s.isascii() else "") + ("ws" if s != s.strip() else "")
    return ("special" if r in ("inf", "-inf", "nan") else "finite") + (":" + feat if feat else "")


CORRS = [
    Corr("conv.de", gen_de, impl_de, nontrivial=lambda a, o: len(a["s"]) > 0 and len(a["types"]) > 0, classify=classify_de,
         describe="ConverterFactory.deserialize(str, types, format=, ns_map=) vs model"),
    Corr("conv.ser", gen_ser, impl_ser, classify=classify_ser, describe="ConverterFactory.serialize(value, format=, ns_map=) incl. the mutated ns_map"),
    Corr("conv.test", gen_test, impl_test, classify=classify_test, describe="ConverterFactory.test(str, types, strict)"),
    Corr("conv.sort", gen_sort, impl_sort, nontrivial=lambda a, o: len(a["names"]) > 1, classify=classify_sort, describe="ConverterFactory.sort_types"),
    Corr("conv.type_converter", gen_type_converter, impl_type_converter, compare=cmp_type_converter, describe="registry + MRO lookup on real classes"),
    Corr("conv.from_value", gen_from_value, impl_from_value, classify=lambda a, o: a["v"]["t"] + "->" + str(o.get("ok")), describe="DataType.from_value(value).code"),
    Corr("conv.float_lit", gen_float_lit, impl_float_lit, compare=cmp_float_lit, classify=classify_float_lit, nontrivial=lambda a, o: len(a["s"]) > 1,
         describe="float(str) grammar: exact decimal read by the model, correctly rounded, vs repr(float(s))"),
    Corr("conv.float_repr", gen_float_repr, impl_float_repr, classify=classify_float_repr, nontrivial=lambda a, o: "ok" in o,
         describe="repr(float(s)) computed exactly in Lean (round-half-even to binary64, shortest repr) vs CPython"),
    Corr("conv.strptime", gen_strptime, impl_strptime, classify=classify_strptime, describe="datetime.strptime for numeric directives vs the regex-order matcher"),
    Corr("conv.strftime", gen_strftime, impl_strftime, classify=classify_strftime, describe="strftime (glibc: %Y unpadded) for numeric directives"),
    Corr("ns.split_qname", gen_split_qname, impl_split_qname, compare=cmp_split_qname, classify=classify_split_qname),
    Corr("ns.build_qname", gen_build_qname, impl_build_qname),
    Corr("ns.is_ncname", gen_is_ncname, impl_is_ncname, classify=classify_bool),
    Corr("ns.is_uri", gen_is_uri, impl_is_uri, classify=classify_bool),
    Corr("text.split", gen_text_split, impl_text_split, classify=classify_text_split),
]

# ---------------------------------------------------------------------------
# oracles: the property, evaluated on the implementation only.
# XSD 1.1 Part 2 lexical spaces and lexical mappings written independently.
# ---------------------------------------------------------------------------
_NUM = r"(?:[0-9]+(?:\.[0-9]*)?|\.[0-9]+)"
RX = {
    "bool": re.compile(r"(?:true|false|1|0)\Z"),
    "int": re.compile(r"[+-]?[0-9]+\Z"),
    "Decimal": re.compile(r"[+-]?" + _NUM + r"\Z"),
    "float": re.compile(r"(?:[+-]?" + _NUM + r"(?:[Ee][+-]?[0-9]+)?|[+-]?INF|NaN)\Z"),
    "hex": re.compile(r"(?:[0-9a-fA-F]{2})*\Z"),
    "b64": re.compile(
        r"(?:(?:[A-Za-z0-9+/] ?){4})*(?:(?:[A-Za-z0-9+/] ?){3}[A-Za-z0-9+/]|(?:[A-Za-z0-9+/] ?){2}[AEIMQUYcgkosw048] ?=|[A-Za-z0-9+/] ?[AQgw] ?= ?=)?\Z"
    ),
    # days/time parts of xs:duration
    "XmlDuration": re.compile(r"-?P(?=.)(?:[0-9]+Y)?(?:[0-9]+M)?(?:[0-9]+D)?(?:T(?=.)(?:[0-9]+H)?(?:[0-9]+M)?(?:[0-9]+(?:\.[0-9]+)?S)?)?\Z"),
    "XmlPeriod": re.compile(r"(?:-?[0-9]{4,}(?:-[0-9]{2})?|--[0-9]{2}(?:-[0-9]{2})?|---[0-9]{2})(?:Z|[+-][0-9]{2}:[0-9]{2})?\Z"),
}
# XML 1.0 (5th ed.) NameStartChar / NameChar without ':'
_NSC = "A-Z_a-zÀ-ÖØ-öø-˿Ͱ-ͽͿ-῿‌-‍⁰-↏Ⰰ-⿯、-퟿豈-﷏ﷰ-�\U00010000-\U000effff"
NCNAME = re.compile(f"[{_NSC}][{_NSC}\\-.0-9·̀-ͯ‿-⁀]*\\Z")
B64_ALPHA = "ABCDEFGHIJKLMNOPQRSTUVWXYZabcdefghijklmnopqrstuvwxyz0123456789+/"


def collapse(s):
    """XSD whiteSpace=collapse"""
    return " ".join(x for x in re.split("[ \t\n\r]+", s) if x)


def xsd_value(t, s, kw):
    """(True, value) when s is in the XSD lexical space of the datatype that
    python type t stands for (after whiteSpace collapse); (False, None) otherwise."""
    c = collapse(s)
    if t == "bool":
        return (True, c in ("true", "1")) if RX["bool"].match(c) else (False, None)
    if t == "int":
        if not RX["int"].match(c) or len(c) > 4000:
            return False, None
        sign = -1 if c[0] == "-" else 1
        n = 0
        for ch in c.lstrip("+-"):
            n = n * 10 + (ord(ch) - 48)
        return True, sign * n
    if t == "Decimal":
        if not RX["Decimal"].match(c):
            return False, None
        body = c.lstrip("+-")
        ip, _, fp = body.partition(".")
        q = Fraction(int(ip or "0") * 10 ** len(fp) + int(fp or "0"), 10 ** len(fp))
        return True, -q if c[0] == "-" else q
    if t == "float":
        if not RX["float"].match(c):
            return False, None
        if c == "NaN":
            return True, "nan"
        if c.lstrip("+-") == "INF":
            return True, -math.inf if c[0] == "-" else math.inf
        m, _, ex = c.lower().partition("e")
        ex = int(ex or "0")
        if abs(ex) > 2000:
            return False, None  # not judged
        body = m.lstrip("+-")
        ip, _, fp = body.partition(".")
        q = Fraction(int(ip or "0") * 10 ** len(fp) + int(fp or "0"), 10 ** len(fp)) * Fraction(10) ** ex
        try:
            x = q.numerator / q.denominator  # correctly rounded, no float(str) involved
        except OverflowError:
            x = math.inf
        neg = c[0] == "-"
        return True, (-x if neg else x)
    if t == "bytes":
        fmt = kw.get("format")
        if fmt == "base16":
            if not RX["hex"].match(c):
                return False, None
            return True, bytes(int(c[i:i + 2], 16) for i in range(0, len(c), 2))
        if fmt == "base64":
            if not RX["b64"].match(c):
                return False, None
            bits = "".join(format(B64_ALPHA.index(ch), "06b") for ch in c if ch not in " =")
            n = len(bits) // 8
            return True, bytes(int(bits[8 * i:8 * i + 8], 2) for i in range(n))
        return False, None
    if t == "QName":
        pre, sep, local = c.partition(":")
        if not sep:
            pre, local = None, c
        if not NCNAME.match(local) or (pre is not None and not NCNAME.match(pre)):
            return False, None
        m = dict(map(tuple, kw.get("ns_map") or []))
        if pre is None:
            ns = m.get(None) or None
        else:
            ns = m.get(pre)
            if not ns:
                return False, None  # unbound prefix: not a valid QName in this context
        return True, (f"{{{ns}}}{local}" if ns else local)
    return False, None


def same_value(t, got, exp):
    if t == "float":
        if exp == "nan":
            return isinstance(got, float) and math.isnan(got)
        return isinstance(got, float) and got == exp and math.copysign(1, got) == math.copysign(1, exp)
    if t == "Decimal":
        return isinstance(got, Decimal) and got.is_finite() and Fraction(got) == exp
    if t == "QName":
        return isinstance(got, QName) and got.text == exp
    if t == "bool":
        return got is exp
    if t == "int":
        return type(got) is int and got == exp
    return got == exp


DOC_PRIORITY = ["int", "bool", "float", "Decimal", "datetime", "date", "time", "XmlTime", "XmlDate", "XmlDateTime", "XmlDuration", "XmlPeriod", "QName", "str"]


def oracle_accepts(a):
    """every XSD-valid lexical form is accepted and yields the XSD value; for a
    candidate list the documented priority order decides"""
    s, kw = a["s"], a["kw"]
    kwargs = dec_kw(kw)
    # documented contract of deserialize: a value, or ConverterError — nothing else escapes
    try:
        all_types = [dec_type(t) for t in a["types"] if not isinstance(t, str) or t in TYPES]
    except Exception:  # noqa: BLE001  (aliased enum members: not a case)
        all_types = None
    if all_types:
        try:
            converter.deserialize(s, all_types, **kwargs)
        except ConverterError:
            pass
        except Exception as e:  # noqa: BLE001
            return f"deserialize({s!r}, {[getattr(t, '__name__', t) for t in all_types]}) raised {type(e).__name__} instead of ConverterError"
    for t in a["types"]:
        if not isinstance(t, str):
            continue
        if t in ("XmlDuration", "XmlPeriod"):
            # the XSD lexical spaces of duration / g* as transcribed for C06 (own regexes, no call into xsdata)
            from props import c06 as _c06

            ref = _c06.xsd_duration(s) if t == "XmlDuration" else _c06.xsd_period(s)
            if ref is not None:
                cls = XmlDuration if t == "XmlDuration" else XmlPeriod
                try:
                    got = converter.deserialize(s, [cls])
                except ConverterError:
                    return f"XSD-valid {t} lexical form {s!r} is rejected"
                except Exception as e:  # noqa: BLE001
                    return f"deserialize({s!r}, [{t}]) raised {type(e).__name__}"
                comp = got.asdict() if t == "XmlDuration" else got.as_dict()
                if not isinstance(got, cls) or comp != ref:
                    return f"XSD-valid {t} lexical form {s!r} is read as {comp}, XSD assigns {ref}"
            continue
        if t not in TYPES or t == "unregistered":
            continue
        valid, exp = xsd_value(t, s, kw)
        if not valid:
            continue
        try:
            got = converter.deserialize(s, [TYPES[t]], **kwargs)
        except ConverterError:
            return f"XSD-valid {t} lexical form {s!r} (kw={kw}) is rejected"
        except Exception as e:  # noqa: BLE001
            return f"deserialize({s!r}, [{t}]) raised {type(e).__name__}"
        if not same_value(t, got, exp):
            return f"XSD-valid {t} lexical form {s!r} is read as {got!r}, XSD assigns {exp!r}"
    # enumerations: a lexical form denotes the member whose value it equals in the
    # value space of the members' datatype (white space collapsed first)
    for t in a["types"]:
        if isinstance(t, str):
            continue
        msg = _enum_accepts(t["enum"], s, kw, kwargs)
        if msg:
            return msg
    # priority: with the candidates sorted, the result comes from the first type (in documented order) that accepts on its own
    names = [t for t in a["types"] if isinstance(t, str) and t in DOC_PRIORITY]
    if len(names) >= 2 and len(names) == len(a["types"]):
        types = [TYPES[n] for n in names]
        sorted_types = ConverterFactory.sort_types(types)
        try:
            got = converter.deserialize(s, sorted_types, **kwargs)
        except ConverterError:
            got = ConverterError
        exp = ConverterError
        for n in sorted(set(names), key=DOC_PRIORITY.index):
            try:
                exp = converter.deserialize(s, [TYPES[n]], **kwargs)
                break
            except ConverterError:
                continue
        if not _eq(got, exp):
            return f"candidates {names}: deserialize({s!r}) gives {got!r}, the documented priority order gives {exp!r}"
    return None


def _enum_accepts(members, s, kw, kwargs):
    kinds = {m["t"] for m in members}
    if len(kinds) != 1:
        return None
    kind = kinds.pop()
    c = collapse(s)
    exp = None
    if kind == "str":
        vals = [m["v"] for m in members]
        if s in vals:
            # the lexical form is a member's value verbatim (xs:string enumerations keep white space); when another
            # member is a white-space variant of it the lenient match finds that one first: listed finding
            # C05-enum-ws-variant, recognised in covered_accepts
            exp = vals.index(s)
        elif any(v != collapse(v) for v in vals):
            return None
        elif c in vals and s.strip() == s.strip(XSD_WS):
            exp = vals.index(c)
    elif kind in ("int", "dec", "float", "bool"):
        t = {"int": "int", "dec": "Decimal", "float": "float", "bool": "bool"}[kind]
        valid, v = xsd_value(t, s, kw)
        if not valid:
            return None
        for i, m in enumerate(members):
            mv = dec_atom(m)
            if kind == "dec":
                hit = mv.is_finite() and Fraction(mv) == v
            elif kind == "float":
                hit = (v == "nan" and math.isnan(mv)) or (v != "nan" and mv == v)
            else:
                hit = mv == v
            if hit:
                exp = i
                break
    elif kind in ("qname", "bytes"):
        valid, v = xsd_value("QName" if kind == "qname" else "bytes", s, kw)
        if not valid:
            return None
        for i, m in enumerate(members):
            mv = dec_atom(m)
            if (mv.text if kind == "qname" else bytes(mv)) == v:
                exp = i
                break
    if exp is None:
        return None
    cls = make_enum(members)
    if kind in ("qname", "bytes"):
        # the member denoted depends on the prefix map / binary format of *this* call only:
        # ask the same string under the other contexts first
        for other in ENUM_CTX_KWS:
            if other != kw:
                try:
                    converter.deserialize(s, [cls], **dec_kw(other))
                except Exception:  # noqa: BLE001, S110
                    pass
    try:
        got = converter.deserialize(s, [cls], **kwargs)
    except ConverterError:
        return f"enumeration {[dec_atom(m) for m in members]!r}: lexical form {s!r} of member #{exp} is rejected"
    except Exception as e:  # noqa: BLE001
        return f"enumeration {[dec_atom(m) for m in members]!r}: deserialize({s!r}) raised {type(e).__name__}"
    if got is not list(cls)[exp]:
        return f"enumeration {[dec_atom(m) for m in members]!r}: {s!r} is read as {got!r}, expected member #{exp}"
    return None


def _eq(a, b):
    if a is ConverterError or b is ConverterError:
        return a is b
    if type(a) is not type(b):
        return False
    if isinstance(a, float) and math.isnan(a):
        return math.isnan(b)
    if isinstance(a, Decimal) and a.is_nan():
        return b.is_nan()
    if isinstance(a, QName):
        return a.text == b.text
    return a == b and repr(a) == repr(b)


def lexical_ok(v, s, kw):
    """is s a valid XSD lexical form of the datatype matching python value v?"""
    if isinstance(v, XmlDuration):
        return bool(RX["XmlDuration"].match(s))
    if isinstance(v, XmlPeriod):
        return bool(RX["XmlPeriod"].match(s))
    if isinstance(v, bool):
        return bool(RX["bool"].match(s))
    if isinstance(v, int):
        return bool(RX["int"].match(s))
    if isinstance(v, float):
        return bool(RX["float"].match(s))
    if isinstance(v, Decimal):
        return bool(RX["Decimal"].match(s)) if v.is_finite() else True  # INF/NaN are outside xs:decimal's value space
    if isinstance(v, bytes):
        hexa = isinstance(v, XmlHexBinary) or kw.get("format") == "base16"
        return bool(RX["hex" if hexa else "b64"].match(s))
    if isinstance(v, QName):
        if kw.get("ns_map") is None:
            return True  # "{uri}local" is xsdata's own notation, not an XSD lexical form
        pre, sep, local = s.partition(":")
        return bool(NCNAME.match(local) and NCNAME.match(pre)) if sep else bool(NCNAME.match(s))
    return True


def qname_parts(text):
    if text[:1] == "{" and "}" in text:
        u, _, l = text[1:].partition("}")
        return (u or None), l
    return None, text


def dt_directives(f):
    out = []
    i = 0
    while i < len(f):
        if f[i] == "%" and i + 1 < len(f):
            out.append(f[i + 1])
            i += 2
        else:
            i += 1
    return [d for d in out if d != "%"]


def dt_format_covers(val, f):
    """a format under which the value can be expected to round-trip: numeric directives only,
    each component of the value mentioned exactly once"""
    if not isinstance(f, str) or not fmt_ser_supported(f) or f.endswith("%") and not f.endswith("%%"):
        return False
    ds = dt_directives(f)
    if len(set(ds)) != len(ds):
        return False
    need = set()
    if isinstance(val, _dt.date):
        need |= {"Y", "m", "d"}
    if isinstance(val, (_dt.time, _dt.datetime)):
        need |= {"H", "M", "S"}
        if val.microsecond:
            need.add("f")
    if isinstance(val, _dt.time) and not isinstance(val, _dt.datetime) and set(ds) & {"Y", "m", "d"}:
        return False
    return need <= set(ds)


def oracle_roundtrip(a):
    """serialize(v) is a valid lexical form and deserialize(serialize(v)) == v"""
    v = dec_servalue(a["v"])
    kw = a["kw"]
    kwargs = dec_kw(kw)
    if isinstance(v, (list, tuple)):
        return None
    member = v if isinstance(v, Enum) else None
    val = member.value if member is not None else v
    if isinstance(val, tuple):
        # a token list: items are non-empty and free of white space; NaN decimals never compare equal
        for x in val:
            if isinstance(x, str) and (not x or x.split() != [x]):
                return None
            if isinstance(x, Decimal) and x.is_nan():
                return None
    if isinstance(val, str):
        if member is None:
            return None
    if isinstance(val, QName):
        ns, local = qname_parts(val.text)
        wellformed = val.text == (local if ns is None else "{" + ns + "}" + local)
        if not wellformed or not NCNAME.match(local) or (ns is not None and re.search(r"[\s{}]", ns)):
            return None  # not a QName value
    if isinstance(val, bytes) and not (isinstance(val, (XmlHexBinary, XmlBase64Binary)) or kw.get("format") in ("base16", "base64")):
        return None  # no format: not a supported combination
    if isinstance(val, bytes) and member is not None:
        return None  # enumerations of binary values: not judged
    if member is not None and isinstance(val, Decimal) and val.is_nan():
        return None  # Decimal NaN is not equal to itself: such a member can never be looked up by value
    if any(k == "" for k, _ in (kw.get("ns_map") or [])):
        return None  # xsdata's maps use None for the default namespace, never ""
    if isinstance(val, tuple) and any(isinstance(x, (bytes, QName)) for x in val):
        return None
    if isinstance(val, (XmlDate, XmlTime, XmlDateTime)):
        return None  # C06
    if isinstance(val, (XmlDuration, XmlPeriod)) and not RX[type(val).__name__].match(str(val)):
        return None  # built from a non-XSD spelling that the class tolerates (C06's leniency): str() echoes it
    if isinstance(val, (_dt.date, _dt.time)):
        if member is not None or not dt_format_covers(val, kw.get("format")):
            return None  # the format must mention every component of the value exactly once
    try:
        s = converter.serialize(v, **kwargs)
    except Exception as e:  # noqa: BLE001
        return f"serialize({v!r}, {kw}) raised {type(e).__name__}: {e}"
    if member is None and not lexical_ok(val, s, kw):
        return f"serialize({v!r}) = {s!r} is not a valid XSD lexical form"
    if isinstance(val, bytes):
        # read back with the format the value was written in
        kwargs["format"] = "base16" if isinstance(val, XmlHexBinary) or kw.get("format") == "base16" else "base64"
    tp = type(v) if member is not None else bytes if isinstance(val, bytes) else type(val)
    try:
        back = converter.deserialize(s, [tp], **kwargs)
    except Exception as e:  # noqa: BLE001
        return f"serialize({v!r}) = {s!r} does not deserialize back ({type(e).__name__})"
    if member is not None:
        if back is not member:
            return f"enum member with value {val!r} serializes to {s!r} which reads back as {back!r}"
        return None
    if isinstance(val, float) and math.isnan(val):
        good = isinstance(back, float) and math.isnan(back)
    elif isinstance(val, Decimal) and val.is_nan():
        good = back.is_nan()
    elif isinstance(val, float):
        good = back == val and math.copysign(1, back) == math.copysign(1, val)
    elif isinstance(val, QName):
        good = back.text == val.text
    else:
        good = back == val and type(back) is (bytes if isinstance(val, bytes) else type(val))
    if not good:
        return f"{v!r} serializes to {s!r} (kw={kw}) which reads back as {back!r}"
    return None


INT_SPACES = {"short": (-2**15, 2**15 - 1), "int": (-2**31, 2**31 - 1), "long": (-2**63, 2**63 - 1), "integer": (None, None)}
ORDER = ["short", "int", "long", "integer"]


def oracle_from_value(a):
    v = dec_atom(a["v"])
    code = DataType.from_value(v).code
    if isinstance(v, bool):
        return None if code == "boolean" else f"from_value({v!r}) = {code}"
    if isinstance(v, int):
        if code not in INT_SPACES:
            return f"from_value({v}) = {code}, not an integer datatype"
        fits = [c for c in ORDER if INT_SPACES[c][0] is None or INT_SPACES[c][0] <= v <= INT_SPACES[c][1]]
        if code != fits[0]:
            return f"from_value({v}) = {code}; the narrowest of short/int/long/integer containing it is {fits[0]}"
        return None
    if isinstance(v, float):
        if code not in ("float", "double"):
            return f"from_value({v!r}) = {code}"
        if code == "float" and not (abs(v) <= 3.4028235677973366e38):
            return f"from_value({v!r}) = float but the value is outside xs:float's range"
        return None
    if isinstance(v, XmlPeriod):
        # the datatype whose lexical space the text belongs to (XSD 1.1 Part 2 §3.3.9-3.3.14)
        t = re.sub(r"(Z|[+-][0-9]{2}:[0-9]{2})\Z", "", str(v))
        exp = ("gDay" if re.fullmatch(r"---[0-9]{2}", t) else "gMonthDay" if re.fullmatch(r"--[0-9]{2}-[0-9]{2}", t)
               else "gMonth" if re.fullmatch(r"--[0-9]{2}(--)?", t) else "gYearMonth" if re.fullmatch(r"-?[0-9]{4,}-[0-9]{2}", t)
               else "gYear" if re.fullmatch(r"-?[0-9]{4,}", t) else None)
        return None if exp is None or code == exp else f"from_value({v!r}) = {code}, its lexical form is a {exp}"
    exp = {Decimal: "decimal", str: "string", QName: "QName", XmlHexBinary: "hexBinary", XmlBase64Binary: "base64Binary", XmlDate: "date", XmlTime: "time", XmlDateTime: "dateTime",
           XmlDuration: "duration"}.get(type(v))
    if exp and code != exp:
        return f"from_value({v!r}) = {code}, expected {exp}"
    return None


def oracle_sort(a):
    names = a["names"]
    types = [SORT_NAMES[n] for n in names]
    out = [t.__name__ for t in ConverterFactory.sort_types(types)]
    if sorted(out) != sorted(names):
        return f"sort_types({names}) = {out} is not a permutation"
    # types without a table entry first, `object` (the catch-all) last among them
    key = lambda n: (DOC_PRIORITY.index(n) + 1 if n in DOC_PRIORITY else 0, n == "object")  # noqa: E731
    exp = sorted(names, key=key)
    if out != exp:
        return f"sort_types({names}) = {out}; documented priority order (stable, object after the other untabled types) gives {exp}"
    return None


def oracle_test(a):
    """test(strict=True) on a single explicit numeric type implies the canonical spelling"""
    if not a["strict"] or len(a["types"]) != 1 or a["types"][0] not in ("int", "float", "Decimal"):
        return None
    t = TYPES[a["types"][0]]
    s = a["s"]
    res = converter.test(s, [t], strict=True)
    # the value and its canonical spelling, computed with the standard library only (the documented canonical forms:
    # str(int); repr(float) in upper case without "E+", INF / -INF / NaN; Decimal in positional notation, INF / -INF)
    try:
        if t is int:
            v = int(s)
            canon = str(v)
        elif t is float:
            v = float(s)
            canon = "NaN" if math.isnan(v) else ("INF" if v > 0 else "-INF") if math.isinf(v) else repr(v).upper().replace("E+", "E")
        else:
            v = Decimal(s)
            canon = str(v).replace("Infinity", "INF") if v.is_infinite() else format(v, "f")
    except (ValueError, ArithmeticError):
        return "test() is True but the standard library cannot read the string" if res else None
    special = isinstance(v, float) and (math.isnan(v) or math.isinf(v))
    if special and not res:
        return f"test({s!r}, [float], strict) is False for an accepted spelling of a special value (documented: always True)"
    if res and not special and canon != s.strip():
        return f"test({s!r}, [{t.__name__}], strict) is True but the canonical spelling is {canon!r}"
    if not res and canon == s.strip():
        return f"test({s!r}, [{t.__name__}], strict) is False although {s!r} is the canonical spelling"
    return None


def oracle_registry(a):
    """documented lookup rule: the class itself, else the first registered class among
    all but the last MRO entries; ConverterError when there is none"""
    cls = CLASSES[a["cls"]]
    reg = converter.registry
    exp = None
    for c in cls.__mro__[:-1] if len(cls.__mro__) > 1 else cls.__mro__:
        if c in reg:
            exp = reg[c]
            break
    if cls in reg:
        exp = reg[cls]
    try:
        got = converter.type_converter(cls)
    except ConverterError:
        got = None
    if got is not exp:
        return f"type_converter({cls.__name__}) = {type(got).__name__ if got else 'ConverterError'}, documented rule gives {type(exp).__name__ if exp else 'ConverterError'}"
    # consequence for values: a class without converter cannot be a silent str
    if exp is None:
        try:
            v = converter.deserialize("1", [cls, int])
        except ConverterError:
            return "deserialize('1', [unregistered, int]) raised"
        if v != 1 or type(v) is not int:
            return f"deserialize('1', [{cls.__name__}, int]) = {v!r}"
    return None


def oracle_is_uri(a):
    """is_uri accepts every (ASCII) RFC 2396 URI reference; a namespace name is one"""
    s = a.get("s")
    if not isinstance(s, str):
        return None
    if _is_uri_ref(s) and not NS.is_uri(s):
        return f"is_uri({s!r}) is False for a URI reference"
    return None


def oracle_helpers(a):
    """build_qname / split_qname are inverse on well-formed parts; is_ncname agrees with XML NCName"""
    s = a.get("s")
    if not isinstance(s, str) or not s:
        return None
    if NCNAME.match(s) and not NS.is_ncname(s):
        return f"is_ncname({s!r}) is False for a valid NCName"
    if NS.is_ncname(s) and ":" in s:
        return f"is_ncname({s!r}) is True for a name with a colon"
    if NCNAME.match(s):
        for uri in ("urn:a", "http://x/y#z"):
            q = NS.build_qname.__wrapped__(uri, s)
            if tuple(NS.split_qname.__wrapped__(q)) != (uri, s):
                return f"split_qname(build_qname({uri!r}, {s!r})) = {NS.split_qname.__wrapped__(q)!r}"
        if tuple(NS.split_qname.__wrapped__(s)) != (None, s):
            return f"split_qname({s!r}) = {NS.split_qname.__wrapped__(s)!r}"
    return None


# -- which failing inputs belong to a listed finding -----------------------
def _has_default_ns(kw):
    return any((k is None or k == "") and v for k, v in (kw.get("ns_map") or []))


def _is_marked_name(local):
    """valid XML NCName outside the approximation `first char isalpha() or '_', the
    rest isalpha()/isdigit()/one of . - _ U+00B7 U+0387` (combining marks, letter
    numbers, non-ASCII digits in first position, ...)"""
    if not NCNAME.match(local):
        return False
    approx = (local[0].isalpha() or local[0] == "_") and all(
        ch.isalpha() or ch.isdigit() or ch in "\u00b7\u0387.-_" for ch in local[1:]
    )
    return not approx


_RFC = r"[A-Za-z0-9;/?:@&=+$,\-_.!~*'()%]"


def _is_uri_ref(u):
    """non-empty RFC 2396 URI reference (ASCII): URI characters, at most one '#'"""
    return bool(u) and re.fullmatch(f"{_RFC}*(?:#{_RFC}*)?", u) is not None


def _ref_strftime(val, f):
    """what the platform strftime (glibc: no zero padding of %Y) writes for a format made of the numeric
    directives; own computation, used only to recognise the listed finding"""
    parts = {"Y": lambda: str(val.year), "m": lambda: f"{val.month:02d}", "d": lambda: f"{val.day:02d}", "H": lambda: f"{getattr(val, 'hour', 0):02d}",
             "M": lambda: f"{getattr(val, 'minute', 0):02d}", "S": lambda: f"{getattr(val, 'second', 0):02d}", "f": lambda: f"{getattr(val, 'microsecond', 0):06d}", "%": lambda: "%"}
    out, i = [], 0
    while i < len(f):
        if f[i] == "%" and i + 1 < len(f):
            if f[i + 1] not in parts:
                return None
            out.append(parts[f[i + 1]]())
            i += 2
        else:
            out.append(f[i])
            i += 1
    return "".join(out)


def _observe_roundtrip(a):
    """what serialize / deserialize do on this input: (text, ('ok', value) | ('err', exception name))"""
    v = dec_servalue(a["v"])
    kwargs = dec_kw(a["kw"])
    try:
        s = converter.serialize(v, **kwargs)
    except Exception as e:  # noqa: BLE001
        return None, ("err", type(e).__name__)
    val = v.value if isinstance(v, Enum) else v
    try:
        back = ("ok", converter.deserialize(s, [type(val)], **kwargs))
    except Exception as e:  # noqa: BLE001
        back = ("err", type(e).__name__)
    if isinstance(v, Enum):
        # a member of a one-member enumeration: the finding shows on the member's value; the enumeration then finds no member
        try:
            converter.deserialize(s, [type(v)], **kwargs)
            return s, ("ok", "some member")
        except ConverterError:
            pass
        except Exception as e:  # noqa: BLE001
            return s, ("err", type(e).__name__)
    return s, back


def covered_roundtrip(a, msg):
    """a failing input belongs to a listed finding only when it fails in the way the finding describes
    (the text written and the outcome of reading it back are the ones the unchanged code produces, stated
    here from the outside); a failure of another kind on an input of the same region is reported"""
    v = a["v"]
    kw = a["kw"]
    inner = v["v"] if v["t"] == "member" else v
    if inner["t"] in ("pydate", "pydatetime") and inner["v"][0] < 1000 and "Y" in dt_directives(kw.get("format") or ""):
        # C05-strftime-year: the text is the platform's strftime output with the year not padded, and reading it back does
        # exactly what the stdlib strptime does with that text (rejects it, or splits the digits differently)
        val = dec_atom(inner)
        f = kw["format"]
        s, back = _observe_roundtrip(a)
        ref = _ref_strftime(val, f)
        if s is None or ref is None or s != ref or v["t"] == "member":
            return None
        try:
            std = _dt.datetime.strptime(s, f)
            std = ("ok", std if isinstance(val, _dt.datetime) else std.date())
        except ValueError:
            std = ("err", "ConverterError")
        if std == ("ok", val):
            return None  # the stdlib reads the text back: whatever failed is something else
        return "C05-strftime-year" if back == std else None
    if inner["t"] == "qname":
        ns, local = qname_parts(inner["v"])
        s, back = _observe_roundtrip(a)
        if s is None:
            return None
        if _is_marked_name(local):
            # C05-ncname-unicode: the name is written unchanged and is_ncname refuses it on the way back
            written_ok = s == inner["v"] if kw.get("ns_map") is None else (s == local or (s.endswith(":" + local) and s.count(":") == 1))
            return "C05-ncname-unicode" if written_ok and back == ("err", "ConverterError") else None
        if kw.get("ns_map") is not None and ns is None and _has_default_ns(kw):
            # C05-qname-default-ns: written as the bare local name, read back into the default namespace
            default = dict((k, u) for k, u in kw["ns_map"]).get(None)
            if s == local and default and back[0] == "ok" and isinstance(back[1], QName) and back[1].text == "{" + default + "}" + local:
                return "C05-qname-default-ns"
    return None


def _ws_variant_winner(vals, s):
    """C05-enum-ws-variant, stated from the outside: the lenient match of a string enumeration compares every member
    value, in definition order, with the stripped input and with its white-space-normalised form, before the
    verbatim value is tried. Returns the index of the member that wins although `s` is another member's value."""
    if s not in vals:
        return None
    cands = (s.strip(), " ".join(s.split()))
    first = next((k for k, w in enumerate(vals) if w in cands), None)
    return first if first is not None and first != vals.index(s) else None


def covered_accepts(a, msg):
    s = a["s"]
    if msg.startswith("enumeration ") and " is read as " in msg:
        for t in a["types"]:
            if isinstance(t, str) or {m["t"] for m in t["enum"]} != {"str"}:
                continue
            vals = [m["v"] for m in t["enum"]]
            win = _ws_variant_winner(vals, s)
            if win is None:
                continue
            try:
                cls = make_enum(t["enum"])
                got = converter.deserialize(s, [cls], **dec_kw(a["kw"]))
            except Exception:  # noqa: BLE001
                continue
            if got is list(cls)[win]:
                return "C05-enum-ws-variant"
    if "QName" in a["types"] and msg.startswith("XSD-valid QName lexical form") and msg.endswith("is rejected"):
        # C05-ncname-unicode: is_ncname's approximation refuses the local part (the prefix is only looked up, never tested)
        c = collapse(s)
        if _is_marked_name(c.rpartition(":")[2]):
            return "C05-ncname-unicode"
    return None


def covered_helpers(a, msg):
    s = a.get("s") or ""
    if msg.startswith("is_ncname") and "valid NCName" in msg and _is_marked_name(s):
        return "C05-ncname-unicode"
    return None


def gen_o_accepts(rng, tier):
    # XSD-valid lexical forms built from the grammar, independent of the code
    ws = ["", " ", "\n", "\t ", "\r\n", "  "]
    for _ in range(3000):
        t = rng.choice(["bool", "int", "Decimal", "float", "bytes", "QName", "XmlDuration", "XmlPeriod"])
        kw = KW()
        if t == "bool":
            s = rng.choice(["true", "false", "1", "0"])
        elif t == "int":
            s = rng.choice(["", "+", "-"]) + "".join(rng.choice("0123456789") for _ in range(rng.randint(1, 30)))
        elif t in ("Decimal", "float"):
            ip = "".join(rng.choice("0123456789") for _ in range(rng.randint(0, 20)))
            fp = "".join(rng.choice("0123456789") for _ in range(rng.randint(0 if ip else 1, 20)))
            s = rng.choice(["", "+", "-"]) + ip + rng.choice(["." + fp, "." + fp, "" if ip else "." + fp])
            if t == "float":
                r = rng.random()
                if r < 0.4:
                    s += rng.choice("eE") + rng.choice(["", "+", "-"]) + str(rng.randint(0, 330)).zfill(rng.randint(1, 3))
                elif r < 0.5:
                    s = rng.choice(["INF", "-INF", "+INF", "NaN"])
        elif t == "bytes":
            b = rand_bytes(rng)
            if rng.random() < 0.5:
                kw = KW(format="base16")
                s = b.hex()
                s = "".join(rng.choice([c.upper(), c.lower()]) for c in s)
            else:
                kw = KW(format="base64")
                e = _b64.b64encode(b).decode()
                s = "".join(c + (" " if rng.random() < 0.2 else "") for c in e).strip()
        elif t == "QName":
            kw = KW(ns_map=rng.choice(NS_MAPS))
            pre = rng.choice([None, None, "u", "xs", "a", "ns1", "zz", "xsi"])
            local = rng.choice(["a", "b-c", "_x.y", "a1", "é", "é", "कि", "Ab·c", "x२"])
            s = local if pre is None else pre + ":" + local
        elif t == "XmlDuration":
            s = rng.choice(["P1D", "P1Y2M3DT4H5M6S", "-P1Y", "PT0.5S", "P0D", "PT1H"])
        else:
            s = rng.choice(["2001", "2001-10", "--10", "--10-31", "---31", "2001Z", "--10+02:00"])
        yield {"s": rng.choice(ws) + s + rng.choice(ws), "types": [t], "kw": kw}
    for c in gen_de(rng, "quick"):
        yield c


def adapt_accepts(op, a):
    return {"s": a["s"], "types": a["types"], "kw": a["kw"]}


def gen_o_roundtrip(rng, tier):
    yield from gen_ser(rng, "quick")


def gen_o_helpers(rng, tier):
    yield from gen_is_ncname(rng, "quick")
    yield from gen_split_qname(rng, "quick")


def gen_history(rng, tier):
    """sequences of calls on the same objects (same enum classes, same converter, same ns_map dicts)"""
    n = 300 if tier == "quick" else 4500
    for _ in range(n):
        r = rng.random()
        calls = []
        if r < 0.4:
            members = rng.choice(ENUM_SETS_CTX)
            for _ in range(rng.randint(3, 7)):
                calls.append({"op": "de", "s": rng.choice(ENUM_CTX_STRINGS), "types": [{"enum": members}], "kw": rng.choice(ENUM_CTX_KWS)})
        elif r < 0.7:
            members = rng.choice(ENUM_SETS)
            for _ in range(rng.randint(3, 7)):
                calls.append({"op": "de", "s": rng.choice(ENUM_STRINGS), "types": [{"enum": members}] + rng.choice([[], ["str"], ["int"]]),
                              "kw": KW(format=rng.choice(["base16", "base64", None]), ns_map=rng.choice(NS_MAPS))})
        else:
            for _ in range(rng.randint(3, 7)):
                k = rng.random()
                if k < 0.4:
                    calls.append({"op": "ser", "v": {"t": "qname", "v": rng.choice(QNAME_VALUES)}, "kw": KW(ns_map=rng.choice(NS_MAPS))})
                elif k < 0.7:
                    calls.append({"op": "de", "s": rng.choice(QNAME_HAND), "types": ["QName"], "kw": KW(ns_map=rng.choice(NS_MAPS))})
                else:
                    t = rng.choice(PY_DT_TYPES)
                    calls.append({"op": "de", "s": rng.choice(DT_HAND), "types": [t], "kw": KW(format=rng.choice(DT_FORMATS))})
        yield {"calls": calls}


def _run_call(c):
    if c["op"] == "de":
        return impl_de({"s": c["s"], "types": c["types"], "kw": c["kw"]})
    return impl_ser({"v": c["v"], "kw": c["kw"]})


def oracle_history(a):
    """a call's result does not depend on which calls were made before it on the same objects"""
    calls = a["calls"]
    first = [_run_call(c) for c in calls]
    second = list(reversed([_run_call(c) for c in reversed(calls)]))
    for c, x, y in zip(calls, first, second):
        if x != y:
            return f"call {json.dumps(c, ensure_ascii=False)[:200]} gave {x} in the sequence and {y} when the sequence was replayed backwards"
    return None


ORACLES = [
    Oracle("c05.roundtrip", gen_o_roundtrip, oracle_roundtrip, covered=covered_roundtrip, from_ops=("conv.ser",)),
    Oracle("c05.accepts", gen_o_accepts, oracle_accepts, covered=covered_accepts, from_ops=("conv.de", "conv.test"), adapt=adapt_accepts),
    Oracle("c05.test_strict", gen_test, oracle_test, from_ops=("conv.test",)),
    Oracle("c05.sort", gen_sort, oracle_sort, from_ops=("conv.sort",)),
    Oracle("c05.from_value", gen_from_value, oracle_from_value, from_ops=("conv.from_value",)),
    Oracle("c05.registry", gen_type_converter, oracle_registry, from_ops=("conv.type_converter",)),
    Oracle("c05.is_uri", gen_is_uri, oracle_is_uri, from_ops=("ns.is_uri",)),
    Oracle("c05.history", gen_history, oracle_history),
    Oracle("c05.helpers", gen_o_helpers, oracle_helpers, covered=covered_helpers, from_ops=("ns.is_ncname", "ns.split_qname")),
]


# ---------------------------------------------------------------------------
# known findings: replay on the real code
# ---------------------------------------------------------------------------
def f_default_ns():
    m = {None: "urn:x"}
    s = converter.serialize(QName("y"), ns_map=m)
    back = converter.deserialize(s, [QName], ns_map=m)
    return back.text != "y", f"QName('y') -> {s!r} -> {back.text!r} under ns_map {{None: 'urn:x'}}"


def f_ncname_marks():
    try:
        converter.deserialize("कि", [QName])
    except ConverterError:
        return True, "QName 'कि' (U+0915 U+093F, valid NCName) rejected"
    return False, "accepted"


def f_strftime_year():
    d = _dt.date(999, 1, 2)
    s = converter.serialize(d, format="%Y-%m-%d")
    try:
        back = converter.deserialize(s, [_dt.date], format="%Y-%m-%d")
    except ConverterError:
        return True, f"serialize(date(999, 1, 2), format='%Y-%m-%d') = {s!r}, which deserialize rejects with the same format"
    return back != d, f"{s!r} -> {back!r}"


def f_enum_ws_variant():
    cls = make_enum([{"t": "str", "v": "x"}, {"t": "str", "v": " x"}])
    members = list(cls)
    s = converter.serialize(members[1])
    back = converter.deserialize(s, [cls])
    return s == " x" and back is members[0], f"Enum(M0='x', M1=' x'): M1 -> {s!r} -> {back!r}"


FINDINGS = {
    "C05-enum-ws-variant": f_enum_ws_variant,
    "C05-strftime-year": f_strftime_year,
    "C05-qname-default-ns": f_default_ns,
    "C05-ncname-unicode": f_ncname_marks,
}

LEVEL_TEXT = (
    "Lean theorems over all values / all strings for the Bool, Int, Bytes (base16/base64, wrapper classes, missing formats), Decimal, Float "
    "(exact binary64 rounding and shortest repr computed in the model; the repr always has the shape the canonical-spelling theorems need), "
    "QName, Enum, the XmlDate/XmlTime/XmlDateTime/XmlDuration/XmlPeriod proxies, date/time/datetime with strptime/strftime formats "
    "(%Y-%m-%d, %H:%M:%S, %Y-%m-%dT%H:%M:%S), sort_types / deserialize priority over every table type, type_converter, test(strict) soundness and "
    "DataType.from_value against the lexical spaces (Props/C05.lean, C05Types.lean, C05Float.lean, C05Dates.lean), with the model tied to /repo by a "
    "differential check of ConverterFactory.deserialize/serialize/test/sort_types/type_converter, DataType.from_value, float(str)/repr(float), "
    "strptime/strftime and the namespaces helpers on hand-picked, bounded-exhaustive, random and malformed inputs."
)
LEVEL_NOTE = (
    "Trusted: Lean kernel; hand models of CPython int()/float() grammar and rounding/repr/Decimal()/format 'f'/binascii/strip/split/"
    "_strptime (numeric directives %Y %m %d %H %M %S %f only) and glibc strftime; XSD lexical grammar transcriptions; the sampling "
    "correspondence check (repr(float(s)) is compared on all floats with <= 3 significant digits x exponents -330..310 in the thorough tier). "
    "Aware datetimes (%z), named-month/weekday directives and locale-dependent formats are outside the model."
)
