/-
The generic element model (property C11):

* `TreeParser` (xsdata/formats/dataclass/parsers/tree.py): a `NodeParser` whose root node is
  a `WildcardNode` for a synthetic wildcard var named after the root element;
* `XmlVarBuilder.resolve_namespaces` (models/builders.py): how the `namespace` metadata of a
  wildcard (`##any`, `##other`, `##local`, `##targetNamespace`, literal URIs) becomes the
  `XmlVar.namespaces` tuple that `XmlVar.match_namespace` (`matchNamespace`) consults;
* the generic pipeline itself: trees → `WildcardNode`s → `AnyElement`s →
  `EventGenerator.convert_any_type` → writer events → infoset, inside a host element;
* the infoset normal form `normTree` of the equivalence `≈ws` the property allows
  (absent text = empty text; whitespace-only text next to child elements is insignificant;
  prefix maps are not part of the comparison).
-/
import XsdataModel.Bind.Write

namespace Xs.Generic
open Py Xs.Bind

/-! ### TreeParser -/

/-- `elements.default_namespace(namespaces)` for the one-element tuple `(namespace,)` -/
def defaultNamespace (ns : Option Str) : Option Str :=
  match ns with
  | some u => if !u.isEmpty && u.head? ≠ some '#' then some u else none
  | none => none

/-- the `XmlVar(...)` that `TreeParser.start` creates for the root element `qname` -/
def treeVar (qname : QN) : XmlVar :=
  let (ns, name) := splitQName qname
  { index := 0, name := name, localName := name,
    -- `build_qname(default_namespace(namespaces), local_name)`
    qname := (buildQName (defaultNamespace ns) (some name)).getD name,
    wrapperQName := none, types := [.obj], clazz := none, init := true, mixed := false,
    tokens := false, format := none, anyType := false, processContents := "strict".toList,
    required := false, nillable := false, sequence := none, listElement := false,
    default := .none, namespaces := ns.toList, kind := .wildcard, isClazzUnion := false,
    elements := [], wildcards := [] }

/-- `TreeParser().parse(source)` on the infoset of the document: the root gets a
`WildcardNode(var=treeVar qname)`, every descendant a `WildcardNode` of the same var
(`WildcardNode.child`), the result is the last object bound. -/
def treeParse (e : BEnv) (Γ : Ctx) (cfg : ParserConfig) : Tree → Except Err Val
  | .node q a n t c tl => do
    let out ← parseNode e Γ cfg (.wildcard (treeVar q) a n) (.node q a n t c tl)
    match out.objs.getLast? with
    | some (_, .none) | none => throw (.parser "Failed to create target class")
    | some (_, v) => return v

/-! ### XmlVarBuilder.resolve_namespaces -/

def anyNs : Str := "##any".toList
def otherNs : Str := "##other".toList
def localNs : Str := "##local".toList
def targetNs : Str := "##targetNamespace".toList

/-- `parent_namespace or None`: an empty parent namespace counts as absent -/
def targetOf (pns : Option Str) : Option Str :=
  match pns with
  | some p => if p.isEmpty then none else some p
  | none => none

/-- one token of the `namespace` metadata (`for ns in namespace.split()`) -/
def resolveToken (pns : Option Str) (tok : Str) : Str :=
  if tok = targetNs then (targetOf pns).getD anyNs          -- `parent_namespace or "##any"`
  else if tok = localNs then []
  else if tok = otherNs then '!' :: (targetOf pns).getD []   -- `f"!{parent_namespace or ''}"`
  else tok

/-- the loop of `resolve_namespaces`; the Python result is `tuple(set(..))`: its order and
multiplicities are unspecified and `match_namespace` does not depend on them -/
def resolveTokens (pns : Option Str) (toks : List Str) : List Str := toks.map (resolveToken pns)

/-- `resolve_namespaces(xml_type, namespace, parent_namespace)`; `inherits` =
`xml_type in (Element, Wildcard)` -/
def resolveNamespaces (e : Env) (inherits : Bool) (ns pns : Option Str) : List Str :=
  let ns := if inherits && ns.isNone then pns else ns
  match ns with
  | none | some [] => []
  | some s => resolveTokens pns (pySplitWs e s)

/-! ### the decision table of wildcard namespaces -/

/-- what one token of the `namespace` metadata admits, as xsdata encodes it
(`uri` = namespace of the element, `none` = unqualified) -/
def tokenAllows (pns : Option Str) (tok : Str) (uri : Option Str) : Bool :=
  if tok = anyNs then true
  else if tok = localNs then uri.isNone
  else if tok = targetNs then (match targetOf pns with | some t => uri = some t | none => true)
  else if tok = otherNs then (match targetOf pns with | some t => uri ≠ some t | none => true)
  else uri = some tok

/-- XSD 1.0 (2nd ed.) §3.10.4 "Wildcard allows Namespace Name" for one token, with
`target` the target namespace of the schema (`none` = absent) -/
def xsdTokenAllows (target : Option Str) (tok : Str) (uri : Option Str) : Bool :=
  if tok = anyNs then true
  else if tok = localNs then uri.isNone
  else if tok = targetNs then uri = target
  else if tok = otherNs then uri.isSome && uri ≠ target
  else uri = some tok

/-- a namespace name that cannot be confused with the encodings of `resolve_namespaces`:
not empty, not starting with `!`, not starting with `#` (so none of the `##…` keywords) -/
def plainNs (u : Str) : Bool := !u.isEmpty && u.head? ≠ some '!' && u.head? ≠ some '#'

def isKeyword (tok : Str) : Bool := tok = anyNs || tok = localNs || tok = targetNs || tok = otherNs

/-! ### the normal form of `≈ws` -/

/-- text of an element as the property compares it: absent = empty; whitespace-only text
is dropped when the element has child elements -/
def normText (e : Env) (hasKids : Bool) (t : Option Str) : Option Str :=
  if hasKids then normalizeContent e t
  else match t with
    | some [] => none
    | t => t

mutual
/-- normal form of a tree under `≈ws`; every node carries the prefix map `m` (prefix maps
are not compared) -/
def normTree (e : Env) (m : NsMap) : Tree → Tree
  | .node q a _ t c tl =>
    .node q a m (normText e (!c.isEmpty) t) (normList e m c) (normalizeContent e tl)
def normList (e : Env) (m : NsMap) : List Tree → List Tree
  | [] => []
  | t :: ts => normTree e m t :: normList e m ts
end

/-- `t ≈ws t'` -/
def wsEq (e : Env) (t t' : Tree) : Prop := normTree e [] t = normTree e [] t'

mutual
def depthTree : Tree → Nat
  | .node _ _ _ _ c _ => 1 + depthList c
def depthList : List Tree → Nat
  | [] => 0
  | t :: ts => max (depthTree t) (depthList ts)
end

/-! ### well-formed trees the round trip is claimed for -/

/-- attribute names of an element are pairwise different (XML well-formedness) -/
def keysDistinct : List (QN × Str) → Bool
  | [] => true
  | (k, _) :: r => !r.any (·.1 = k) && keysDistinct r

/-- an attribute the generic model keeps verbatim: the value is not rewritten by
`ParserUtils.parse_any_attribute` (it does not look like `p:local` with `p` a declared prefix),
and it is not a Clark name the writer re-encodes as a prefixed name (`is_xsi_type`).
(`xsi:nil` is kept since `convert_any_element` flushes the start tag before the text.) -/
def attrOK (isDatatype : Str → Bool) (n : NsMap) (kv : QN × Str) : Bool :=
  parseAnyAttribute kv.2 n = kv.2 &&
  !(kv.2.head? = some '{' && (kv.1 = xsiType || isDatatype kv.2))

mutual
def treeOK (isDatatype : Str → Bool) : Tree → Bool
  | .node q a n _ c _ =>
    !q.isEmpty && keysDistinct a && a.all (attrOK isDatatype n) && treeOKList isDatatype c
def treeOKList (isDatatype : Str → Bool) : List Tree → Bool
  | [] => true
  | t :: ts => treeOK isDatatype t && treeOKList isDatatype ts
end

/-- the root element of a document has no (significant) tail -/
def rootTailBlank (e : Env) : Tree → Bool
  | .node _ _ _ _ _ tl => (normalizeContent e tl).isNone

/-! ### the generic pipeline -/

/-- the value a `WildcardNode(var)` leaves for the subtree `t` -/
def wildValue (e : BEnv) (Γ : Ctx) (cfg : ParserConfig) (var : XmlVar) : Tree → Except Err Val
  | .node q a n t c tl => do
    let out ← parseNode e Γ cfg (.wildcard var a n) (.node q a n t c tl)
    match out.objs with
    | [(_, v)] => return v
    | _ => throw (.unsupported "wildcard node left several objects")

/-- the events of a host element `<host>pre … </host>` whose content is `convert_any_type`
of every value; `pre` are the events the host emits before its wildcard content
(nothing for a list wildcard, `DATA None` for the synthetic `AnyElement(qname=None)` of a
single wildcard, `DATA text` for mixed content) -/
def hostEvents (host : QN) (pre : List Ev) (content : List (List Ev)) : List Ev :=
  [Ev.start host] ++ pre ++ content.flatten ++ [Ev.end host]

/-- parse every tree of a forest with a `WildcardNode(var)`, serialise the values with
`convert_any_type` inside a host element, write and re-read -/
def wildRoundtrip (e : BEnv) (Γ : Ctx) (cfg : ParserConfig) (isDatatype : Str → Bool)
    (var : XmlVar) (host : QN) (pre : List Ev) (ts : List Tree) : Except Err Tree := do
  let vals ← ts.mapM (wildValue e Γ cfg var)
  let fuel := depthList ts + 1
  let evss ← vals.mapM (fun v => genAnyType e Γ {} fuel v var none)
  eventsTree isDatatype (hostEvents host pre evss)

/-- a single tree as the whole document (no host) -/
def wildRoundtrip1 (e : BEnv) (Γ : Ctx) (cfg : ParserConfig) (isDatatype : Str → Bool)
    (var : XmlVar) (t : Tree) : Except Err Tree := do
  let v ← wildValue e Γ cfg var t
  let evs ← genAnyType e Γ {} (depthTree t + 1) v var none
  eventsTree isDatatype evs

/-! ### the same through the binder of a typed host

What `ElementNode.bind_objects` / `bind_mixed_objects` / `bind_wild_text` do with the objects a
wildcard var of the host receives, and `convert_value` on the way back.  The host contributes
only its start and end tag (lookups of the host's `XmlMeta` are covered by the correspondence). -/

/-- `bind_wild_var` for every value, then `convert_value(value, var)` inside `<host>…</host>`:
a list wildcard collects the values, a single wildcard nests the second and later values under
a synthetic `AnyElement(qname=None)` -/
def fieldRoundtrip (e : BEnv) (Γ : Ctx) (cfg : ParserConfig) (isDatatype : Str → Bool)
    (var : XmlVar) (host : QN) (ts : List Tree) : Except Err Tree := do
  let vals ← ts.mapM (wildValue e Γ cfg var)
  let params ← vals.foldlM (fun p v => bindWildVar p var (some var.qname) v) ([] : Params)
  let evs ← match params.get var.name with
    | some v => genValue e Γ {} (depthList ts + 3) v var none
    | none => pure []
  eventsTree isDatatype (hostEvents host [] [evs])

/-- mixed content: `bind_mixed_objects` (every object through `prepare_generic_value`), the
host's text inserted in front by `bind_wild_text`, `convert_mixed_content` on the way back -/
def mixedRoundtrip (e : BEnv) (Γ : Ctx) (cfg : ParserConfig) (isDatatype : Str → Bool)
    (var : XmlVar) (host : QN) (text : Option Str) (ts : List Tree) : Except Err Tree := do
  let vals ← ts.mapM (wildValue e Γ cfg var)
  let vals ← vals.mapM (prepareGeneric (some var.qname))
  let params : Params := Params.set [] var.name (.list vals)
  let params := (bindWildText e var [] [] params text none).1
  let evs ← match params.get var.name with
    | some v => genValue e Γ {} (depthList ts + 3) v var none
    | none => pure []
  eventsTree isDatatype (hostEvents host [] [evs])

/-! ### the abstract writer with prefixes for `is_xsi_type` strings

`EventHandler.add_attribute` turns a `str` value in Clark form into a `QName` when the attribute
is `xsi:type` or the value names a builtin datatype, and `encode_data` then allocates a prefix for
its namespace.  `Xs.Bind.collectUris` only looks at payloads that are already QNames, so
`Xs.Bind.eventsTree` writes such values without prefix; `eventsTreeQ` repairs that (requested as a
change of `Bind/Write.lean`).  On events without such attributes both agree. -/

def evUrisQ (isDatatype : Str → Bool) : Ev → List Str
  | .attr q (.prim (.str s)) =>
    if s.head? = some '{' && (q = xsiType || isDatatype s) then (targetUri s).toList else []
  | .attr _ d => dataUris d
  | .data d => dataUris d
  | _ => []

def collectUrisQ (isDatatype : Str → Bool) (evs : List Ev) : List Str :=
  ((evs.map (evUrisQ isDatatype)).flatten).eraseDups

def eventsTreeQ (isDatatype : Str → Bool) (evs : List Ev) : Except Err Tree := do
  let m := prefixMap (collectUrisQ isDatatype evs)
  let sax ← eventsSax m isDatatype evs
  match saxTree m sax [] none with
  | some t => return t
  | none => throw (.serializer "not a well-formed document")

end Xs.Generic
