"""C04 — JSON and dictionary round-trip: decoding what was encoded gives back the same
object; the encoded form only holds JSON-native values."""
import json
import random

import bindgen as G
import bindlib as B
import c04_dict as D
from bindcases import CONFIGS, _UNIS, n_cases, uni_of, unsupported
from framework import Corr, Oracle

PROP_ID = "C04"
DESIGN_REF = "6/C04"


# ------------------------------------------------------------------ generators
def instances(rng, tier, n_uni, per_uni):
    """(universe, desc, ctx, object) over full-feature and plain universes"""
    for i in range(n_uni):
        feats = D.FEATURES if i % 3 else D.PLAIN | {"inherit"}
        u, desc, ctx = D.new_universe(rng, feats)
        for _ in range(per_uni):
            try:
                obj = G.gen_instance(rng, u, "Root")
                if rng.random() < 0.35:
                    add_derived(rng, u, obj)
            except Exception:  # noqa: BLE001
                continue
            yield u, desc, ctx, obj
    yield from score_instances(rng, max(4, n_uni // 6))


def add_derived(rng, u, obj):
    """bindgen never puts a DerivedElement into a wildcard: append one to every wildcard list of the root —
    a model instance with its xsi:type (what XmlParser builds for <x xsi:type="Leaf0">), a primitive, or
    (rarely) a model instance without type, which is the region of C04-derived-without-type"""
    from xsdata.formats.dataclass.context import XmlContext
    from xsdata.formats.dataclass.models.generics import DerivedElement

    others = [n for n in u.classes if n != "Root"]
    for f in G.all_fields(u, "Root"):
        md = f.get("metadata", {})
        if md.get("type") != "Wildcard" or not (isinstance(f["type"], dict) and "list" in f["type"]):
            continue
        r = rng.random()
        if r < 0.25 or not others:
            item = DerivedElement(qname=rng.choice(["p", "{urn:d}p"]), value=G.rprim(rng, rng.choice(["str", "int", "bool"])), type=None)
        else:
            name = rng.choice(others)
            inst = G.gen_instance(rng, u, name, 1)
            tq = XmlContext().build(u.classes[name]).target_qname
            item = DerivedElement(qname=rng.choice(["d", "{urn:d}d"]), value=inst, type=tq if r < 0.9 else None)
        getattr(obj, f["name"]).insert(rng.randint(0, len(getattr(obj, f["name"]))), item)


# a universe in which the score of bind_best_dataclass decides: two compound choices whose classes
# share their local names but not their types ({"x": 5} binds to A with x="5" (str, weight 1) and to
# B with x=5 (weight 1.5)); A.x only takes strings that B rejects
SCORE_DESC = {"classes": [
    {"name": "A", "fields": [
        {"name": "x", "type": "str", "metadata": {"type": "Element"}},
        {"name": "y", "type": {"opt": "bool"}, "metadata": {"type": "Attribute"}, "default": {"value": None}}]},
    {"name": "B", "fields": [
        {"name": "x", "type": "int", "metadata": {"type": "Element"}},
        {"name": "y", "type": {"opt": "bool"}, "metadata": {"type": "Attribute"}, "default": {"value": None}}]},
    {"name": "Root", "fields": [
        {"name": "e", "type": {"list": "object"}, "metadata": {"type": "Elements", "choices": [
            {"name": "a", "type": {"cls": "A"}}, {"name": "b", "type": {"cls": "B"}}]}, "default": {"factory": "list"}},
        {"name": "n", "type": {"opt": "int"}, "metadata": {"type": "Attribute"}, "default": {"value": None}}]},
]}


def score_instances(rng, n):
    u = B.Universe(SCORE_DESC)
    _UNIS[u.modname] = u
    ctx = D.export_ctx(u)
    for _ in range(n):
        items = []
        for _ in range(rng.randint(1, 3)):
            y = rng.choice([None, True, False])
            if rng.random() < 0.5:
                items.append(u.classes["A"](x=rng.choice(["hello", "x y", "", "é", "1x", "tru"]), y=y))
            else:
                items.append(u.classes["B"](x=G.rint(rng), y=y))
        yield u, SCORE_DESC, ctx, u.classes["Root"](e=items, n=rng.choice([None, 3]))


def value_and_target(rng, u, obj):
    """a single model or a list-of-models document"""
    if rng.random() < 0.25:
        objs = [obj] + ([G.gen_instance(rng, u, "Root") for _ in range(rng.randint(0, 2))] if u.desc is not SCORE_DESC else [obj])
        return {"list": [u.to_val(o) for o in objs]}, {"list": "Root"}
    return u.to_val(obj), {"cls": "Root"}


def gen_enc(rng, tier):
    for u, desc, ctx, obj in instances(rng, tier, n_cases(tier, 100, 1200), 5):
        value, _ = value_and_target(rng, u, obj)
        yield {"ctx": ctx, "value": value, "factory": rng.choice(["dict", "filter_none"]),
               "ignore_default_attributes": rng.random() < 0.25, "route": rng.choice(["dict", "json"]),
               "desc": desc, "_uni": u.modname}


def impl_enc(a):
    u = uni_of(a)
    try:
        r = D.real_encode(u, a["value"], a["factory"], a["ignore_default_attributes"], a.get("route", "dict"))
    except Exception as e:  # noqa: BLE001
        return B.classify_exc(e)
    try:
        return {"ok": D.to_j(r)}
    except D.NonNative as e:
        return {"err": "NON-NATIVE:" + str(e)}


def _features(a):
    d = json.dumps(a.get("desc", {}))
    v = json.dumps(a.get("value", {}))
    tags = [t for t, pat in (("wrap", '"wrapper"'), ("comp", '"Elements"'), ("wild", '"Wildcard"'), ("attrs", '"Attributes"'),
                             ("tok", '"tokens": true'), ("sub", '"bases"')) if pat in d]
    tags += [t for t, pat in (("any", '"any"'), ("derived", '"derived"')) if pat in v]
    return "+".join(tags) or "plain"


def classify_enc(a, o):
    r = "ok" if "ok" in o else o.get("err", "?")
    return f"{a['factory']}:{a.get('route', 'dict')}:{'doc-list' if 'list' in a['value'] else 'doc-one'}:{_features(a)}:{r}"


def classify_flags(a, o):
    def shape(v):
        if v is None:
            return "none"
        if "enum" in v:
            return ("mixin-" if v["enum"]["mixin"] else "enum-") + shape(v["enum"]["value"])
        if "list" in v:
            return "list[" + ",".join(sorted({shape(x) for x in v["list"]})) + "]"
        if "model" in v:
            return "model"
        return "prim"
    return f"wrapper={'y' if a['wrapper'] else 'n'}:wrapped={'y' if a['wrapped'] else 'n'}:{shape(a['value'])[:40]}"


def cmp_skip(mo, io, a):
    if unsupported(mo):
        return True
    return mo == io


def gen_dec(rng, tier):
    for u, desc, ctx, obj in instances(rng, tier, n_cases(tier, 90, 1200), 4):
        value, target = value_and_target(rng, u, obj)
        fac = rng.choice(["dict", "filter_none"])
        try:
            data = D.real_encode(u, value, fac, rng.random() < 0.2)
            D.to_j(data)
        except Exception:  # noqa: BLE001
            continue
        docs = [("valid", data)]
        for _ in range(3):
            docs.append(D.mutate(rng, data))
        for kind, doc in docs:
            try:
                tagged = D.to_j(doc)
            except D.NonNative:
                continue
            t = target
            r = rng.random()
            if r < 0.12:
                t = None                      # detect the type from the keys
            elif r < 0.17:
                t = {"cls": "Root"} if "list" in target else {"list": "Root"}
            yield {"ctx": ctx, "data": tagged, "target": t, "config": rng.choice(CONFIGS), "route": rng.choice(["dict", "json"]),
                   "desc": desc, "_uni": u.modname, "_kind": kind, "_factory": fac}


def impl_dec(a):
    u = uni_of(a)
    try:
        r = D.real_decode(u, D.from_j(a["data"]), a["target"], a["config"], a.get("route", "dict"))
    except Exception as e:  # noqa: BLE001
        return B.classify_exc(e)
    return {"ok": D.result_val(u, r)}


def cmp_member(mo, io, a):
    """the model returns the set of admissible results (set iteration order of the candidate classes)"""
    if unsupported(mo):
        return True
    if "ok" in mo and "ok" in io:
        return io["ok"] in mo["ok"]
    return mo == io


def classify_dec(a, o):
    k = a.get("_kind", "?")
    r = "ok" if "ok" in o else o.get("err", "unsupported")
    t = a.get("target")
    tk = "detect" if t is None else ("list" if "list" in t else "cls")
    cfg = a.get("config") or {}
    lenient = "L" if cfg.get("fail_on_unknown_properties") is False else "S"
    return f"{k}:{tk}:{lenient}:{r}"


def gen_rt(rng, tier):
    for u, desc, ctx, obj in instances(rng, tier, n_cases(tier, 100, 1200), 5):
        value, target = value_and_target(rng, u, obj)
        yield {"ctx": ctx, "value": value, "target": target, "factory": rng.choice(["dict", "filter_none"]), "config": {},
               "ignore_default_attributes": rng.random() < 0.2, "route": rng.choice(["dict", "json"]), "desc": desc, "_uni": u.modname}


def impl_rt(a):
    u = uni_of(a)
    try:
        data = D.real_encode(u, a["value"], a["factory"], a["ignore_default_attributes"], a["route"])
        r = D.real_decode(u, data, a["target"], a["config"], a["route"])
    except Exception as e:  # noqa: BLE001
        return B.classify_exc(e)
    return {"ok": D.result_val(u, r)}


def classify_rt(a, o):
    if "ok" in o:
        r = "identity" if o["ok"] == a["value"] else "changed"
    else:
        r = o.get("err", "?")
    return f"{a['factory']}:{a.get('route', 'dict')}:{_features(a)}:{r}"


# ------------------------------------------------------------------ spec level: the richer primitive types
import c04_rich as R  # noqa: E402


def gen_e2e(rng, tier):
    for i in range(n_cases(tier, 260, 6000)):
        yield {"seed": rng.randrange(10**9), "factory": rng.choice(["dict", "filter_none"]), "doc": "list" if i % 4 == 0 else "single"}


def impl_e2e(a):
    return {"ok": R.run(a)}


def spec_e2e(a):
    """the property itself: the encoded form dumps with the stdlib encoder and both routes give the object back;
    instances inside a listed finding are left unspecified"""
    return R.expected(a)


def gen_shared(rng, tier):
    for _ in range(n_cases(tier, 60, 800)):
        seeds = [rng.randrange(10**9) for _ in range(rng.randint(2, 3))]
        steps = [[s, rng.choice(["single", "list"])] for s in seeds]
        steps += [list(rng.choice(steps)) for _ in range(rng.randint(1, 2))]      # come back to an earlier universe
        rng.shuffle(steps)
        yield {"steps": steps, "factories": rng.choice([["dict"], ["filter_none"], ["dict", "filter_none"], ["filter_none", "dict"]])}


def impl_shared(a):
    return {"ok": R.run_shared(a)}


def spec_shared(a):
    """sharing one XmlContext / encoder / decoder between universes with equal class names and between
    repeated calls changes nothing: every step ends as it does with fresh objects"""
    return {"ok": R.expected_shared(a)}


def oracle_shared_check(a):
    got, want = R.run_shared(a), R.expected_shared(a)
    for i, (g, w) in enumerate(zip(got, want)):
        if g != w:
            return f"step {i} of {a['steps']} (factories {a['factories']}) through a shared context: {json.dumps(g)[:500]}, with fresh objects: {json.dumps(w)[:200]}"
    return None


def classify_shared(a, o):
    return f"steps={len(a['steps'])}:factories={'+'.join(a['factories'])}"


def classify_e2e(a, o):
    r = o.get("ok", {})
    return "faithful" if r == R.EXPECTED else "not-faithful"


# ------------------------------------------------------------------ dict.leafdec: a field of a converter type
LEAF_TEXTS = {
    "XmlDate": ["2001-01-31", "2001-02-30", " 2001-01-31Z ", "2001-01-31+01:00", "-0044-03-15", "2001-1-31", "", "abc", "2024-02-29-05:00"],
    "XmlTime": ["12:00:00", "24:00:00", "23:59:59.123", "12:00:00Z", "12:00", " 01:02:03 ", "x"],
    "XmlDateTime": ["2001-01-31T12:00:00", "2001-01-31T24:00:00", "2001-01-31T12:00:00.5+02:00", "2001-01-31", "  2001-01-31T00:00:00Z"],
    "XmlDuration": ["P1D", "-P1D", "PT0S", "P1Y2M3DT4H5M6.7S", "PT", "P", " P400D ", "1D"],
    "XmlPeriod": ["2001", "--01", "---31", "--02-30", "2001-13", "x"],
    "Decimal": ["1.50", "0", "-0.001", "1E+3", "abc", "NaN", " 7 ", "INF", "-INF", "1_0", "0x10", "+5", ".5", "5."],
}


def gen_leafdec(rng, tier):
    for name, texts in LEAF_TEXTS.items():
        for t in texts:
            for strict in (False, True):
                yield {"type": name, "text": t, "config": {"fail_on_converter_warnings": strict}}


_LEAF_CLASSES = {}


def impl_leafdec(a):
    import warnings
    from dataclasses import field, make_dataclass
    from decimal import Decimal
    from typing import Optional

    from xsdata.formats.converter import converter
    from xsdata.formats.dataclass.parsers import DictDecoder
    from xsdata.formats.dataclass.parsers.config import ParserConfig
    from xsdata.models import datatype as dt

    tp = {"Decimal": Decimal}.get(a["type"]) or getattr(dt, a["type"])
    if a["type"] not in _LEAF_CLASSES:
        _LEAF_CLASSES[a["type"]] = make_dataclass("LeafHolder", [("f", Optional[tp], field(default=None, metadata={"type": "Element"}))])
    cls = _LEAF_CLASSES[a["type"]]
    with warnings.catch_warnings():
        warnings.simplefilter("ignore")
        try:
            obj = DictDecoder(config=ParserConfig(**a["config"])).decode({"f": a["text"]}, cls)
        except Exception as e:  # noqa: BLE001
            return B.classify_exc(e)
    v = obj.f
    return {"ok": {"str": v if isinstance(v, str) else converter.serialize(v)}}


def classify_leafdec(a, o):
    return f"{a['type']}:{'strict' if a['config']['fail_on_converter_warnings'] else 'lenient'}:{'ok' if 'ok' in o else o.get('err')}"


# ------------------------------------------------------------------ dict.valok: the hypothesis of dict_rt on real universes
def gen_valok(rng, tier):
    for u, desc, ctx, obj in instances(rng, tier, n_cases(tier, 80, 900), 5):
        yield {"ctx": ctx, "value": u.to_val(obj), "clazz": "Root", "factory": rng.choice(["dict", "filter_none"]),
               "desc": desc, "_uni": u.modname}


def impl_valok(a):
    """what the real code does with the instance: both routes give the object back, or not"""
    msg = oracle_check({"value": a["value"], "target": {"cls": a["clazz"]}, "factory": a["factory"], "desc": a["desc"], "_uni": a.get("_uni")})
    return {"ok": {"identity": msg is None, "why": msg}}


def cmp_valok(mo, io, a):
    """`valOKj` (resp. `valOKu` in a universe without subclass pools) promises the round trip"""
    if "ok" not in mo or "ok" not in io:
        return False
    m = mo["ok"]
    if m["typed"] and m["no_subclass_pools"] and not m["in_fragment"]:
        return False                     # dict_rt_universe: valOKu + noSubclassPools -> valOKj
    if m["in_fragment"]:
        return io["ok"]["identity"]
    return True


def classify_valok(a, o):
    return "identity" if o.get("ok", {}).get("identity") else "not-identity"


# ------------------------------------------------------------------ dict.encflags: encode(value, var, wrapped) literally
_FLAG_VARS = {}


def _flag_var(local, wrapper):
    """the real XmlVar of a list field with the given local name / wrapper"""
    from dataclasses import field, make_dataclass
    from typing import List

    from xsdata.formats.dataclass.context import XmlContext

    key = (local, wrapper)
    if key not in _FLAG_VARS:
        md = {"type": "Element", "name": local}
        if wrapper:
            md["wrapper"] = wrapper
        cls = make_dataclass("FlagHolder", [("f", List[object], field(default_factory=list, metadata=md))])
        _FLAG_VARS[key] = XmlContext().build(cls).get_all_vars()[0]
    return _FLAG_VARS[key]


_ITEM = None


def _dv_value(dv):
    """DV description -> the Python value handed to DictEncoder.encode"""
    global _ITEM
    from dataclasses import field, make_dataclass
    from enum import Enum, IntEnum
    from xml.etree.ElementTree import QName

    if dv is None:
        return None
    if "enum" in dv:
        inner = _dv_value(dv["enum"]["value"])
        if isinstance(inner, list):
            inner = tuple(inner)
        if dv["enum"]["mixin"]:
            if isinstance(inner, bool) or not isinstance(inner, (int, str)):
                raise ValueError("mixin enum over int / str only")
            return (IntEnum("MI", {"M": inner}) if isinstance(inner, int) else Enum("MS", {"M": inner}, type=str)).M
        return Enum("E", {"M": inner}).M
    if "list" in dv:
        return [_dv_value(x) for x in dv["list"]]
    if "model" in dv:
        if _ITEM is None:
            _ITEM = make_dataclass("Item", [("v", int, field(metadata={"type": "Element"}))])
        return _ITEM(v=dv["model"])
    if "qname" in dv:
        return QName(dv["qname"])
    return next(iter(dv.values()))


def _gen_dv(rng, depth=0):
    r = rng.random()
    if depth >= 3 or r < 0.3:
        t = rng.choice(["str", "int", "bool", "none", "model", "qname"])
        if t == "none":
            return None
        if t == "model":
            return {"model": rng.randint(-3, 9)}
        if t == "qname":
            return {"qname": rng.choice(["{urn:a}n", "n"])}
        return {t: G.rprim(rng, t)}
    if r < 0.6:
        return {"list": [_gen_dv(rng, depth + 1) for _ in range(rng.randint(0, 3))]}
    if r < 0.75:
        t = rng.choice(["str", "int"])
        return {"enum": {"mixin": True, "value": {t: G.rprim(rng, t)}}}
    inner = _gen_dv(rng, depth + 1)
    while inner is not None and ("model" in inner or "qname" in inner):
        inner = _gen_dv(rng, depth + 1)
    return {"enum": {"mixin": False, "value": inner}}


def gen_encflags(rng, tier):
    for _ in range(n_cases(tier, 500, 8000)):
        wrapper = rng.choice([None, None, "Wrap", "items"])
        yield {"factory": rng.choice(["dict", "filter_none"]), "wrapper": wrapper, "local": rng.choice(["item", "x"]),
               "wrapped": rng.random() < 0.3, "value": _gen_dv(rng)}


def impl_encflags(a):
    from xsdata.formats.dataclass.serializers import DictEncoder

    var = _flag_var(a["local"], a["wrapper"])
    try:
        r = DictEncoder(dict_factory=D.FACTORIES[a["factory"]]).encode(_dv_value(a["value"]), var, a["wrapped"])
        # members of mixed-in enumerations are int / str instances: what a JSON library writes for them
        return {"ok": D.to_j(json.loads(json.dumps(r)))}
    except Exception as e:  # noqa: BLE001
        return B.classify_exc(e)


# ------------------------------------------------------------------ XmlVar.is_optional on one real attribute var
_ISOPT_DEFAULTS = [  # (annotation, how the default is given, the default, what bindlib exports for it)
    ("optstr", "default", None, None), ("str", "default", "", {"val": {"str": ""}}), ("str", "default", "abc", {"val": {"str": "abc"}}),
    ("int", "default", 0, {"val": {"int": 0}}), ("int", "default", 7, {"val": {"int": 7}}),
    ("bool", "default", False, {"val": {"bool": False}}), ("bool", "default", True, {"val": {"bool": True}}),
    ("list", "factory", [], "list"), ("tuple", "factory", (), "list"), ("dict", "factory", {}, "dict"),
    ("list", "factory", ["a", "b"], "other"), ("list", "factory", [""], "other"), ("tuple", "factory", ("a",), "other"),
    ("dict", "factory", {"k": "v"}, "other"),
]
_ISOPT_VALUES = {
    "optstr": [None, "", "abc"], "str": ["", "abc", "x"], "int": [0, 7, -1], "bool": [False, True],
    "list": [[], ["a", "b"], ["a"], [""], ["b", "a"]], "tuple": [(), ("a",), ("a", "b")], "dict": [{}, {"k": "v"}, {"k": "w"}, {"j": "v"}],
}


def _isopt_val(x):
    if x is None:
        return None
    if isinstance(x, (list, tuple)):
        return {"list": [_isopt_val(i) for i in x]}
    if isinstance(x, dict):
        return {"attrs": [[k, v] for k, v in x.items()]}
    return B.pval(x)


def gen_isopt(rng, tier):
    for ann, how, dv, exported in _ISOPT_DEFAULTS:
        for value in _ISOPT_VALUES[ann]:
            if exported == "other" and value == dv:
                continue  # a factory of a non-empty collection is outside the model, only "differs from it" is known
            # the builder never marks an Optional[...] field or an Attributes dict as required
            for required in ((False,) if ann in ("optstr", "dict") else (False, True)):
                yield {"required": required, "default": exported, "value": _isopt_val(value),
                       "py": {"ann": ann, "how": how, "default": list(dv) if isinstance(dv, tuple) else dv,
                              "value": list(value) if isinstance(value, tuple) else value}}


_ISOPT_VARS = {}


def impl_isopt(a):
    from dataclasses import field, make_dataclass
    from typing import Dict, List, Optional, Tuple

    from xsdata.formats.dataclass.context import XmlContext

    py = a["py"]
    tup = py["ann"] == "tuple"
    dv = tuple(py["default"]) if tup else py["default"]
    value = tuple(py["value"]) if tup else py["value"]
    key = json.dumps([py["ann"], py["how"], py["default"], a["required"]])
    if key not in _ISOPT_VARS:
        md = {"type": "Attributes" if py["ann"] == "dict" else "Attribute", "required": a["required"]}
        if py["ann"] in ("list", "tuple"):
            md["tokens"] = True
        tp = {"optstr": Optional[str], "str": str, "int": int, "bool": bool, "list": List[str], "tuple": Tuple[str, ...], "dict": Dict[str, str]}[py["ann"]]
        if py["how"] == "factory":
            plain = {"list": list, "tuple": tuple, "dict": dict}[py["ann"]]
            fld = field(default_factory=plain if not dv else (lambda dv=dv: type(dv)(dv)), metadata=md)
        else:
            fld = field(default=dv, metadata=md)
        var = XmlContext().build(make_dataclass("OptHolder", [("f", tp, fld)])).get_all_vars()[0]
        exported = B.Universe.export_default(None, var)
        if exported != a["default"]:
            return {"err": f"HARNESS: the var exports the default {exported!r}, the case says {a['default']!r}"}
        if var.required != a["required"]:
            return {"err": f"HARNESS: var.required is {var.required}"}
        _ISOPT_VARS[key] = var
    try:
        return {"ok": bool(_ISOPT_VARS[key].is_optional(value))}
    except Exception as e:  # noqa: BLE001
        return B.classify_exc(e)


def classify_isopt(a, o):
    d = a["default"] if isinstance(a["default"], str) else ("none" if a["default"] is None else "val")
    return f"{a['py']['ann']}:{d}:{'req' if a['required'] else 'opt'}:{o.get('ok', o.get('err'))}"


CORRS = [
    Corr("dict.enc", gen_enc, impl_enc, compare=cmp_skip, classify=classify_enc,
         describe="DictEncoder.encode / JsonSerializer.render (+json.loads) vs model, both factories; the harness rejects non JSON-native outputs"),
    Corr("dict.dec", gen_dec, impl_dec, compare=cmp_member, classify=classify_dec,
         describe="DictDecoder.decode / JsonParser.from_string vs model on real encodings and single-point faults (unknown keys, wrong shapes), "
                  "explicit / list / detected target"),
    Corr("dict.roundtrip", gen_rt, impl_rt, compare=cmp_member, classify=classify_rt,
         describe="real encode+decode (dict and JSON text routes) vs model encode+decode"),
    Corr("dict.leafdec", gen_leafdec, impl_leafdec, compare=cmp_skip, classify=classify_leafdec,
         describe="bind_text of a JSON string for a field of a converter type (XmlDate, XmlTime, XmlDateTime, XmlDuration, XmlPeriod, "
                  "Decimal) vs the leaf branch of bindTextPlain with the C05 converter models as DEnv.other: canonical form kept, "
                  "invalid text kept with a warning / ParserError"),
    Corr("dict.valok", gen_valok, impl_valok, compare=cmp_valok, classify=classify_valok,
         describe="the decidable hypothesis of dict_rt (valOKj, valOKu, noSubclassPools) evaluated by the driver on generated universes and "
                  "instances; whenever it holds the real DictEncoder/DictDecoder and JsonSerializer/JsonParser must give the object back"),
    Corr("dict.encflags", gen_encflags, impl_encflags, compare=cmp_skip, classify=classify_flags,
         describe="DictEncoder.encode(value, var, wrapped) on one real XmlVar (with / without wrapper, both flag values) over nested lists, "
                  "Enum members (plain, IntEnum / str mixed-in, over primitives and tuples), primitives, None and model instances vs encFlagsF"),
    Corr("dict.isopt", gen_isopt, impl_isopt, classify=classify_isopt,
         describe="XmlVar.is_optional(value) on one real attribute var (None / str / int / bool defaults incl. falsy ones, list / tuple / dict "
                  "factories, factories of NON-EMPTY collections = DefaultV.other; required or not) vs isOptional; values equal to a "
                  "non-empty factory result are left out (outside the model)"),
    Corr("c04.shared", gen_shared, impl_shared, spec=spec_shared, classify=classify_shared,
         describe="spec-level: several rich universes with equal class names and repeated documents through ONE XmlContext, encoder, decoder, "
                  "serializer and parser (both factories interleaved); expected: every step as with fresh objects"),
    Corr("c04.e2e", gen_e2e, impl_e2e, spec=spec_e2e, classify=classify_e2e,
         describe="spec-level: seeded universes over float / Decimal / Union[int,float] / Union[int,str] / Union[float,str] / bytes base16+base64 / "
                  "XmlDate / XmlDateTime / XmlDuration / str and int enums (scalar, Optional, List, nested models, list documents), both factories, "
                  "DictEncoder/DictDecoder and JsonSerializer/JsonParser; expected: json.dumps works and both routes return the object (NaN ~ NaN)"),
]

TRUSTED = [
    "metadata (XmlMeta/XmlVar, dataclass fields, xsi index) is exported from the real XmlContext and is an input of the model "
    "(builders.py is not modelled here); the contexts of the counterexample / non-vacuity theorems are printed from the same export "
    "(harness/c04_witness.py -> Proofs/C04Witness.lean)",
    "primitives restricted to str / int / bool (+ QName in the executable model); floats, decimals, dates, enums, bytes are outside this layer",
    "json.dump / json.load are a parameter of the model (JsonLib); the JSON text route is tied to the real library only by the ops with route=json",
    "hand model of DictEncoder / DictDecoder / find_type_by_fields / local_names_match / score_object; set iteration order is modelled as "
    "the set of admissible winners and the correspondence checks membership",
]
ASSUMPTIONS = [
    "json.load(json.dump(j)) = j for JSON-native j (J.native: only null/bool/int/str/array/object with pairwise distinct keys)",
    "XmlVar.wrapper is recovered from wrapper_qname (wrapper names without '}')",
    "AnyElement / DerivedElement metadata is exported like a user class and added to the context under the ids AnyElement / DerivedElement",
]
LEVEL_TEXT = (
    "Lean theorems for all class universes / instances of the fragment valOKj — typed str/int/bool/QName fields, model-class fields, "
    "lists and wrapped lists of both, tokens fields, compound fields (primitives by exact type, instances singled out by their keys), "
    "xs:anyAttribute maps, wildcard fields (single, list, mixed) holding generic AnyElements of any nesting, primitives and None; both "
    "dictionary factories, every parser config: dict_rt, dict_rt_universe (typing suffices in universes without subclass pools), list_rt, "
    "json_rt, encode_json_native, best_match_unique; fields of converter types (XmlDate, XmlTime, XmlDateTime, int enums, … : any LeafRT, "
    "Props/C04Leaf.lean: leaf_value_in_fragment, leaf_field_rt, dict_rt_leaf_example) held as canonical lexical forms; Props/C04Wrap.lean: the wrapped flag and Enum members of the encoder "
    "(wrapper_once, wrapped_enum_list). The op dict.valok evaluates the hypotheses on generated universes (about 85 % of the instances "
    "are inside the fragment) and demands the real round trip whenever they hold. The full-strength statement is still refuted by two "
    "witnesses on real exported contexts that are inherent in the untagged JSON shape (subclass ambiguity, model instance under a "
    "wildcard; known findings, replayed on /repo); model tied to /repo by dict.enc / dict.dec / dict.roundtrip / dict.encflags on "
    "generated universes incl. derived elements, unknown keys and wrong shapes, and by the spec-level ops c04.e2e / c04.shared."
)
LEVEL_NOTE = (
    "The `wrapped` flag of DictEncoder.encode and Enum members are modelled literally in Dict/EncodeFlags.lean (op dict.encflags, "
    "theorems wrapper_once / wrapped_ignores_wrapper in Props/C04Wrap.lean). "
    "float, Decimal, unions of primitives, bytes, XmlDate/XmlDateTime/XmlDuration and enums are not in the Lean layer: they are "
    "covered by the spec-level op c04.e2e and the oracle rich_types_roundtrip on the real code only (harness/c04_rich.py). "
    "Outside the proved fragment (executable model + correspondence only): DerivedElement values, unions, lists of tokens, compound "
    "fields holding None, detect-type (clazz=None), ignore_default_attributes. The JSON text grammar is not modelled: json_rt assumes a "
    "library that is inverse on JSON-native values (checked on the real json module by the route=json cases, indentation varied). "
    "Untyped (anyType) primitive fields are outside the property."
)


# ------------------------------------------------------------------ oracle
def oracle_check(a):
    """the property on the real code only: decode(encode(obj)) == obj for the dictionary and the
    JSON-text route, and the stdlib encoder dumps the dictionary without a `default=` hook"""
    u = uni_of(a)
    obj = u.from_val(a["value"])
    from xsdata.formats.dataclass.context import XmlContext
    from xsdata.formats.dataclass.parsers import DictDecoder, JsonParser
    from xsdata.formats.dataclass.serializers import DictEncoder, JsonSerializer
    import warnings

    fac = D.FACTORIES[a.get("factory", "dict")]
    clazz = D.target_type(u, a["target"])
    try:
        data = DictEncoder(context=XmlContext(models_package=u.modname), dict_factory=fac).encode(obj)
    except Exception as e:  # noqa: BLE001
        return f"encode raised {type(e).__name__}: {e}"
    try:
        text = json.dumps(data)
    except Exception as e:  # noqa: BLE001
        return f"json.dumps(encode(obj)) raised {type(e).__name__}: {e}"
    try:
        D.to_j(data)
    except D.NonNative as e:
        return f"encoded form holds a value that is not JSON-native: {e}"
    if json.loads(text) != json.loads(json.dumps(json.loads(text))):
        return "json text does not reload to the same value"
    with warnings.catch_warnings():
        warnings.simplefilter("ignore")
        try:
            back = DictDecoder(context=XmlContext(models_package=u.modname)).decode(data, clazz)
        except Exception as e:  # noqa: BLE001
            return f"decode(encode(obj)) raised {type(e).__name__}: {str(e)[:150]}"
        if back != obj:
            return f"dict round trip changed the object: {back!r:.300} != {obj!r:.300}"
        try:
            text2 = JsonSerializer(context=XmlContext(models_package=u.modname), dict_factory=fac).render(obj)
            back2 = JsonParser(context=XmlContext(models_package=u.modname)).from_string(text2, clazz)
        except Exception as e:  # noqa: BLE001
            return f"JSON text route raised {type(e).__name__}: {str(e)[:150]}"
        if back2 != obj:
            return f"JSON text round trip changed the object: {back2!r:.300} != {obj!r:.300}"
    return None


def oracle_gen(rng, tier):
    for u, desc, ctx, obj in instances(rng, tier, n_cases(tier, 150, 3000), 5):
        value, target = value_and_target(rng, u, obj)
        yield {"value": value, "target": target, "factory": rng.choice(["dict", "filter_none"]), "desc": desc, "_uni": u.modname}


def oracle_adapt(op, a):
    if op == "dict.dec":
        return None
    t = a.get("target")
    if t is None:
        t = {"list": "Root"} if "list" in a["value"] else {"cls": "Root"}
    return {"value": a["value"], "target": t, "factory": a.get("factory", "dict"), "desc": a["desc"], "_uni": a.get("_uni")}


_ROUTE_OF_MSG = (("decode(encode(obj)) raised", "dict"), ("dict round trip changed", "dict"), ("JSON text route raised", "json"),
                 ("JSON text round trip changed", "json"))


def covered(a, msg):
    """a failing input belongs to a listed finding when (1) the value holds the shape the finding describes
    (D.regions, from the class descriptions and the value only), (2) the failure is on the decoding side (both
    findings are: the encoded form is faithful and JSON-native there), and (3) the outcome observed on the real code
    is one the model of the unchanged code predicts for this very input, and that prediction is itself not the
    identity (replay of the model through the driver op dict.roundtrip). A failure of another kind on an input
    of the region (encoder trouble, another exception, a result the unchanged code can not give) is reported."""
    u = uni_of(a)
    r = D.regions(u, a["value"], a.get("factory", "dict"))
    if not r:
        return None
    route = next((rt for pre, rt in _ROUTE_OF_MSG if msg.startswith(pre)), None)
    if route is None:
        return None
    # the admissible results multiply over the ambiguous objects of a document (3 candidates each in a two-level
    # subclass chain): a list document is replayed item by item, the items decode independently
    value, target = a["value"], a["target"]
    if isinstance(value, dict) and "list" in value and target and "list" in target:
        parts = [(v, {"cls": target["list"]}) for v in value["list"]]
    else:
        parts = [(value, target)]
    ctx = D.export_ctx(u)
    from framework import Driver

    changed = False
    for v, t in parts:
        if _ambiguous_objects(v) > 9:
            # more than 3^9 admissible results: not enumerable in the time of a check; the item is attributed by its
            # region alone (the predicate used before the replay was introduced)
            changed = True
            continue
        args = {"ctx": ctx, "value": v, "target": t, "factory": a.get("factory", "dict"), "config": {},
                "ignore_default_attributes": False, "route": route, "desc": a.get("desc"), "_uni": a.get("_uni")}
        try:
            mo = Driver().run([{"op": "dict.roundtrip", "args": args}])[0]
        except Exception:  # noqa: BLE001  (no driver: nothing can be attributed to a finding)
            return None
        io = impl_rt(args)
        if unsupported(mo) or not isinstance(mo, dict):
            return None
        if "ok" in mo:
            if mo["ok"] != [v]:
                changed = True
            if "ok" not in io or io["ok"] not in mo["ok"]:
                return None
        else:
            changed = True
            if mo != io:
                return None
    if not changed:
        return None  # the unchanged code round-trips this input
    return sorted(r)[0]


def _ambiguous_objects(v):
    """number of model instances in the value (each may have several admissible classes)"""
    if isinstance(v, dict):
        if "obj" in v:
            return 1 + sum(_ambiguous_objects(x) for _, x in v["fields"])
        if "list" in v:
            return sum(_ambiguous_objects(x) for x in v["list"])
        if "derived" in v:
            return _ambiguous_objects(v["derived"]["value"])
    return 0


# ------------------------------------------------------------------ known findings (replayed on the real code)
# the witnesses are the universes of lean/XsdataModel/Proofs/C04Witness.lean (generated from the same
# descriptions by harness/c04_witness.py)
import c04_witness as W  # noqa: E402


def _rt(desc, value, factory="dict"):
    """real dictionary round trip of a witness -> ("ok", value) | ("err", name)"""
    u = B.Universe(desc)
    try:
        data = D.real_encode(u, value, factory)
        r = D.real_decode(u, data, {"cls": value["obj"]})
        return "ok", D.result_val(u, r), data
    except Exception as e:  # noqa: BLE001
        return "err", type(e).__name__, None
    finally:
        u.close()


def finding_subclass():
    """`P(c=Ch(v=1))` -> `{"c": {"v": 1}}` -> `P(c=Ch2(v=1, w=None))` when the set of candidate classes
    yields Ch2 first: both orders are forced through bind_best_dataclass, then looked for end to end"""
    from xsdata.formats.dataclass.context import XmlContext
    from xsdata.formats.dataclass.parsers import DictDecoder

    u = B.Universe(W.SUB_DESC)
    try:
        dec = DictDecoder(context=XmlContext(models_package=u.modname))
        ch, ch2 = u.classes["Ch"], u.classes["Ch2"]
        a = dec.bind_best_dataclass({"v": 1}, [ch, ch2])
        b = dec.bind_best_dataclass({"v": 1}, [ch2, ch])
        order_dependent = type(a) is ch and type(b) is ch2
    finally:
        u.close()
    seen = set()
    for _ in range(300):
        k, v, _d = _rt(W.SUB_DESC, W.SUB_VALUE)
        seen.add(json.dumps(v, sort_keys=True))
        if len(seen) > 1:
            break
    changed = any(json.loads(s) != W.SUB_VALUE for s in seen)
    return order_dependent and changed, f"order_dependent={order_dependent}, distinct end-to-end results over fresh class sets={len(seen)}"


def finding_derived():
    """a model instance under a wildcard — wrapped in a DerivedElement without xsi:type, or plain as the
    XML parser leaves a known element — does not decode: the candidates are the parent's element types"""
    k, v, _ = _rt(W.DER_DESC, W.DER_VALUE)
    plain = {"obj": "WL", "fields": [["any", {"list": [{"obj": "X", "fields": [["a", {"int": 1}]]}]}]]}
    k2, v2, _ = _rt(W.DER_DESC, plain)
    return (k, v) == ("err", "ParserError") and (k2, v2) == ("err", "ParserError"), f"derived: {k} {v}; plain: {k2} {v2}"


def oracle_rich_check(a):
    o = R.run(a)
    bad = {k: v for k, v in o.items() if v != R.EXPECTED[k]}
    if not bad:
        return None
    return f"{json.dumps(bad)[:600]} on {json.dumps(R.show(a), ensure_ascii=False)[:900]}"


def oracle_rich_gen(rng, tier):
    for i in range(n_cases(tier, 1500, 20000)):
        yield {"seed": rng.randrange(10**9), "factory": rng.choice(["dict", "filter_none"]), "doc": "list" if i % 4 == 0 else "single"}


def covered_rich(a, msg):
    r = R.expected(a)
    return r.get("unspecified")


def finding_fixed_nan():
    """a fixed (init=False) field whose value is a Decimal NaN, or a token list holding a NaN, fails its own fixed-value check"""
    from dataclasses import dataclass, field
    from decimal import Decimal
    from typing import List

    from xsdata.formats.dataclass.parsers import DictDecoder
    from xsdata.formats.dataclass.serializers import DictEncoder

    @dataclass
    class F:
        d: Decimal = field(init=False, default=Decimal("NaN"), metadata={"type": "Attribute"})

    @dataclass
    class T:
        t: List[float] = field(init=False, default_factory=lambda: [float("nan")], metadata={"type": "Attribute", "tokens": True})

    @dataclass
    class S:
        f: float = field(init=False, default=float("nan"), metadata={"type": "Attribute"})

    out = []
    for cls in (F, T, S):
        try:
            DictDecoder().decode(DictEncoder().encode(cls()), cls)
            out.append("ok")
        except Exception as e:  # noqa: BLE001
            out.append(type(e).__name__)
    return out == ["ParserError", "ParserError", "ok"], f"Decimal NaN: {out[0]}; token list with nan: {out[1]}; float nan: {out[2]}"


FINDINGS = {
    "C04-fixed-nan": finding_fixed_nan,
    "C04-subclass-ambiguity": finding_subclass,
    "C04-derived-without-type": finding_derived,
}

ORACLES = [
    Oracle("dict_json_roundtrip", oracle_gen, oracle_check, covered=covered, from_ops=("dict.roundtrip", "dict.enc"), adapt=oracle_adapt),
    Oracle("rich_types_roundtrip", oracle_rich_gen, oracle_rich_check, covered=covered_rich, from_ops=("c04.e2e",)),
    Oracle("shared_context_roundtrip", gen_shared, oracle_shared_check, from_ops=("c04.shared",)),
]
