/-
Spec — what an XML 1.0 + Namespaces 1.0 processor makes of a token list, and
what a reader of the writer events expects.  Written without reference to the
writer model: `infoset` only looks at written names, declarations and values.

* `infoset toks = some n`  ⇔ the token list is a namespace-well-formed document
  with document element `n` (`nsWellFormed toks`).
* `eventsTree env es`     the tree an event list denotes (independent reading).
-/
import XsdataModel.Xml.Writer

namespace Spec.XmlNs
open Py Xs.Ns Xs.Sax Xs.Writer

/-! ### lexical classes (XML 1.0 fifth edition) -/

def inR (n lo hi : Nat) : Bool := lo ≤ n && n ≤ hi

/-- NameStartChar without ':' -/
def isNameStartChar (c : Char) : Bool :=
  let n := c.toNat
  inR n 65 90 || n == 95 || inR n 97 122 || inR n 0xC0 0xD6 || inR n 0xD8 0xF6 || inR n 0xF8 0x2FF
  || inR n 0x370 0x37D || inR n 0x37F 0x1FFF || inR n 0x200C 0x200D || inR n 0x2070 0x218F
  || inR n 0x2C00 0x2FEF || inR n 0x3001 0xD7FF || inR n 0xF900 0xFDCF || inR n 0xFDF0 0xFFFD
  || inR n 0x10000 0xEFFFF

/-- NameChar without ':' -/
def isNameChar (c : Char) : Bool :=
  let n := c.toNat
  isNameStartChar c || n == 45 || n == 46 || inR n 48 57 || n == 0xB7 || inR n 0x300 0x36F
  || inR n 0x203F 0x2040

def isNCName : Str → Bool
  | [] => false
  | c :: cs => isNameStartChar c && cs.all isNameChar

/-- production [2] Char -/
def isXmlChar (c : Char) : Bool :=
  let n := c.toNat
  n == 9 || n == 10 || n == 13 || inR n 0x20 0xD7FF || inR n 0xE000 0xFFFD || inR n 0x10000 0x10FFFF

def xmlChars (s : Str) : Bool := s.all isXmlChar

def isXmlSpace (c : Char) : Bool := c == ' ' || c == '\t' || c == '\n' || c == '\r'

/-- characters a namespace name may consist of (the writer escapes markup, quotes and
blanks in the declaration since the repair of c03-uri-markup) -/
def uriSafe (s : Str) : Bool := s.all isXmlChar

def xmlPrefix : Str := ['x', 'm', 'l']
def xmlnsPrefix : Str := ['x', 'm', 'l', 'n', 's']
def xmlNsUri : Str := ['h', 't', 't', 'p', ':', '/', '/', 'w', 'w', 'w', '.', 'w', '3', '.', 'o', 'r', 'g', '/', 'X', 'M', 'L', '/', '1', '9', '9', '8', '/', 'n', 'a', 'm', 'e', 's', 'p', 'a', 'c', 'e']
def xmlnsNsUri : Str := ['h', 't', 't', 'p', ':', '/', '/', 'w', 'w', 'w', '.', 'w', '3', '.', 'o', 'r', 'g', '/', '2', '0', '0', '0', '/', 'x', 'm', 'l', 'n', 's', '/']

/-- end-of-line handling (XML 1.0 §2.11) on character data -/
def normEol : Str → Str
  | [] => []
  | '\r' :: '\n' :: r => '\n' :: normEol r
  | '\r' :: r => '\n' :: normEol r
  | c :: r => c :: normEol r

/-! ### the infoset -/

inductive Node
  | elem (name : EName) (attrs : List (EName × Str)) (kids : List Node)
  | text (s : Str)
  deriving Repr

/-- append character data to a reversed child list, merging adjacent text -/
def addText (s : Str) : List Node → List Node
  | .text t :: r => .text (t ++ s) :: r
  | ks => .text s :: ks

/-- an open element while reading -/
structure Frame where
  /-- name as written (an end tag must repeat it) -/
  wname : Str
  name : EName
  attrs : List (EName × Str)
  kidsRev : List Node
  /-- namespace bindings in scope: prefix ↦ uri (`none ↦ ""`: default undeclared) -/
  scope : List (Pfx × Str)

/-- split a written name at its first colon -/
def splitColon (w : Str) : Option Str × Str :=
  let l := w.takeWhile (· ≠ ':')
  let r := w.dropWhile (· ≠ ':')
  match r with
  | [] => (none, l)
  | _ :: rest => (some l, rest)

/-- Namespaces in XML 1.0 §3: constraints on a single declaration -/
def declOK : Pfx × Str → Bool
  | (none, uri) => uriSafe uri && uri != xmlNsUri && uri != xmlnsNsUri
  | (some p, uri) =>
    isNCName p && p != xmlnsPrefix && !uri.isEmpty && uriSafe uri && uri != xmlnsNsUri
    && ((p == xmlPrefix) == (uri == xmlNsUri))

def nodupKeys {α β : Type} [DecidableEq α] : List (α × β) → Bool
  | [] => true
  | (k, _) :: r => !(r.any (fun e => e.1 = k)) && nodupKeys r

def applyDecls (scope : List (Pfx × Str)) : List (Pfx × Str) → List (Pfx × Str)
  | [] => scope
  | (p, u) :: r => applyDecls (dset scope p u) r

/-- expanded name of a written element name -/
def resolveElem (scope : List (Pfx × Str)) (w : Str) : Option EName :=
  match splitColon w with
  | (none, l) =>
    if !isNCName l then none
    else match dget scope none with
      | some u => if u.isEmpty then some (none, l) else some (some u, l)
      | none => some (none, l)
  | (some p, l) =>
    if !isNCName p || !isNCName l || p == xmlnsPrefix then none
    else if p == xmlPrefix then some (some xmlNsUri, l)
    else match dget scope (some p) with
      | some u => if u.isEmpty then none else some (some u, l)
      | none => none

/-- expanded name of a written attribute name (no default namespace) -/
def resolveAttr (scope : List (Pfx × Str)) (w : Str) : Option EName :=
  match splitColon w with
  | (none, l) => if isNCName l && l != xmlnsPrefix then some (none, l) else none
  | (some _, _) => resolveElem scope w

def resolveAttrs (scope : List (Pfx × Str)) : List (Str × Str) → Option (List (EName × Str))
  | [] => some []
  | (w, v) :: r =>
    match resolveAttr scope w, resolveAttrs scope r with
    | some n, some r' => if xmlChars v then some ((n, v) :: r') else none
    | _, _ => none

/-- reading state: open elements (innermost first), the finished document
element, and whether the previous token was character data ending in `\r`
(a following `\n` then belongs to the same line end, XML 1.0 §2.11) -/
structure PState where
  stack : List Frame
  root : Option Node
  lastCR : Bool := false

def closeFrame (f : Frame) : Node := .elem f.name f.attrs f.kidsRev.reverse

/-- character data as the processor reports it: line ends normalised, also
across two adjacent tokens -/
def eolChunk (lastCR : Bool) (s : Str) : Str :=
  normEol (if lastCR && s.head? == some '\n' then s.drop 1 else s)

def addChunk (lastCR : Bool) (s : Str) (kidsRev : List Node) : List Node :=
  let t := eolChunk lastCR s
  if t.isEmpty then kidsRev else addText t kidsRev

/-- one token; `none` = not (namespace-)well-formed -/
def pStep (st : PState) : Tok → Option PState
  | .open_ w decls attrs =>
    if st.stack.isEmpty && st.root.isSome then none          -- second document element
    else if !(decls.all declOK && nodupKeys decls) then none
    else
      let parentScope := match st.stack with
        | f :: _ => f.scope
        | [] => []
      let scope := applyDecls parentScope decls
      match resolveElem scope w, resolveAttrs scope attrs with
      | some n, some as =>
        if nodupKeys as then some { st with stack := ⟨w, n, as, [], scope⟩ :: st.stack, lastCR := false } else none
      | _, _ => none
  | .text s =>
    match st.stack with
    | [] => if s.all isXmlSpace then some st else none        -- only blanks outside the root
    | f :: r =>
      -- written with `\r` as a character reference: no end-of-line normalisation applies
      if xmlChars s then
        some { st with stack := { f with kidsRev := (if s.isEmpty then f.kidsRev else addText s f.kidsRev) } :: r,
                       lastCR := false }
      else none
  | .raw s =>
    if !s.all isXmlSpace then none                            -- unescaped, so only blanks are safe
    else match st.stack with
      | [] => some st
      | f :: r => some { st with stack := { f with kidsRev := addChunk st.lastCR s f.kidsRev } :: r,
                                 lastCR := s.getLast? == some '\r' }
  | .close w =>
    match st.stack with
    | [] => none
    | f :: r =>
      if f.wname != w then none
      else match r with
        | [] => some { stack := [], root := some (closeFrame f), lastCR := false }
        | g :: r' => some { st with stack := { g with kidsRev := closeFrame f :: g.kidsRev } :: r', lastCR := false }

def pRun : PState → List Tok → Option PState
  | st, [] => some st
  | st, t :: r =>
    match pStep st t with
    | some st' => pRun st' r
    | none => none

/-- the document element the token list denotes, if it is namespace-well-formed -/
def infoset (toks : List Tok) : Option Node :=
  match pRun ⟨[], none, false⟩ toks with
  | some ⟨[], some n, _⟩ => some n
  | _ => none

def nsWellFormed (toks : List Tok) : Bool := (infoset toks).isSome

/-! ### the tree an event list denotes -/

/-- Clark notation `{uri}local` → expanded name, local part must be an NCName -/
def clark (q : Str) : Option EName :=
  match q with
  | '{' :: rest =>
    let u := rest.takeWhile (· ≠ '}')
    match rest.dropWhile (· ≠ '}') with
    | _ :: l => if !u.isEmpty && isNCName l then some (some u, l) else none
    | [] => none
  | _ => if isNCName q then some (none, q) else none

/-- lexical form of a value that needs no namespace context -/
def atomText : Atom → Option Str
  | .str s => some s
  | .int i => some (intStr i)
  | .bool b => some (if b then ['t', 'r', 'u', 'e'] else ['f', 'a', 'l', 's', 'e'])
  | .qname _ => none

def atomsText : List Atom → Option (List Str)
  | [] => some []
  | a :: r => match atomText a, atomsText r with
    | some s, some ss => some (s :: ss)
    | _, _ => none

/-- `some none`: no value (None / empty list); `none`: needs a namespace context -/
def valText : Val → Option (Option Str)
  | .none => some none
  | .list [] => some none
  | .atom a => (atomText a).map some
  | .list xs => (atomsText xs).map (fun ss => some (joinStr [' '] ss))

/-- open element while reading events -/
structure EFrame where
  qname : Str
  name : EName
  attrs : List (EName × Str)
  kidsRev : List Node
  /-- a DATA or child START has been seen: attributes are no longer allowed -/
  started : Bool
  /-- the previous event was a DATA event of this element -/
  afterData : Bool

structure EState where
  stack : List EFrame
  root : Option Node
  /-- attributes announced before the first START (`root=True` in the code) -/
  rootAttrs : List (EName × Str)

def closeEFrame (f : EFrame) : Node := .elem f.name f.attrs f.kidsRev.reverse

/-- first content: an `xsi:nil` marker stays only on an element without content -/
def dropNil (xsiNil : EName) (hasContent : Bool) (f : EFrame) : EFrame :=
  if !f.started && hasContent then { f with attrs := dpop f.attrs xsiNil, started := true }
  else { f with started := true }

/-- one event; `none` = the list is outside the fragment this reading covers -/
def eStep (xsiNil : EName) (st : EState) : Ev → Option EState
  | .start q =>
    match clark q with
    | none => none
    | some n =>
      match st.stack with
      | [] =>
        if st.root.isSome then none
        else some { st with stack := [⟨q, n, st.rootAttrs, [], false, false⟩] }
      | f :: r =>
        let f' := { dropNil xsiNil true f with afterData := false }
        some { st with stack := ⟨q, n, [], [], false, false⟩ :: f' :: r }
  | .attr q v =>
    match st.stack, clark q, valText v with
    | f :: r, some n, some (some s) =>
      if f.started || s.head? == some '{' then none
      else some { st with stack := { f with attrs := dset f.attrs n s } :: r }
    | _, _, _ => none
  | .data v =>
    match st.stack, valText v with
    | f :: r, some val =>
      let f1 := dropNil xsiNil val.isSome f
      match val with
      | some s =>
        if s.isEmpty then some { st with stack := { f1 with afterData := true } :: r }
        else some { st with stack := { f1 with kidsRev := addText s f1.kidsRev, afterData := true } :: r }
      | none => some { st with stack := { f1 with afterData := true } :: r }
    | _, _ => none
  | .end_ q =>
    match st.stack with
    | [] => none
    | f :: r =>
      if f.qname != q then none
      else match r with
        | [] => some { st with stack := [], root := some (closeEFrame f) }
        | g :: r' => some { st with stack := { g with kidsRev := closeEFrame f :: g.kidsRev, afterData := false } :: r' }
  | .unknown => none

def eRun (xsiNil : EName) : EState → List Ev → Option EState
  | st, [] => some st
  | st, e :: r =>
    match eStep xsiNil st e with
    | some st' => eRun xsiNil st' r
    | none => none

/-- attributes the configuration puts on the document element -/
def cfgRootAttrs (env : NsEnv) (cfg : Cfg) : List (EName × Str) :=
  let xsi := env.xsiNil.1
  let a1 := match cfg.schemaLocation with
    | some loc => if loc.isEmpty then [] else [((some xsi, ['s', 'c', 'h', 'e', 'm', 'a', 'L', 'o', 'c', 'a', 't', 'i', 'o', 'n']), loc)]
    | none => []
  let a2 := match cfg.noNsSchemaLocation with
    | some loc => if loc.isEmpty then [] else [((some xsi, ['n', 'o', 'N', 'a', 'm', 'e', 's', 'p', 'a', 'c', 'e', 'S', 'c', 'h', 'e', 'm', 'a', 'L', 'o', 'c', 'a', 't', 'i', 'o', 'n']), loc)]
    | none => []
  a1 ++ a2

/-- the document element an event list denotes: START/END nest, ATTR events
follow their START, DATA is character content, values are taken literally -/
def eventsTree (env : NsEnv) (cfg : Cfg) (es : List Ev) : Option Node :=
  match eRun (some env.xsiNil.1, env.xsiNil.2) ⟨[], none, cfgRootAttrs env cfg⟩ es with
  | some ⟨[], some n, _⟩ => some n
  | _ => none

end Spec.XmlNs

namespace Spec.XmlNs
open Py Xs.Ns Xs.Sax Xs.Writer

/-! ### the tree a SAX call sequence denotes (names are already expanded) -/

structure SFrame where
  name : EName
  attrs : List (EName × Str)
  kidsRev : List Node

def someVals : List (EName × Option Str) → Option (List (EName × Str))
  | [] => some []
  | (n, some v) :: r => (someVals r).map ((n, v) :: ·)
  | (_, none) :: _ => none

def sStep (st : List SFrame × Option Node) : Call → Option (List SFrame × Option Node)
  | .startPrefix _ _ => some st
  | .endPrefix _ => some st
  | .startElem n attrs =>
    match someVals attrs with
    | none => none
    | some as => if st.1.isEmpty && st.2.isSome then none else some (⟨n, as, []⟩ :: st.1, st.2)
  | .endElem n =>
    match st.1 with
    | [] => none
    | f :: r =>
      if f.name != n then none
      else
        let node := Node.elem f.name f.attrs f.kidsRev.reverse
        match r with
        | [] => some ([], some node)
        | g :: r' => some ({ g with kidsRev := node :: g.kidsRev } :: r', st.2)
  | .chars s =>
    match st.1 with
    | [] => none
    | f :: r => some ({ f with kidsRev := addText s f.kidsRev } :: r, st.2)
  | .ws s =>
    match st.1 with
    | [] => some st
    | f :: r => some ({ f with kidsRev := addText s f.kidsRev } :: r, st.2)

def sRun : List SFrame × Option Node → List Call → Option (List SFrame × Option Node)
  | st, [] => some st
  | st, c :: r => match sStep st c with
    | some st' => sRun st' r
    | none => none

def saxTree (calls : List Call) : Option Node :=
  match sRun ([], none) calls with
  | some ([], some n) => some n
  | _ => none

end Spec.XmlNs

namespace Spec.XmlNs
open Py

/-! ### reading escaped character data back (XML 1.0 §4.1, §4.6) -/

/-- Decoder for the references the writer emits: `&amp; &lt; &gt; &quot; &#10; &#13; &#9;`.
`none`: a bare `<` or an `&` that does not start one of these references. -/
def decodeRefs : Str → Option Str
  | [] => some []
  | '&' :: 'a' :: 'm' :: 'p' :: ';' :: r => (decodeRefs r).map ('&' :: ·)
  | '&' :: 'l' :: 't' :: ';' :: r => (decodeRefs r).map ('<' :: ·)
  | '&' :: 'g' :: 't' :: ';' :: r => (decodeRefs r).map ('>' :: ·)
  | '&' :: 'q' :: 'u' :: 'o' :: 't' :: ';' :: r => (decodeRefs r).map ('"' :: ·)
  | '&' :: '#' :: '1' :: '0' :: ';' :: r => (decodeRefs r).map ('\n' :: ·)
  | '&' :: '#' :: '1' :: '3' :: ';' :: r => (decodeRefs r).map ('\r' :: ·)
  | '&' :: '#' :: '9' :: ';' :: r => (decodeRefs r).map ('\t' :: ·)
  | '&' :: _ => none
  | '<' :: _ => none
  | c :: r => (decodeRefs r).map (c :: ·)

end Spec.XmlNs
