/- C09 helper lemmas: the parameter dictionary of an `ElementNode` is only ever read by key
(`Params.get` / `has` / `set`), and `bind_attrs` treats attributes with different
names independently; hence the order of the attributes does not matter. -/
import XsdataModel.Bind.Parse

namespace Proofs.C09
open Py Xs.Bind

/-! ### the parameter dictionary -/

theorem Params.has_eq (p : Params) (k : Str) : p.has k = (p.get k).isSome := by
  unfold Params.has Params.get
  induction p with
  | nil => rfl
  | cons x xs ih =>
    by_cases h : x.1 = k <;> simp [List.find?_cons, h, ih]

/-- the update function of `Params.set` -/
def upd (k : Str) (v : Val) (x : Str × Val) : Str × Val := if x.1 = k then (x.1, v) else (x.1, x.2)

theorem upd_fst (k : Str) (v : Val) (x : Str × Val) : (upd k v x).1 = x.1 := by
  unfold upd; split <;> rfl

theorem upd_snd (k : Str) (v : Val) (x : Str × Val) : (upd k v x).2 = if x.1 = k then v else x.2 := by
  unfold upd; split <;> rfl

theorem map_find_aux (p : Params) (k k' : Str) (v : Val) :
    ((p.map (upd k v)).find? (·.1 = k')).map (·.2) =
      if k' = k then (if p.any (·.1 = k) then some v else none) else (p.find? (·.1 = k')).map (·.2) := by
  induction p with
  | nil => by_cases h : k' = k <;> simp [h]
  | cons x xs ih =>
    simp only [List.map_cons, List.find?_cons, List.any_cons, upd_fst]
    by_cases hx' : x.1 = k'
    · simp only [hx', decide_true, Option.map_some, upd_snd]
      by_cases hk : k' = k
      · simp [hk]
      · simp [hk]
    · simp only [hx', decide_false]
      rw [ih]
      by_cases hk : k' = k
      · subst hk
        split <;> (try split) <;> simp_all
      · simp [hk]

theorem Params.get_set (p : Params) (k k' : Str) (v : Val) :
    (p.set k v).get k' = if k' = k then some v else p.get k' := by
  unfold Params.set
  by_cases hh : p.has k = true
  · simp only [hh, if_true]
    have := map_find_aux p k k' v
    unfold Params.has at hh
    unfold Params.get
    simp only [hh, if_true] at this
    exact this
  · simp only [hh, Bool.false_eq_true, if_false]
    unfold Params.get
    have hnone : p.find? (·.1 = k) = none := by
      unfold Params.has at hh
      simp only [Bool.not_eq_true, List.any_eq_false, decide_eq_true_eq] at hh
      simp only [List.find?_eq_none, decide_eq_true_eq]
      exact hh
    by_cases hk : k' = k
    · subst hk
      simp [List.find?_append, hnone]
    · have : ¬ k = k' := fun h => hk h.symm
      simp [List.find?_append, hk, this]

/-- two parameter dictionaries with the same content (order of insertion forgotten) -/
def PEq (p p' : Params) : Prop := ∀ k, p.get k = p'.get k

theorem PEq.refl (p : Params) : PEq p p := fun _ => rfl
theorem PEq.symm {p p' : Params} (h : PEq p p') : PEq p' p := fun k => (h k).symm
theorem PEq.trans {p p' p'' : Params} (h : PEq p p') (h' : PEq p' p'') : PEq p p'' := fun k => (h k).trans (h' k)

theorem PEq.has {p p' : Params} (h : PEq p p') (k : Str) : p.has k = p'.has k := by
  rw [Params.has_eq, Params.has_eq, h k]

theorem PEq.set {p p' : Params} (h : PEq p p') (k : Str) (v : Val) : PEq (p.set k v) (p'.set k v) := by
  intro k'
  rw [Params.get_set, Params.get_set, h k']

/-! ### relations on results -/

/-- both fail with the same error, or both succeed with related values -/
def ExRel {α β} (R : α → β → Prop) : Except Err α → Except Err β → Prop
  | .ok a, .ok b => R a b
  | .error e, .error e' => e = e'
  | _, _ => False

/-- both fail (with whatever error), or both succeed with related values -/
def WRel {α β} (R : α → β → Prop) : Except Err α → Except Err β → Prop
  | .ok a, .ok b => R a b
  | .error _, .error _ => True
  | _, _ => False

theorem ExRel.bind {α β γ δ} {R : α → β → Prop} {S : γ → δ → Prop} {x : Except Err α} {y : Except Err β}
    {f : α → Except Err γ} {g : β → Except Err δ} (hxy : ExRel R x y)
    (hfg : ∀ a b, R a b → ExRel S (f a) (g b)) : ExRel S (x >>= f) (y >>= g) := by
  cases x with
  | error ex => cases y with
    | error ey => exact hxy
    | ok b => exact False.elim hxy
  | ok a => cases y with
    | error ey => exact False.elim hxy
    | ok b => exact hfg a b hxy

theorem ExRel.eq_of {α} {x y : Except Err α} (h : ExRel (· = ·) x y) : x = y := by
  cases x <;> cases y <;> simp_all [ExRel]

theorem ExRel.of_eq {α} {R : α → α → Prop} (hR : ∀ a, R a a) (x : Except Err α) : ExRel R x x := by
  cases x <;> simp [ExRel, hR]

theorem WRel.bind {α β γ δ} {R : α → β → Prop} {S : γ → δ → Prop} {x : Except Err α} {y : Except Err β}
    {f : α → Except Err γ} {g : β → Except Err δ} (hxy : WRel R x y)
    (hfg : ∀ a b, R a b → WRel S (f a) (g b)) : WRel S (x >>= f) (y >>= g) := by
  cases x with
  | error ex => cases y with
    | error ey => exact hxy
    | ok b => exact False.elim hxy
  | ok a => cases y with
    | error ey => exact False.elim hxy
    | ok b => exact hfg a b hxy

theorem WRel.of_ExRel {α β} {R : α → β → Prop} {x : Except Err α} {y : Except Err β} (h : ExRel R x y) :
    WRel R x y := by
  cases x <;> cases y <;> simp_all [ExRel, WRel]

theorem WRel.toOption {α} {x y : Except Err α} (h : WRel (· = ·) x y) : x.toOption = y.toOption := by
  cases x <;> cases y <;> simp_all [WRel, Except.toOption]

theorem WRel.trans {α} {R : α → α → Prop} (hR : ∀ a b c, R a b → R b c → R a c) {x y z : Except Err α}
    (h1 : WRel R x y) (h2 : WRel R y z) : WRel R x z := by
  cases x <;> cases y <;> cases z <;> simp_all [WRel]
  exact hR _ _ _ h1 h2

/-! ### the binding steps read the dictionary by key only -/

theorem bindVar_peq {p p' : Params} (h : PEq p p') (var : XmlVar) (v : Val) :
    (bindVar p var v).1 = (bindVar p' var v).1 ∧ PEq (bindVar p var v).2 (bindVar p' var v).2 := by
  unfold bindVar
  by_cases hi : var.init = true
  · by_cases hl : var.listElement = true
    · simp only [hi, hl, if_true, h var.name]
      split <;> exact ⟨by trivial, h.set _ _⟩
    · simp only [hi, hl, if_true, Bool.false_eq_true, if_false, h.has var.name]
      split
      · exact ⟨by trivial, h.set _ _⟩
      · exact ⟨by trivial, h⟩
  · simp only [hi, Bool.false_eq_true, if_false]
    exact ⟨by trivial, h⟩

theorem bindWildVar_peq {p p' : Params} (h : PEq p p') (var : XmlVar) (q : Option QN) (v : Val) :
    ExRel PEq (bindWildVar p var q v) (bindWildVar p' var q v) := by
  unfold bindWildVar
  apply ExRel.bind (R := (· = ·)) (ExRel.of_eq (fun _ => rfl) _)
  intro a b hab
  subst hab
  simp only [h var.name]
  split
  · split <;> exact h.set _ _
  · split
    · split <;> exact h.set _ _
    · exact h.set _ _

def BPRel (r r' : Bool × Params) : Prop := r.1 = r'.1 ∧ PEq r.2 r'.2

theorem bindObject_go_peq {p p' : Params} (h : PEq p p') (v : Val) (w : Option QN) (q : QN) (vars : List XmlVar) :
    ExRel BPRel (bindObject.go p v w q vars) (bindObject.go p' v w q vars) := by
  induction vars with
  | nil => simp only [bindObject.go]; exact ⟨rfl, h⟩
  | cons var rest ih =>
    simp only [bindObject.go]
    split
    · exact ih
    · split
      · have := bindWildVar_peq h var (some q) v
        revert this
        cases bindWildVar p var (some q) v <;> cases bindWildVar p' var (some q) v <;> simp [ExRel, BPRel]
      · have := bindVar_peq h var v
        rw [← this.1]
        split
        · exact ⟨rfl, this.2⟩
        · exact ih

def BPWRel (r r' : Bool × Params × List (QN × List QN)) : Prop := r.1 = r'.1 ∧ PEq r.2.1 r'.2.1 ∧ r.2.2 = r'.2.2

theorem bindObject_peq (m : XmlMeta) (ws : List (QN × List QN)) {p p' : Params} (h : PEq p p') (q : Option QN) (v : Val) :
    ExRel BPWRel (bindObject m ws p q v) (bindObject m ws p' q v) := by
  unfold bindObject
  cases q with
  | none => exact ⟨rfl, h, rfl⟩
  | some q' =>
    simp only
    apply ExRel.bind (bindObject_go_peq h v _ q' _)
    intro a b hab
    exact ⟨hab.1, hab.2, rfl⟩

def SRel (s s' : Params × List (QN × List QN)) : Prop := PEq s.1 s'.1 ∧ s.2 = s'.2

theorem foldl_bindObject_peq (m : XmlMeta) (objs : Objs) : ∀ s s', SRel s s' →
    ExRel SRel
      (objs.foldlM (fun (acc : Params × List (QN × List QN)) (qv : Option QN × Val) =>
        bindObject m acc.2 acc.1 qv.1 qv.2 >>= fun x => pure (x.2.1, x.2.2)) s)
      (objs.foldlM (fun (acc : Params × List (QN × List QN)) (qv : Option QN × Val) =>
        bindObject m acc.2 acc.1 qv.1 qv.2 >>= fun x => pure (x.2.1, x.2.2)) s') := by
  induction objs with
  | nil => intro s s' h; exact h
  | cons o rest ih =>
    intro s s' h
    simp only [List.foldlM_cons]
    apply ExRel.bind (R := SRel)
    · apply ExRel.bind (R := BPWRel)
      · rw [h.2]; exact bindObject_peq m _ h.1 _ _
      · intro a b hab; exact ⟨hab.2.1, hab.2.2⟩
    · intro a b hab; exact ih a b hab

def TRel (r r' : Bool × Params × Nat) : Prop := r.1 = r'.1 ∧ PEq r.2.1 r'.2.1 ∧ r.2.2 = r'.2.2

theorem bindText_jp_peq (e : BEnv) (var : XmlVar) {p p' : Params} (h : PEq p p') (r : Parsed) :
    ExRel TRel
      (if var.init = true then (pure (true, p.set var.name r.val, if r.warned = true then 1 else 0) : Except Err _)
       else do
          validateFixed e.py var.toVarCore r.val
          pure (true, p, if r.warned = true then 1 else 0))
      (if var.init = true then (pure (true, p'.set var.name r.val, if r.warned = true then 1 else 0) : Except Err _)
       else do
          validateFixed e.py var.toVarCore r.val
          pure (true, p', if r.warned = true then 1 else 0)) := by
  by_cases hi : var.init = true
  · simp only [hi, if_true]
    exact ⟨rfl, h.set _ _, rfl⟩
  · simp only [hi, Bool.false_eq_true, if_false]
    cases hv : validateFixed e.py var.toVarCore r.val with
    | error err => exact rfl
    | ok u => exact ⟨rfl, h, rfl⟩

theorem bindText_peq (e : BEnv) (cfg : ParserConfig) (m : XmlMeta) (xn : Option Bool) (ns : NsMap) {p p' : Params}
    (h : PEq p p') (t : Option Str) : ExRel TRel (bindText e cfg m xn ns p t) (bindText e cfg m xn ns p' t) := by
  unfold bindText
  cases hm : m.text with
  | none => exact ⟨rfl, h, rfl⟩
  | some var =>
    simp only []
    by_cases c1 : (t.isNone && !decide (xn = some true)) = true
    · simp only [c1, if_true]
      exact ⟨rfl, h, rfl⟩
    · simp only [c1, Bool.false_eq_true, if_false]
      by_cases c3 : (decide (xn = some true) && (t.isNone || decide (t = some [])) && var.tokens) = true
      · simp only [c3, if_true]
        exact ⟨rfl, h, rfl⟩
      simp only [c3, Bool.false_eq_true, if_false]
      by_cases c2 : (decide (xn = some true) && (t.isNone || decide (t = some []))) = true
      · simp only [c2, if_true]
        exact bindText_jp_peq e var h _
      · simp only [c2, Bool.false_eq_true, if_false]
        cases hp : parseVar e cfg var.toVarCore t ns with
        | error err => exact rfl
        | ok r => exact bindText_jp_peq e var h r

theorem classFactory_peq (Γ : Ctx) (c : ClassId) {p p' : Params} (h : PEq p p') :
    classFactory Γ c p = classFactory Γ c p' := by
  unfold classFactory
  simp only [h _]

/-! ### `bind_attrs` as a sequence of keyed actions -/

/-- one step of `ElementNode.bind_attrs` (the body of the loop) -/
def attrStep (e : BEnv) (cfg : ParserConfig) (m : XmlMeta) (nsmap : NsMap) (acc : Params × Nat) (kv : QN × Str) :
    Except Err (Params × Nat) := do
  let (params, warns) := acc
  let (qname, value) := kv
  let direct := match m.findAttribute qname with
    | some var => if !params.has var.name then some var else none
    | none => none
  match direct with
  | some var =>
    let r ← parseVar e cfg var.toVarCore (some value) nsmap
    let warns := warns + (if r.warned then 1 else 0)
    if var.init then return (params.set var.name r.val, warns)
    else do validateFixed e.py var.toVarCore r.val; return (params, warns)
  | none =>
    if qname = xsiType || qname = xsiNil then return (params, warns) else
    match m.findAnyAttributes qname with
    | some var =>
      let cur := match params.get var.name with
        | some (.attrs a) => a
        | _ => []
      let v' := parseAnyAttribute value nsmap
      let cur' := if cur.any (·.1 = qname) then cur.map (fun (k, w) => if k = qname then (k, v') else (k, w))
                  else cur ++ [(qname, v')]
      return (params.set var.name (.attrs cur'), warns)
    | none =>
      if cfg.failOnUnknownAttributes && targetUri qname ≠ some xsiNs then
        throw (.parser "Unknown attribute")
      else return (params, warns)

theorem bindAttrs_eq (e : BEnv) (cfg : ParserConfig) (m : XmlMeta) (attrs : List (QN × Str)) (nsmap : NsMap) :
    bindAttrs e cfg m attrs nsmap = attrs.foldlM (attrStep e cfg m nsmap) ([], 0) := rfl

inductive Act
  | fail (err : Err)
  | skip
  | setv (nm : Str) (val : Val) (w : Nat)
  | keep (w : Nat)

def runAct : Act → Params × Nat → Except Err (Params × Nat)
  | .fail err, _ => .error err
  | .skip, s => .ok s
  | .setv nm val w, s => .ok (s.1.set nm val, s.2 + w)
  | .keep w, s => .ok (s.1, s.2 + w)

def unkAct (cfg : ParserConfig) (q : QN) : Act :=
  if cfg.failOnUnknownAttributes && targetUri q ≠ some xsiNs then .fail (.parser "Unknown attribute") else .skip

def varAct (e : BEnv) (cfg : ParserConfig) (ns : NsMap) (var : XmlVar) (v : Str) : Act :=
  match parseVar e cfg var.toVarCore (some v) ns with
  | .error err => .fail err
  | .ok r =>
    if var.init then .setv var.name r.val (if r.warned then 1 else 0)
    else match validateFixed e.py var.toVarCore r.val with
      | .error err => .fail err
      | .ok _ => .keep (if r.warned then 1 else 0)

def chooseAct (e : BEnv) (cfg : ParserConfig) (m : XmlMeta) (ns : NsMap) (p : Params) (kv : QN × Str) : Act :=
  match m.findAttribute kv.1 with
  | some var => if !p.has var.name then varAct e cfg ns var kv.2 else unkAct cfg kv.1
  | none => unkAct cfg kv.1

theorem findAnyAttributes_nil (m : XmlMeta) (hA : m.anyAttributes = []) (q : QN) : m.findAnyAttributes q = none := by
  simp [XmlMeta.findAnyAttributes, findByNamespace, hA]

theorem attrStep_eq (e : BEnv) (cfg : ParserConfig) (m : XmlMeta) (hA : m.anyAttributes = []) (ns : NsMap)
    (s : Params × Nat) (kv : QN × Str) :
    attrStep e cfg m ns s kv = runAct (chooseAct e cfg m ns s.1 kv) s := by
  obtain ⟨p, n⟩ := s
  obtain ⟨q, v⟩ := kv
  unfold attrStep chooseAct
  simp only [findAnyAttributes_nil m hA]
  have hunk0 : (if (cfg.failOnUnknownAttributes && decide (targetUri q ≠ some xsiNs)) = true then
        (throw (Err.parser "Unknown attribute") : Except Err (Params × Nat)) else pure (p, n)) =
      runAct (unkAct cfg q) (p, n) := by
    unfold unkAct
    split <;> rfl
  -- the control attributes `xsi:type` / `xsi:nil` are skipped before the lookup, like unknown `xsi:` ones
  have hunk : (if (decide (q = xsiType) || decide (q = xsiNil)) = true then (pure (p, n) : Except Err (Params × Nat))
      else if (cfg.failOnUnknownAttributes && decide (targetUri q ≠ some xsiNs)) = true then
        (throw (Err.parser "Unknown attribute") : Except Err (Params × Nat)) else pure (p, n)) =
      runAct (unkAct cfg q) (p, n) := by
    by_cases hq : (decide (q = xsiType) || decide (q = xsiNil)) = true
    · simp only [hq, if_true]
      have hx : targetUri q = some xsiNs := by
        simp only [Bool.or_eq_true, decide_eq_true_eq] at hq
        rcases hq with h | h <;> (rw [h]; decide)
      simp [unkAct, hx, runAct, pure, Except.pure]
    · simp only [hq, Bool.false_eq_true, if_false]
      exact hunk0
  cases hf : m.findAttribute q with
  | none => simpa using hunk
  | some var =>
    by_cases hh : p.has var.name = true
    · simpa [hh] using hunk
    · simp only [hh, Bool.not_false, if_true, Bool.false_eq_true]
      unfold varAct
      cases hp : parseVar e cfg var.toVarCore (some v) ns with
      | error err => rfl
      | ok r =>
        simp only [bind, Except.bind]
        by_cases hi : var.init = true
        · simp [hi, runAct, pure, Except.pure]
        · simp only [hi, Bool.false_eq_true, if_false]
          cases hv : validateFixed e.py var.toVarCore r.val with
          | error err => rfl
          | ok u => rfl

/-- same dictionary content, same number of warnings -/
def SEq (s s' : Params × Nat) : Prop := PEq s.1 s'.1 ∧ s.2 = s'.2

theorem SEq.refl (s : Params × Nat) : SEq s s := ⟨PEq.refl _, rfl⟩
theorem SEq.trans {a b c : Params × Nat} (h : SEq a b) (h' : SEq b c) : SEq a c := ⟨h.1.trans h'.1, h.2.trans h'.2⟩

theorem chooseAct_peq (e : BEnv) (cfg : ParserConfig) (m : XmlMeta) (ns : NsMap) {p p' : Params} (h : PEq p p')
    (kv : QN × Str) : chooseAct e cfg m ns p kv = chooseAct e cfg m ns p' kv := by
  unfold chooseAct
  cases m.findAttribute kv.1 with
  | none => rfl
  | some var => simp only [h.has var.name]

theorem runAct_seq (a : Act) {s s' : Params × Nat} (h : SEq s s') : ExRel SEq (runAct a s) (runAct a s') := by
  cases a with
  | fail err => exact rfl
  | skip => exact h
  | setv nm val w => exact ⟨h.1.set _ _, by rw [h.2]⟩
  | keep w => exact ⟨h.1, by rw [h.2]⟩

theorem attrStep_congr (e : BEnv) (cfg : ParserConfig) (m : XmlMeta) (hA : m.anyAttributes = []) (ns : NsMap)
    {s s' : Params × Nat} (h : SEq s s') (kv : QN × Str) :
    ExRel SEq (attrStep e cfg m ns s kv) (attrStep e cfg m ns s' kv) := by
  rw [attrStep_eq e cfg m hA, attrStep_eq e cfg m hA, chooseAct_peq e cfg m ns h.1 kv]
  exact runAct_seq _ h

theorem foldl_attrStep_congr (e : BEnv) (cfg : ParserConfig) (m : XmlMeta) (hA : m.anyAttributes = []) (ns : NsMap)
    (l : List (QN × Str)) : ∀ s s', SEq s s' →
      ExRel SEq (l.foldlM (attrStep e cfg m ns) s) (l.foldlM (attrStep e cfg m ns) s') := by
  induction l with
  | nil => intro s s' h; exact h
  | cons kv rest ih =>
    intro s s' h
    simp only [List.foldlM_cons]
    exact ExRel.bind (attrStep_congr e cfg m hA ns h kv) (fun a b hab => ih a b hab)

/-- attribute entries with different qualified names belong to fields with different names
(true of every real `XmlMeta`: one entry per attribute field) -/
def attrNamesOk (m : XmlMeta) : Bool :=
  m.attributes.all fun a => m.attributes.all fun b => a.1 = b.1 || a.2.name ≠ b.2.name

theorem findAttribute_names (m : XmlMeta) (hm : attrNamesOk m = true) (q q' : QN) (v v' : XmlVar) (hq : q ≠ q')
    (h : m.findAttribute q = some v) (h' : m.findAttribute q' = some v') : v.name ≠ v'.name := by
  unfold XmlMeta.findAttribute at h h'
  cases hf : m.attributes.find? (·.1 = q) with
  | none => simp [hf] at h
  | some a =>
    cases hf' : m.attributes.find? (·.1 = q') with
    | none => simp [hf'] at h'
    | some b =>
      simp [hf] at h
      simp [hf'] at h'
      subst h; subst h'
      have ha := List.mem_of_find?_eq_some hf
      have hb := List.mem_of_find?_eq_some hf'
      have hqa : a.1 = q := by simpa using List.find?_some hf
      have hqb : b.1 = q' := by simpa using List.find?_some hf'
      simp only [attrNamesOk, List.all_eq_true, Bool.or_eq_true, decide_eq_true_eq] at hm
      rcases hm a ha b hb with h1 | h1
      · exact absurd (hqa ▸ hqb ▸ h1) hq
      · exact h1

/-- the name a `setv` action writes is the field name of the attribute's var -/
theorem chooseAct_setv (e : BEnv) (cfg : ParserConfig) (m : XmlMeta) (ns : NsMap) (p : Params) (kv : QN × Str)
    (nm : Str) (val : Val) (w : Nat) (h : chooseAct e cfg m ns p kv = .setv nm val w) :
    ∃ var, m.findAttribute kv.1 = some var ∧ var.name = nm := by
  unfold chooseAct at h
  have hunk : ∀ q, unkAct cfg q ≠ .setv nm val w := by
    intro q; unfold unkAct; split <;> simp
  cases hf : m.findAttribute kv.1 with
  | none => simp only [hf] at h; exact absurd h (hunk _)
  | some var =>
    simp only [hf] at h
    split at h
    · refine ⟨var, rfl, ?_⟩
      unfold varAct at h
      split at h
      · cases h
      · split at h
        · cases h; rfl
        · split at h <;> cases h
    · exact absurd h (hunk _)

/-- the action chosen for `kv₂` does not change when an action for an attribute with another name has run -/
theorem chooseAct_after (e : BEnv) (cfg : ParserConfig) (m : XmlMeta) (hm : attrNamesOk m = true) (ns : NsMap)
    (s s₁ : Params × Nat) (kv₁ kv₂ : QN × Str) (hk : kv₁.1 ≠ kv₂.1)
    (h : runAct (chooseAct e cfg m ns s.1 kv₁) s = .ok s₁) :
    chooseAct e cfg m ns s₁.1 kv₂ = chooseAct e cfg m ns s.1 kv₂ := by
  cases ha : chooseAct e cfg m ns s.1 kv₁ with
  | fail err => simp [ha, runAct] at h
  | skip => simp [ha, runAct] at h; subst h; rfl
  | keep w => simp [ha, runAct] at h; subst h; rfl
  | setv nm val w =>
    simp [ha, runAct] at h
    subst h
    obtain ⟨var₁, hv₁, hn₁⟩ := chooseAct_setv e cfg m ns s.1 kv₁ nm val w ha
    unfold chooseAct
    cases hf : m.findAttribute kv₂.1 with
    | none => rfl
    | some var₂ =>
      have hne := findAttribute_names m hm kv₁.1 kv₂.1 var₁ var₂ hk hv₁ hf
      have : (s.1.set nm val).has var₂.name = s.1.has var₂.name := by
        rw [Params.has_eq, Params.has_eq, Params.get_set]
        have : ¬ var₂.name = nm := fun hh => hne (hn₁.trans hh.symm)
        simp [this]
      simp only [this]

theorem set_comm (p : Params) (k k' : Str) (v v' : Val) (h : k ≠ k') :
    PEq ((p.set k v).set k' v') ((p.set k' v').set k v) := by
  intro x
  simp only [Params.get_set]
  by_cases h1 : x = k' <;> by_cases h2 : x = k <;> simp_all

/-- two actions that do not write the same name commute (up to which error is reported) -/
theorem runAct_comm (a₁ a₂ : Act) (s : Params × Nat)
    (hd : ∀ nm₁ v₁ w₁ nm₂ v₂ w₂, a₁ = .setv nm₁ v₁ w₁ → a₂ = .setv nm₂ v₂ w₂ → nm₁ ≠ nm₂) :
    WRel SEq (runAct a₁ s >>= runAct a₂) (runAct a₂ s >>= runAct a₁) := by
  cases a₁ <;> cases a₂ <;> simp only [runAct, bind, Except.bind, WRel, SEq]
  all_goals first
    | trivial
    | exact ⟨PEq.refl _, trivial⟩
    | exact PEq.refl _
    | exact ⟨PEq.refl _, rfl⟩
    | exact ⟨PEq.refl _, by omega⟩
    | exact ⟨set_comm _ _ _ _ _ (hd _ _ _ _ _ _ rfl rfl), by omega⟩

theorem two_steps (e : BEnv) (cfg : ParserConfig) (m : XmlMeta) (hm : attrNamesOk m = true)
    (hA : m.anyAttributes = []) (ns : NsMap) (s : Params × Nat) (kv₁ kv₂ : QN × Str) (hk : kv₁.1 ≠ kv₂.1) :
    (attrStep e cfg m ns s kv₁ >>= fun s₁ => attrStep e cfg m ns s₁ kv₂) =
      (runAct (chooseAct e cfg m ns s.1 kv₁) s >>= runAct (chooseAct e cfg m ns s.1 kv₂)) := by
  rw [attrStep_eq e cfg m hA]
  cases h : runAct (chooseAct e cfg m ns s.1 kv₁) s with
  | error err => rfl
  | ok s₁ =>
    show attrStep e cfg m ns s₁ kv₂ = runAct (chooseAct e cfg m ns s.1 kv₂) s₁
    rw [attrStep_eq e cfg m hA, chooseAct_after e cfg m hm ns s s₁ kv₁ kv₂ hk h]

/-- two attributes with different names can be bound in either order -/
theorem attrStep_swap (e : BEnv) (cfg : ParserConfig) (m : XmlMeta) (hm : attrNamesOk m = true)
    (hA : m.anyAttributes = []) (ns : NsMap) (s : Params × Nat) (kv₁ kv₂ : QN × Str) (hk : kv₁.1 ≠ kv₂.1) :
    WRel SEq (attrStep e cfg m ns s kv₁ >>= fun s₁ => attrStep e cfg m ns s₁ kv₂)
      (attrStep e cfg m ns s kv₂ >>= fun s₂ => attrStep e cfg m ns s₂ kv₁) := by
  rw [two_steps e cfg m hm hA ns s kv₁ kv₂ hk, two_steps e cfg m hm hA ns s kv₂ kv₁ (Ne.symm hk)]
  apply runAct_comm
  intro nm₁ v₁ w₁ nm₂ v₂ w₂ h₁ h₂
  obtain ⟨var₁, hv₁, hn₁⟩ := chooseAct_setv e cfg m ns s.1 kv₁ nm₁ v₁ w₁ h₁
  obtain ⟨var₂, hv₂, hn₂⟩ := chooseAct_setv e cfg m ns s.1 kv₂ nm₂ v₂ w₂ h₂
  have := findAttribute_names m hm kv₁.1 kv₂.1 var₁ var₂ hk hv₁ hv₂
  rw [hn₁, hn₂] at this
  exact this

theorem ExRel.trans_W {α} {R : α → α → Prop} (hR : ∀ a b c, R a b → R b c → R a c) {x y z : Except Err α}
    (h1 : WRel R x y) (h2 : ExRel R y z) : WRel R x z :=
  WRel.trans hR h1 (WRel.of_ExRel h2)

/-- `bind_attrs` on a permutation of an attribute list with pairwise different names: both fail, or both
succeed with the same dictionary content and the same number of warnings -/
theorem foldl_attrStep_perm (e : BEnv) (cfg : ParserConfig) (m : XmlMeta) (hm : attrNamesOk m = true)
    (hA : m.anyAttributes = []) (ns : NsMap) {l₁ l₂ : List (QN × Str)} (hp : l₁.Perm l₂) :
    (l₁.map (·.1)).Nodup → ∀ s s', SEq s s' →
      WRel SEq (l₁.foldlM (attrStep e cfg m ns) s) (l₂.foldlM (attrStep e cfg m ns) s') := by
  induction hp with
  | nil => intro _ s s' h; exact h
  | cons x _ ih =>
    intro hn s s' h
    simp only [List.map_cons, List.nodup_cons] at hn
    simp only [List.foldlM_cons]
    exact WRel.bind (WRel.of_ExRel (attrStep_congr e cfg m hA ns h x)) (fun a b hab => ih hn.2 a b hab)
  | swap x y l =>
    intro hn s s' h
    simp only [List.map_cons, List.nodup_cons, List.mem_cons, not_or] at hn
    have hxy : y.1 ≠ x.1 := hn.1.1
    simp only [List.foldlM_cons, ← bind_assoc]
    refine WRel.bind (R := SEq) ?_ (fun a b hab => WRel.of_ExRel (foldl_attrStep_congr e cfg m hA ns l a b hab))
    have h1 := attrStep_swap e cfg m hm hA ns s y x hxy
    have h2 : ExRel SEq (attrStep e cfg m ns s x >>= fun s₂ => attrStep e cfg m ns s₂ y)
        (attrStep e cfg m ns s' x >>= fun s₂ => attrStep e cfg m ns s₂ y) :=
      ExRel.bind (attrStep_congr e cfg m hA ns h x) (fun a b hab => attrStep_congr e cfg m hA ns hab y)
    exact ExRel.trans_W (R := SEq) (fun _ _ _ h1 h2 => SEq.trans h1 h2) h1 h2
  | trans hp₁ _ ih₁ ih₂ =>
    intro hn s s' h
    have hn₂ := ((hp₁.map (·.1)).nodup_iff).mp hn
    exact WRel.trans (R := SEq) (fun _ _ _ h1 h2 => SEq.trans h1 h2) (ih₁ hn s s (SEq.refl s)) (ih₂ hn₂ s s' h)

theorem bindAttrs_perm (e : BEnv) (cfg : ParserConfig) (m : XmlMeta) (hm : attrNamesOk m = true)
    (hA : m.anyAttributes = []) (ns : NsMap) {l₁ l₂ : List (QN × Str)} (hp : l₁.Perm l₂)
    (hn : (l₁.map (·.1)).Nodup) : WRel SEq (bindAttrs e cfg m l₁ ns) (bindAttrs e cfg m l₂ ns) := by
  rw [bindAttrs_eq, bindAttrs_eq]
  exact foldl_attrStep_perm e cfg m hm hA ns hp hn _ _ (SEq.refl _)

/-! ### the whole element -/

theorem parseNode_attr_perm (e : BEnv) (Γ : Ctx) (cfg : ParserConfig) (m : XmlMeta) (hm : attrNamesOk m = true)
    (hA : m.anyAttributes = []) (hw : m.wildcards = [])
    (ats₁ ats₂ : List (QN × Str)) (hp : ats₁.Perm ats₂) (hn : (ats₁.map (·.1)).Nodup) (ns d xt xn) (t : Tree) :
    (parseNode e Γ cfg (.element m ats₁ ns d xt xn) t).toOption =
    (parseNode e Γ cfg (.element m ats₂ ns d xt xn) t).toOption := by
  cases t with
  | node q a n t c tl =>
  simp only [parseNode, XmlMeta.findAnyWildcard, hw, List.head?_nil]
  cases hk : parseKids e Γ cfg m {} none c with
  | error err => rfl
  | ok k =>
    simp only [bind, Except.bind]
    by_cases hc : (!decide (xn = some true) || m.nillable) = true
    · simp only [hc, if_true]
      have hb := bindAttrs_perm e cfg m hm hA ns hp hn
      cases h1 : bindAttrs e cfg m ats₁ ns with
      | error e1 =>
        cases h2 : bindAttrs e cfg m ats₂ ns with
        | error e2 => rfl
        | ok v' => rw [h1, h2] at hb; exact False.elim hb
      | ok v =>
        cases h2 : bindAttrs e cfg m ats₂ ns with
        | error e2 => rw [h1, h2] at hb; exact False.elim hb
        | ok v' =>
          rw [h1, h2] at hb
          have hv : SEq v v' := hb
          simp only [Bool.false_eq_true, if_false, pure, Except.pure]
          generalize hr : List.foldlM (m := Except Err) _ (v.fst, k.snd.wrappers) k.fst.objs = r
          generalize hr' : List.foldlM (m := Except Err) _ (v'.fst, k.snd.wrappers) k.fst.objs = r'
          have hf : ExRel SRel r r' := by
            rw [← hr, ← hr']
            exact foldl_bindObject_peq m k.1.objs _ _ ⟨hv.1, rfl⟩
          cases r with
          | error er =>
            cases r' with
            | error er' => rfl
            | ok s1' => exact False.elim hf
          | ok s1 =>
            cases r' with
            | error er' => exact False.elim hf
            | ok s1' =>
              have hs : SRel s1 s1' := hf
              simp only []
              have ht := bindText_peq e cfg m xn ns hs.1 t
              generalize bindText e cfg m xn ns s1.fst t = r2 at ht ⊢
              generalize bindText e cfg m xn ns s1'.fst t = r2' at ht ⊢
              cases r2 with
              | error er =>
                cases r2' with
                | error er' => rfl
                | ok x => exact False.elim ht
              | ok v2 =>
                cases r2' with
                | error er' => exact False.elim ht
                | ok v2' =>
                  obtain ⟨b, p2, w2⟩ := v2
                  obtain ⟨b', p2', w2'⟩ := v2'
                  obtain ⟨hb1, hb2, hb3⟩ : TRel (b, p2, w2) (b', p2', w2') := ht
                  simp only at hb1 hb2 hb3
                  subst hb1 hb3
                  have hcf := classFactory_peq Γ m.clazz hb2
                  have hw2 : v.snd = v'.snd := hv.2
                  cases b <;> simp only [hcf, hw2]
    · simp only [hc]
      rfl

theorem find?_key_perm {α} [DecidableEq α] {β} {l₁ l₂ : List (α × β)} (hp : l₁.Perm l₂) (k : α) :
    (l₁.map (·.1)).Nodup → l₁.find? (·.1 = k) = l₂.find? (·.1 = k) := by
  induction hp with
  | nil => intro _; rfl
  | cons x _ ih =>
    intro hn
    simp only [List.map_cons, List.nodup_cons] at hn
    simp only [List.find?_cons, ih hn.2]
  | swap x y l =>
    intro hn
    simp only [List.map_cons, List.nodup_cons, List.mem_cons, not_or] at hn
    have hxy : y.1 ≠ x.1 := hn.1.1
    simp only [List.find?_cons]
    by_cases hy : y.1 = k
    · have hx : ¬ x.1 = k := fun h => hxy (hy.trans h.symm)
      simp [hy, hx]
    · simp [hy]
  | trans hp₁ _ ih₁ ih₂ =>
    intro hn
    rw [ih₁ hn, ih₂ (((hp₁.map (·.1)).nodup_iff).mp hn)]

/-! ### the root -/

/-- the last step of `NodeParser.parse`: the last object on the list is the result -/
def rootFinish (out : Out) : Except Err (Val × Nat) :=
  match out.objs.getLast? with
  | some (_, .none) | none => throw (.parser "Failed to create target class")
  | some (_, v) => return (v, out.warns)

theorem parseRoot_unfold (e : BEnv) (Γ : Ctx) (cfg : ParserConfig) (c : ClassId) (q a n t ch tl) :
    parseRoot e Γ cfg c (.node q a n t ch tl) =
      (xsiTypeOf e a n >>= fun xt => Γ.fetch c none xt >>= fun m =>
        parseNode e Γ cfg (.element m a n (!(xt.isNone || m.qname = q))
          (if (!(xt.isNone || m.qname = q)) = true then xt else none) (xsiNilOf a)) (.node q a n t ch tl) >>= rootFinish) := rfl

theorem toOption_bind_left {α β} {x y : Except Err α} (f : α → Except Err β) (h : x.toOption = y.toOption) :
    (x >>= f).toOption = (y >>= f).toOption := by
  cases x <;> cases y <;> simp_all [Except.toOption] <;> rfl

theorem toOption_bind_right {α β} (x : Except Err α) {f g : α → Except Err β} (h : ∀ a, (f a).toOption = (g a).toOption) :
    (x >>= f).toOption = (x >>= g).toOption := by
  cases x with
  | error err => rfl
  | ok a => exact h a

theorem toOption_bind_right' {α β} (x : Except Err α) {f g : α → Except Err β}
    (h : ∀ a, x = .ok a → (f a).toOption = (g a).toOption) : (x >>= f).toOption = (x >>= g).toOption := by
  cases x with
  | error err => rfl
  | ok a => exact h a rfl

end Proofs.C09
