/- C09 — parsing depends only on the XML infoset: property theorems (only).

The parser model (`Xs.Bind.parseRoot` / `parseNode`) consumes the infoset
`Tree` (qualified names in Clark form, attribute list, in-scope prefix map,
merged character data).  Comments, processing instructions, CDATA sections,
character references, encodings, attribute quoting, empty-element tags and
XInclude are resolved by the tokenisers *before* this interface; they are
invisible to the model by construction and are covered by the byte-level
correspondence of `harness/props/c09.py` only.  What can be proved here is
independence from attribute order, ignorable white space, padding of
non-string values and the prefix maps; section 6 adds the one place where the
handlers depend on how the bytes arrive (the read chunks of the tokeniser). -/
import XsdataModel.Proofs.C09Strip
import XsdataModel.Proofs.C09Ws
import XsdataModel.Proofs.C09Data
import XsdataModel.Proofs.C09Ns
import XsdataModel.Proofs.C09Xsi
import XsdataModel.Proofs.C09Attrs
import XsdataModel.Proofs.C09Chunks
import XsdataModel.Proofs.C09NsRel
import XsdataModel.Proofs.C09Infoset
import XsdataModel.Proofs.C09XInclude
import XsdataModel.Proofs.C09WsDeep
import XsdataModel.Proofs.C09AttrDeep
import XsdataModel.Proofs.C09WsDeepSimple

namespace Props.C09
open Py Xs.Bind Proofs.C09

/-! ## 1. attribute order -/

/-- side conditions on the class: attribute entries with different qualified names belong to
different fields (`attrNamesOk`, true of every exported `XmlMeta`), no `Attributes` field and no
wildcard field.  (With an `Attributes` / `AnyElement.attributes` dictionary the *insertion order*
of the dictionary follows the document; Python's `==` ignores it, the model's association list
does not — see `attrs_dict_order_witness` — so those classes are excluded here and left to the
correspondence check, which compares dictionaries as sets of items in its oracle.) -/
def attrOrderOk (m : XmlMeta) : Bool := attrNamesOk m && m.anyAttributes.isEmpty && m.wildcards.isEmpty

/-- **attr_order_invariant**: an element node of such a class gives the same result for every
permutation of an attribute list with pairwise different names: both fail, or both succeed with
the same objects and the same number of warnings.  (Which *error* is reported may depend on the
order when two attributes are both in error, hence `toOption`.) -/
theorem attr_order_invariant (e : BEnv) (Γ : Ctx) (cfg : ParserConfig) (m : XmlMeta) (hm : attrOrderOk m = true)
    (ats₁ ats₂ : List (QN × Str)) (hp : ats₁.Perm ats₂) (hn : (ats₁.map (·.1)).Nodup) (ns d xt xn) (t : Tree) :
    (parseNode e Γ cfg (.element m ats₁ ns d xt xn) t).toOption =
    (parseNode e Γ cfg (.element m ats₂ ns d xt xn) t).toOption := by
  simp only [attrOrderOk, Bool.and_eq_true, List.isEmpty_iff] at hm
  exact parseNode_attr_perm e Γ cfg m hm.1.1 hm.1.2 hm.2 ats₁ ats₂ hp hn ns d xt xn t

/-- every class of the universe satisfies `attrOrderOk` -/
def ctxAttrOrderOk (Γ : Ctx) : Bool := Γ.classes.all fun ci => ci.metas.all fun pm => attrOrderOk pm.2

/-- **attr_order_invariant_root**: the same for a whole document (`NodeParser.parse`): the
root element's attributes may come in any order (xsi:type / xsi:nil are looked up by name). -/
theorem attr_order_invariant_root (e : BEnv) (Γ : Ctx) (cfg : ParserConfig) (hΓ : ctxAttrOrderOk Γ = true) (c : ClassId)
    (ats₁ ats₂ : List (QN × Str)) (hp : ats₁.Perm ats₂) (hn : (ats₁.map (·.1)).Nodup) (q n t ch tl) :
    (parseRoot e Γ cfg c (.node q ats₁ n t ch tl)).toOption = (parseRoot e Γ cfg c (.node q ats₂ n t ch tl)).toOption := by
  have hx : xsiTypeOf e ats₁ n = xsiTypeOf e ats₂ n := by
    unfold xsiTypeOf; rw [find?_key_perm hp xsiType hn]
  have hnil : xsiNilOf ats₁ = xsiNilOf ats₂ := by
    unfold xsiNilOf; rw [find?_key_perm hp xsiNil hn]
  -- the element node does not look at the attribute list of the tree, only at its own copy
  have htree : ∀ nd, parseNode e Γ cfg nd (.node q ats₁ n t ch tl) = parseNode e Γ cfg nd (.node q ats₂ n t ch tl) := by
    intro nd
    cases nd <;> simp only [parseNode]
  rw [parseRoot_unfold, parseRoot_unfold, hx, hnil]
  apply toOption_bind_right
  intro xt
  apply toOption_bind_right'
  intro m hf
  apply toOption_bind_left
  rw [htree]
  have hm := fetch_all attrOrderOk Γ hΓ c none xt m hf
  exact attr_order_invariant e Γ cfg m hm ats₁ ats₂ hp hn n _ _ _ _

-- non-vacuity: class `Plain` (two attributes, two elements); the two spellings of Data.plainDoc
example : attrOrderOk Data.plainMeta = true := by decide
example : [("a".toList, "7".toList), ("b".toList, "v".toList)].Perm [("b".toList, "v".toList), ("a".toList, "7".toList)] :=
  List.Perm.swap _ _ _
example : ([("a".toList, "7".toList), ("b".toList, "v".toList)].map (·.1)).Nodup := by decide
example : Data.primOf (parseRoot Data.benv Data.ctx {} "Plain".toList Data.plainDoc) "a" = some (.int 7) := by decide
-- hypothesis `ctxAttrOrderOk` of attr_order_invariant_root: `Data.ctx` itself also holds class `Root` (an
-- `Attributes` dictionary, the excluded case) and does NOT satisfy it; the universe with `Plain` alone does
example : ctxAttrOrderOk { Data.ctx with classes := [Data.plainClass] } = true := by decide
example : ctxAttrOrderOk Data.ctx = false := by decide

/-- the order of an `Attributes` dictionary is visible in the model's association list (and in
`dict` iteration order in Python), although the two dictionaries are equal as Python objects:
`<Root k1="v" k2="w"/>` vs `<Root k2="w" k1="v"/>` -/
theorem attrs_dict_order_witness :
    Data.attrsOf (parseRoot Data.benv Data.ctx {} "Root".toList
      (.node "Root".toList [("k1".toList, "v".toList), ("k2".toList, "w".toList)] [] none [] none)) "attrs"
      = some [("k1".toList, "v".toList), ("k2".toList, "w".toList)] ∧
    Data.attrsOf (parseRoot Data.benv Data.ctx {} "Root".toList
      (.node "Root".toList [("k2".toList, "w".toList), ("k1".toList, "v".toList)] [] none [] none)) "attrs"
      = some [("k2".toList, "w".toList), ("k1".toList, "v".toList)] := by
  decide

/-! ## 1b. attribute order at every level of the document -/

/-- **attr_order_invariant_deep**: for a universe in which every class satisfies `metaAttrDeep`
(attribute entries with different names belong to different fields, no `Attributes` field, no
wildcard field, and every element / choice field is bound by an `ElementNode` or a `PrimitiveNode`:
`coreNoAny` — a class type, or neither `object` typed nor a wildcard choice, so that no
`WildcardNode` / `StandardNode`, whose `AnyElement.attributes` keeps the document order, is ever
created), permuting the attributes of *every* element of the document (`permRel`: names pairwise
different) does not change what `NodeParser.parse` returns: both fail, or both succeed with the
same object and the same number of warnings. -/
theorem attr_order_invariant_deep (e : BEnv) (Γ : Ctx) (cfg : ParserConfig) (hΓ : ctxAll metaAttrDeep Γ = true)
    (c : ClassId) (t t' : Tree) (h : permRel t t' = true) :
    (parseRoot e Γ cfg c t).toOption = (parseRoot e Γ cfg c t').toOption :=
  parseRoot_permRel e Γ cfg hΓ c t t' h

/-- a universe of the kind: the class `Plain` alone (two attributes, two primitive elements) -/
def plainCtx : Ctx := { Data.ctx with classes := [Data.plainClass], xsiIndex := [("Plain".toList, ["Plain".toList])] }

/-- `<Plain b="v" a="7"><x>hello</x><y>true</y></Plain>`: `Data.plainDoc` with the attributes swapped -/
def plainDocSwapped : Tree :=
  .node "Plain".toList [("b".toList, "v".toList), ("a".toList, "7".toList)] [] none
    [Data.leaf "x" (some "hello"), Data.leaf "y" (some "true")] none

example : ctxAll metaAttrDeep plainCtx = true := by decide
example : permRel Data.plainDoc plainDocSwapped = true := by decide
example : Data.primOf (parseRoot Data.benv plainCtx {} "Plain".toList plainDocSwapped) "a" = some (.int 7) := by decide
-- the universe with the `Attributes` class is outside the hypothesis (see `attrs_dict_order_witness`)
example : ctxAll metaAttrDeep Data.ctx = false := by decide

/-! ## 2. ignorable white space -/

/-- element-only content: the class has no text field and no wildcard field -/
def elementOnly (m : XmlMeta) : Bool := m.text.isNone && m.wildcards.isEmpty

/-- **ws_invariant**: an element bound to a class with element-only content is parsed to
the same result whatever its own character data `t` is, and whatever the tails of its
children (and its own tail) are *within* `normalize_content` — absent, empty and
white-space-only tails are interchangeable.  (`KidsEq`: same children, tails equal after
`normalizeContent`.) -/
theorem ws_invariant (e : BEnv) (Γ : Ctx) (cfg : ParserConfig) (m : XmlMeta) (hm : elementOnly m = true)
    (ats ns d xt xn q a n) (t t' : Option Str) (kids kids' : List Tree) (tl tl' : Option Str)
    (hk : KidsEq e.py kids kids') (htl : normalizeContent e.py tl = normalizeContent e.py tl') :
    parseNode e Γ cfg (.element m ats ns d xt xn) (.node q a n t kids tl) =
    parseNode e Γ cfg (.element m ats ns d xt xn) (.node q a n t' kids' tl') := by
  have hm' : m.text = none ∧ m.wildcards = [] := by
    simpa [elementOnly, Option.isNone_iff_eq_none, List.isEmpty_iff] using hm
  rw [parseNode_element_text e Γ cfg m hm'.1 hm'.2 ats ns d xt xn q a n kids tl t t',
      parseNode_tail e Γ cfg _ q a n t' kids tl tl' htl]
  simp only [parseNode, parseKids_tailEq e Γ cfg m none kids kids' hk]

/-- **indent_invariant**: pretty-printing an element with element-only content (any text
`ws₀` before the first child, white space `ws` after every child) does not change the
result, for every environment's notion of white space. -/
theorem indent_invariant (e : BEnv) (Γ : Ctx) (cfg : ParserConfig) (m : XmlMeta) (hm : elementOnly m = true)
    (ats ns d xt xn) (ws₀ ws : Str) (hws : e.py.strip ws = []) (t : Tree) :
    parseNode e Γ cfg (.element m ats ns d xt xn) (indent e.py ws₀ ws t) =
    parseNode e Γ cfg (.element m ats ns d xt xn) t := by
  cases t with
  | node q a n t c tl =>
    exact (ws_invariant e Γ cfg m hm ats ns d xt xn q a n t (some ws₀) c _ tl tl
      (kidsEq_indent e.py ws hws c) rfl).symm

/-- the tail of *any* kind of node only matters up to `normalize_content` -/
theorem tail_ws_invariant (e : BEnv) (Γ : Ctx) (cfg : ParserConfig) (node : Node) (q a n t c) (tl tl' : Option Str)
    (h : normalizeContent e.py tl = normalizeContent e.py tl') :
    parseNode e Γ cfg node (.node q a n t c tl) = parseNode e Γ cfg node (.node q a n t c tl') :=
  parseNode_tail e Γ cfg node q a n t c tl tl' h

-- non-vacuity: the class `Plain` of `Proofs.C09.Data` has element-only content, "\n  " is white space,
-- and the indented document parses to a proper object
example : elementOnly Data.plainMeta = true := by decide
example : Data.benv.py.strip "\n  ".toList = [] := by decide
example : Data.primOf (parseRoot Data.benv Data.ctx {} "Plain".toList Data.plainDocPretty) "y" = some (.bool true) := by
  decide

/-! ## 2b. ignorable white space at every level of the document -/

/-- **ws_invariant_deep**: for a universe whose classes have no text field (`textless`: complex
content only; leaf values are elements of primitive type, wildcard and mixed content allowed), two
documents related by `wsRel` — same names, attributes, prefix maps; at *every* level tails equal for
`normalize_content`, and the character data of an element with child elements equal for
`normalize_content` — are parsed (`NodeParser.parse`) to the same result, whatever kinds of nodes the
parser creates on the way (element, primitive, standard, wildcard, wrapper, skipped). -/
theorem ws_invariant_deep (e : BEnv) (Γ : Ctx) (cfg : ParserConfig) (hΓ : ctxAll textless Γ = true) (c : ClassId)
    (t t' : Tree) (h : wsRel e.py t t' = true) : parseRoot e Γ cfg c t = parseRoot e Γ cfg c t' :=
  parseRoot_wsRel e Γ cfg hΓ c t t' h

/-- **indent_invariant_deep**: pretty-printing the whole document (white space `ws` before the first
child of every element without significant text, and after every element without significant tail)
does not change the result. -/
theorem indent_invariant_deep (e : BEnv) (Γ : Ctx) (cfg : ParserConfig) (hΓ : ctxAll textless Γ = true) (c : ClassId)
    (ws : Str) (hws : e.py.strip ws = []) (t : Tree) :
    parseRoot e Γ cfg c (indentDeep e.py ws t) = parseRoot e Γ cfg c t :=
  (parseRoot_wsRel e Γ cfg hΓ c t _ (wsRel_indentDeep e.py ws hws t)).symm

-- non-vacuity: the example universe is textless; the pretty-printed document is a proper, different tree
example : ctxAll textless Data.ctx = true := by decide
example : wsRel Data.benv.py Data.plainDoc (indentDeep Data.benv.py "\n  ".toList Data.plainDoc) = true := by decide
example : Data.primOf (parseRoot Data.benv Data.ctx {} "Plain".toList (indentDeep Data.benv.py "\n  ".toList Data.plainDoc)) "y"
    = some (.bool true) := by decide
-- significant text is not ignorable: `<x>hello</x>` vs `<x> hello</x>`
example : wsRel Data.benv.py (Data.leaf "x" (some "hello")) (Data.leaf "x" (some " hello")) = false := by decide

/-- **ws_invariant_deep_simple**: `ws_invariant_deep` for universes that also have simple-content
classes (`simpleContent`: a text field and no element, choice, wildcard or wrapper to take a child
element), under `fail_on_unknown_properties` (the default): such a class rejects its first child
element whatever its text is, so indentation in front of it cannot be observed. -/
theorem ws_invariant_deep_simple (e : BEnv) (Γ : Ctx) (cfg : ParserConfig) (hΓ : ctxAll textlessOrSimple Γ = true)
    (hs : cfg.failOnUnknownProperties = true) (c : ClassId) (t t' : Tree) (h : wsRel e.py t t' = true) :
    parseRoot e Γ cfg c t = parseRoot e Γ cfg c t' :=
  parseRoot_wsRelS e Γ cfg hΓ hs c t t' h

/-- `@dataclass class Amount: value: str (Text), a: Optional[int] (Attribute)` next to `Plain` -/
def amountMeta : XmlMeta :=
  { clazz := "Amount".toList, qname := "Amount".toList, targetQName := some "Amount".toList, nillable := false,
    text := some (Data.mkVar 1 "value" .text [.prim .str]), choices := [], elements := [], wildcards := [],
    attributes := [("a".toList, Data.vA)], anyAttributes := [], wrappers := [] }
def amountCtx : Ctx :=
  { Data.ctx with classes := [Data.plainClass,
      { id := "Amount".toList, metas := [(none, amountMeta)], mro := ["Amount".toList], bases := [],
        fields := [⟨"value".toList, true, some (.prim (.str []))⟩, ⟨"a".toList, true, some .none⟩] }] }
example : ctxAll textlessOrSimple amountCtx = true := by decide
example : ctxAll textless amountCtx = false := by decide
example : ({} : ParserConfig).failOnUnknownProperties = true := rfl
example : Data.primOf (parseRoot Data.benv amountCtx {} "Amount".toList
    (.node "Amount".toList [("a".toList, "7".toList)] [] (some "12.50".toList) [] none)) "value" = some (.str "12.50".toList) := by
  decide

/-! ## 3. surrounding white space of non-string values

Two notions of white space are involved: `str.strip()` (bool, QName converters; `str.split()` for
token lists) removes `str.isspace` characters (`allSpace`), `int(str)` removes a smaller set
(`allBlank`: not the ASCII separators FS GS RS US, 0x1c–0x1f).  XML white space (#x20 #x9 #xD #xA —
the property's own notion) is blank in both senses in every environment (`xml_ws_blank`). -/

/-- **value_ws_invariant**: for every environment, padding the lexical value with characters that
`int()` skips (`allBlank`; these are also `str.isspace`) does not change what
`converter.deserialize` returns when every candidate type is int, bool or QName (`strips`). -/
theorem value_ws_invariant (e : BEnv) (l s r : Str) (ts : List TypeRef) (n : NsMap) (ht : ts.all strips = true)
    (hl : allBlank e.py l = true) (hr : allBlank e.py r = true) :
    deserialize e (l ++ s ++ r) ts n = deserialize e s ts n :=
  deserialize_pad e l s r ts n ht hl hr

/-- **value_ws_invariant_isspace**: for bool and QName (`stripsSpace`: not int) any `str.isspace`
padding will do. -/
theorem value_ws_invariant_isspace (e : BEnv) (l s r : Str) (ts : List TypeRef) (n : NsMap)
    (ht : ts.all stripsSpace = true) (hl : allSpace e.py l = true) (hr : allSpace e.py r = true) :
    deserialize e (l ++ s ++ r) ts n = deserialize e s ts n :=
  deserialize_pad_space e l s r ts n ht hl hr

/-- **xml_ws_blank**: strings of XML white space satisfy the padding hypotheses of both theorems,
for every environment. -/
theorem xml_ws_blank (e : Env) (s : Str) (h : s.all isXmlWs = true) : allBlank e s = true ∧ allSpace e s = true :=
  ⟨allBlank_of_xmlWs e s h, allBlank_allSpace e s (allBlank_of_xmlWs e s h)⟩

/-- the statement with `str.isspace` padding for *all* stripping types (as first claimed) -/
def value_ws_invariant_isspace_all : Prop :=
  ∀ (e : BEnv) (l s r : Str) (ts : List TypeRef) (n : NsMap), ts.all strips = true →
    allSpace e.py l = true → allSpace e.py r = true → deserialize e (l ++ s ++ r) ts n = deserialize e s ts n

/-- **value_ws_invariant_isspace_counterexample**: it is false for int: `"\x1c1"` (FS, which
`str.isspace` accepts) does not convert — `int("\x1c1")` raises ValueError, so
`converter.deserialize("\x1c1", [int])` raises ConverterError — while `"1"` gives 1; and
`"\x1ctrue"` for bool does convert.  (Not a violation of C09: FS is not XML white space, it is
not even an XML 1.0 character.) -/
theorem value_ws_invariant_isspace_counterexample : ¬ value_ws_invariant_isspace_all := by
  intro h
  have := h Data.benv [Char.ofNat 0x1c] ['1'] [] [.prim .int] [] (by decide) (by decide) (by decide)
  revert this
  decide

theorem fs_padding_witness :
    deserialize Data.benv [Char.ofNat 0x1c, '1'] [.prim .int] [] = none ∧
    deserialize Data.benv ['1'] [.prim .int] [] = some (.int 1) ∧
    deserialize Data.benv (Char.ofNat 0x1c :: "true".toList) [.prim .bool] [] = some (.bool true) := by
  decide

/-- the conversion of `s` for `var` succeeds (no ConverterWarning) -/
def converts (e : BEnv) (var : VarCore) (s : Str) (n : NsMap) : Bool :=
  if var.tokens then ((pySplitWs e.py s).mapM (fun t => deserialize e t var.types n)).isSome
  else (deserialize e s var.types n).isSome

/-- `ParserUtils.parse_var` on a padded value, given that the padding is invisible to the splitting
(`hsplit`, for token lists) or to the conversion (`hconv`, otherwise) -/
theorem parseVar_pad_of (e : BEnv) (cfg : ParserConfig) (var : VarCore) (s s' : Str) (n : NsMap)
    (hsplit : var.tokens = true → pySplitWs e.py s' = pySplitWs e.py s)
    (hconv : var.tokens = false → deserialize e s' var.types n = deserialize e s var.types n)
    (hc : converts e var s n = true ∨ cfg.failOnConverterWarnings = true) :
    parseVar e cfg var (some s') n = parseVar e cfg var (some s) n := by
  unfold parseVar
  simp only [Option.getD_none]
  by_cases htok : var.tokens = true
  · simp only [htok, if_true, hsplit htok]
    rcases hc with hc | hc
    · simp only [converts, htok, if_true] at hc
      cases hm : (pySplitWs e.py s).mapM (fun t => deserialize e t var.types n) with
      | none => simp [hm] at hc
      | some vs => rfl
    · simp [hc]
  · have htf : var.tokens = false := by simpa using htok
    simp only [htok, hconv htf]
    rcases hc with hc | hc
    · simp only [converts, htok] at hc
      cases hm : deserialize e s var.types n with
      | none => simp [hm] at hc
      | some v => rfl
    · simp [hc]

/-- **parseVar_ws_invariant**: `ParserUtils.parse_var` on a value padded with characters blank for
`int()` and `str.strip()` (e.g. XML white space): same result for a token list of any type and for
int/bool/QName types, as long as the value converts (on failure the raw string, padding included, is
kept with a warning — or a ParserError is raised, in which case the two agree again). -/
theorem parseVar_ws_invariant (e : BEnv) (cfg : ParserConfig) (var : VarCore) (l s r : Str) (n : NsMap)
    (ht : var.tokens = true ∨ var.types.all strips = true)
    (hc : converts e var s n = true ∨ cfg.failOnConverterWarnings = true)
    (hl : allBlank e.py l = true) (hr : allBlank e.py r = true) :
    parseVar e cfg var (some (l ++ s ++ r)) n = parseVar e cfg var (some s) n := by
  apply parseVar_pad_of e cfg var s _ n _ _ hc
  · intro _
    exact pySplitWs_pad e.py l s r (allBlank_allSpace _ _ hl) (allBlank_allSpace _ _ hr)
  · intro htf
    rcases ht with h | h
    · rw [htf] at h; cases h
    · exact deserialize_pad e l s r var.types n h hl hr

/-- **parseVar_ws_invariant_isspace**: with `str.isspace` padding: token lists of any type (the
tokens themselves carry no padding), and bool/QName types. -/
theorem parseVar_ws_invariant_isspace (e : BEnv) (cfg : ParserConfig) (var : VarCore) (l s r : Str) (n : NsMap)
    (ht : var.tokens = true ∨ var.types.all stripsSpace = true)
    (hc : converts e var s n = true ∨ cfg.failOnConverterWarnings = true)
    (hl : allSpace e.py l = true) (hr : allSpace e.py r = true) :
    parseVar e cfg var (some (l ++ s ++ r)) n = parseVar e cfg var (some s) n := by
  apply parseVar_pad_of e cfg var s _ n _ _ hc
  · intro _
    exact pySplitWs_pad e.py l s r hl hr
  · intro htf
    rcases ht with h | h
    · rw [htf] at h; cases h
    · exact deserialize_pad_space e l s r var.types n h hl hr

-- non-vacuity
example : [' ', '\n', '\t', '\r'].all isXmlWs = true := by decide
example : allBlank Data.benv.py [' ', '\n', '\t'] = true := by decide
example : allSpace Data.benv.py [Char.ofNat 0x1c, Char.ofNat 0x1f, ' '] = true := by decide
example : [TypeRef.prim .int, .prim .bool].all strips = true := by decide
example : [TypeRef.prim .bool, .prim .qname].all stripsSpace = true := by decide
example : deserialize Data.benv (" \n".toList ++ "42".toList ++ "\t".toList) [.prim .int] [] = some (.int 42) := by decide
example : converts Data.benv Data.vA.toVarCore "42".toList [] = true := by decide

/-! ## 4. prefix maps -/

/-- **prefix_invariant_partial**: when no class of the universe has a QName typed field
(`ctxNoQ`), no element carries xsi:type and no attribute value has the form `p:rest` with
`p` a prefix declared at that element (`treeOk`, checked on both spellings), the result of
parsing does not depend on the prefix maps at all: two documents that are equal after
erasing every prefix map parse to the same result (objects, warnings and errors). -/
theorem prefix_invariant_partial (e : BEnv) (Γ : Ctx) (cfg : ParserConfig) (hΓ : ctxNoQ Γ = true) (c : ClassId)
    (t t' : Tree) (ht : treeOk t = true) (ht' : treeOk t' = true) (h : eraseNs t = eraseNs t') :
    parseRoot e Γ cfg c t = parseRoot e Γ cfg c t' := by
  rw [parseRoot_eraseNs e Γ cfg hΓ c t ht, parseRoot_eraseNs e Γ cfg hΓ c t' ht', h]

/-- the same for a subtree parsed by any node whose metadata satisfies the side conditions -/
theorem prefix_invariant_node (e : BEnv) (Γ : Ctx) (cfg : ParserConfig) (hΓ : ctxNoQ Γ = true) (node : Node) (t : Tree)
    (hn : nodeOk node = true) (ht : treeOk t = true) :
    parseNode e Γ cfg node t = parseNode e Γ cfg (Node.eraseNs node) (eraseNs t) :=
  parseNode_eraseNs e Γ cfg hΓ node t hn ht

-- non-vacuity: the example universe has no QName field; `<Plain a="7" b="v">…` under two prefix maps
example : ctxNoQ Data.ctx = true := by decide
example : treeOk Data.plainDoc = true := by decide
example : treeOk Data.rootDocPP = true := by decide   -- `k="p:bar"` with only `pp` declared is fine
-- two different spellings prefix_invariant_partial identifies: `rootDocPP` and the same element without any declaration
example : treeOk (.node "Root".toList [("k".toList, "p:bar".toList)] [] none [] none) = true
    ∧ eraseNs Data.rootDocPP = eraseNs (.node "Root".toList [("k".toList, "p:bar".toList)] [] none [] none) :=
  ⟨by decide, rfl⟩

/-- **xsiType_prefix_invariant**: `ParserUtils.xsi_type` depends on the prefix of a
lexical QName `p:l` only through the namespace the prefix is bound to: another prefix
`p'` bound (in another map) to the same non-empty URI gives the same result. -/
theorem xsiType_prefix_invariant (e : BEnv) (attrs attrs' : List (QN × Str)) (n n' : NsMap) (p p' l u : Str)
    (ha : (attrs.find? (·.1 = xsiType)).map (·.2) = some (p ++ ':' :: l))
    (ha' : (attrs'.find? (·.1 = xsiType)).map (·.2) = some (p' ++ ':' :: l))
    (hp : lexPrefixed e p l = true) (hp' : lexPrefixed e p' l = true)
    (hn : n.get (some p) = some u) (hn' : n'.get (some p') = some u) (hu : u ≠ []) :
    xsiTypeOf e attrs n = xsiTypeOf e attrs' n' := by
  rw [xsiTypeOf_value e attrs n _ ha (by simp), xsiTypeOf_value e attrs' n' _ ha' (by simp),
    resolveQName_prefixed e p l u n hp hn hu, resolveQName_prefixed e p' l u n' hp' hn' hu]

/-- **xsiType_default_invariant**: default-namespace toggling: the unprefixed `l` under
a default namespace `u` and `p:l` with `p` bound to `u` give the same xsi:type. -/
theorem xsiType_default_invariant (e : BEnv) (attrs attrs' : List (QN × Str)) (n n' : NsMap) (p l u : Str)
    (ha : (attrs.find? (·.1 = xsiType)).map (·.2) = some l)
    (ha' : (attrs'.find? (·.1 = xsiType)).map (·.2) = some (p ++ ':' :: l))
    (hl : lexLocal e l = true) (hp : lexPrefixed e p l = true)
    (hn : n.get none = some u) (hn' : n'.get (some p) = some u) (hu : u ≠ []) :
    xsiTypeOf e attrs n = xsiTypeOf e attrs' n' := by
  have hl0 : l ≠ [] := by
    intro hh; subst hh; simp [lexLocal] at hl
  rw [xsiTypeOf_value e attrs n _ ha hl0, xsiTypeOf_value e attrs' n' _ ha' (by simp),
    resolveQName_local e l u n hl hn hu, resolveQName_prefixed e p l u n' hp hn' hu]

-- non-vacuity: `xsi:type="a:T"` with a ↦ urn:x  vs  `xsi:type="b:T"` with b ↦ urn:x  vs  `xsi:type="T"` under xmlns="urn:x"
example : lexPrefixed Data.benv "a".toList "T".toList = true := by decide
example : lexLocal Data.benv "T".toList = true := by decide
example : (xsiTypeOf Data.benv [(xsiType, "a:T".toList)] [(some "a".toList, "urn:x".toList)]).toOption =
    some (some "{urn:x}T".toList) := by decide
example : (xsiTypeOf Data.benv [(xsiType, "T".toList)] [(none, "urn:x".toList)]).toOption =
    some (some "{urn:x}T".toList) := by decide

/-! ## 4b. prefix maps, whatever the classes are

`prefix_invariant_partial` asks that *no* field is QName typed.  The parser reads the prefix map
of an element for three questions about that element's own lexical values only — how a value and
each of its white space separated tokens resolve as QNames (`QNameConverter.resolve`: QName typed
fields, `xsi:type`), and how an attribute value reads under `parse_any_attribute` (the wildcard
attribute heuristic) — so two maps that answer them alike (`strStable`) are interchangeable. -/

/-- **prefix_map_invariant**: for every universe (QName typed fields, xsi:type, `Attributes`
and wildcard fields included), two documents with the same names, attributes and character data
whose prefix maps answer, element by element, the three questions about that element's values
alike (`nsRel`) are parsed to the same result.  Covers: declarations moved between elements, unused
declarations added or removed, prefixes that no value refers to renamed, a default namespace
declared or dropped around elements without unprefixed QName values, another order of the map.
The region of finding c09-any-attr-prefix is exactly the third conjunct of `strStable`:
`parseAnyAttribute v n = parseAnyAttribute v n'`. -/
theorem prefix_map_invariant (e : BEnv) (Γ : Ctx) (cfg : ParserConfig) (c : ClassId) (t t' : Tree)
    (h : nsRel e t t' = true) : parseRoot e Γ cfg c t = parseRoot e Γ cfg c t' :=
  parseRoot_nsRel e Γ cfg c t t' h

/-- **prefix_map_lookup_only**: the parser uses a prefix map as a lookup function: any rebuilding of
the maps that keeps every lookup (`dict` order — the native handler's merged dict and lxml's
`nsmap` differ in it —, shadowed entries) gives the same result. -/
theorem prefix_map_lookup_only (e : BEnv) (Γ : Ctx) (cfg : ParserConfig) (c : ClassId) (f : NsMap → NsMap)
    (hf : ∀ n p, (f n).get p = n.get p) (t : Tree) :
    parseRoot e Γ cfg c (mapNs f t) = parseRoot e Γ cfg c t :=
  (parseRoot_nsRel e Γ cfg c t (mapNs f t) (nsRel_mapNs e f hf t)).symm

/-- a value without a colon is never touched by the wildcard attribute heuristic -/
theorem any_attr_heuristic_needs_colon (v : Str) (n : NsMap) (h : v.contains ':' = false) :
    parseAnyAttribute v n = v :=
  parseAnyAttribute_nocolon v n h

/-- `<r xmlns:p="urn:p" xmlns:xsi=… xsi:type="p:T" a="7">p:x</r>` and the same document with the
unused prefix `zz` declared, `xsi` bound once more and the map in another order: related by `nsRel`
although it carries xsi:type and a value that looks like a QName -/
def nsDocA : Tree :=
  .node "r".toList [(xsiType, "p:T".toList), ("a".toList, "7".toList)]
    [(some "p".toList, "urn:p".toList), (some "xsi".toList, xsiNs)] (some "p:x".toList) [] none
def nsDocB : Tree :=
  .node "r".toList [(xsiType, "p:T".toList), ("a".toList, "7".toList)]
    [(some "zz".toList, "urn:unused".toList), (some "xsi".toList, xsiNs), (some "p".toList, "urn:p".toList)]
    (some "p:x".toList) [] none
example : nsRel Data.benv nsDocA nsDocB = true := by decide
-- … while rebinding `p` is not (the QName value and the xsi:type would change their meaning)
example : nsRel Data.benv nsDocA
    (.node "r".toList [(xsiType, "p:T".toList), ("a".toList, "7".toList)]
      [(some "p".toList, "urn:other".toList), (some "xsi".toList, xsiNs)] (some "p:x".toList) [] none) = false := by decide
example : ∀ (n : NsMap) (p : Option Str), NsMap.get (n ++ n) p = NsMap.get n p := by
  intro n p
  rw [Xs.Backends.get_append]
  cases NsMap.get n p <;> rfl

/-! ## 5. the excluded region: name-like values of wildcard attributes -/

mutual
/-- no element of the tree carries xsi:type -/
def treeNoXsi : Tree → Bool
  | .node _ a _ _ c _ => noXsi a && treeNoXsiL c
def treeNoXsiL : List Tree → Bool
  | [] => true
  | t :: ts => treeNoXsi t && treeNoXsiL ts
end

/-- Full-strength statement (false of the model and of the code): for a universe without
QName typed fields and documents without xsi:type, the prefix maps do not matter. -/
def prefix_invariant : Prop :=
  ∀ (e : BEnv) (Γ : Ctx) (cfg : ParserConfig) (c : ClassId) (t t' : Tree),
    ctxNoQ Γ = true → treeNoXsi t = true → treeNoXsi t' = true → eraseNs t = eraseNs t' →
      parseRoot e Γ cfg c t = parseRoot e Γ cfg c t'

/-- **prefix_invariant_counterexample**: `ParserUtils.parse_any_attribute` rewrites every
wildcard attribute value `p:rest` whose `p` is a declared prefix to `{uri}rest`.
`<Root xmlns:p="urn:p" k="p:bar"/>` and `<Root xmlns:pp="urn:p" k="p:bar"/>` (the unrelated,
unused prefix renamed) are parsed to objects whose `attrs` dictionaries are
`{"k": "{urn:p}bar"}` and `{"k": "p:bar"}`.  (Known finding c09-any-attr-prefix.) -/
theorem prefix_invariant_counterexample : ¬ prefix_invariant := by
  intro h
  have := h Data.benv Data.ctx {} "Root".toList Data.rootDocP Data.rootDocPP
    (by decide) (by decide) (by decide) (by rfl)
  have h2 := congrArg (fun r => Data.attrsOf r "attrs") this
  revert h2
  decide

/-- what the two spellings are parsed to -/
theorem prefix_invariant_witness :
    Data.attrsOf (parseRoot Data.benv Data.ctx {} "Root".toList Data.rootDocP) "attrs"
      = some [("k".toList, "{urn:p}bar".toList)] ∧
    Data.attrsOf (parseRoot Data.benv Data.ctx {} "Root".toList Data.rootDocPP) "attrs"
      = some [("k".toList, "p:bar".toList)] := by
  decide

/-! ## 6. where the read chunks of the tokeniser end (`Backends/Chunks.lean`)

The handlers sit between the tokeniser and the `Tree` the sections above start from.  The one thing
they read that depends on *how the bytes arrive* is `element.tail`. -/

open Xs.Backends in
/-- **deferred_tail_complete**: pushing the end of an element to the parser when the next event
arrives (or when the stream is over) passes the tail of the infoset for every element — for every
document, every way of cutting it into read chunks (also inside the character data), and whatever
the tree shows of an unfinished tail (`pv`). -/
theorem deferred_tail_complete (pv : List CTok → Option Str) (chunks : List (List CTok)) :
    deferredReads pv chunks = specReads chunks.flatten :=
  deferredReads_eq pv chunks

open Xs.Backends in
/-- **chunking_irrelevant**: two ways of cutting the same document into read chunks (e.g. after a long
comment or more white space was inserted in front) give the same tails, also for two tokenisers that
differ in what they show of an unfinished tail. -/
theorem chunking_irrelevant (pv pv' : List CTok → Option Str) (chunks chunks' : List (List CTok))
    (h : chunks.flatten = chunks'.flatten) : deferredReads pv chunks = deferredReads pv' chunks' := by
  rw [deferred_tail_complete, deferred_tail_complete, h]

open Xs.Backends in
/-- the statement for a handler that reads `element.tail` while handling the END event (the code before
the repair) -/
def EagerTailComplete : Prop :=
  ∀ (pv : List CTok → Option Str) (chunks : List (List CTok)), eagerReads pv chunks = specReads chunks.flatten

open Xs.Backends in
/-- `<r><t>x</t>` | `TAIL<t/></r>`: the first read chunk ends right behind `</t>` -/
def chunkWitness : List (List CTok) :=
  [[.tag false "r".toList, .tag false "t".toList, .chars "x".toList, .tag true "t".toList],
   [.chars "TAIL".toList, .tag false "t".toList, .tag true "t".toList, .tag true "r".toList]]

open Xs.Backends in
/-- **eager_tail_counterexample**: … is false: the tail `TAIL` of the first `<t>` is not in the tree yet
when its END event is handled (former finding c09-tail-chunk-boundary, reproduced on the real handlers
with a source that is read in these two pieces). -/
theorem eager_tail_counterexample : ¬ EagerTailComplete := by
  intro h
  have := h (fun _ => none) chunkWitness
  revert this
  decide

open Xs.Backends in
example : deferredReads (fun _ => none) chunkWitness = [some "TAIL".toList, none, none] := by decide
open Xs.Backends in
example : eagerReads (fun _ => none) chunkWitness = [none, none, none] := by decide

/-! ## 7. from bytes to the result (`Backends/Infoset.lean`)

CDATA sections, character references, encodings, quotes, empty-element tags, comments and
processing instructions are resolved by the tokeniser.  `TokeniserContract` states what the rest
of the system relies on — the events are the events of the document's infoset — and the
correspondence checks it on generated spellings (every rewrite kind, both handlers).  Given the
contract the theorems above are about bytes. -/

open Xs.Backends in
/-- **native_reads_infoset**: given the contract, `XmlParser(handler=XmlEventHandler).from_bytes`
returns what the binding layer makes of the document's infoset with every element's in-scope
namespaces: the handler's own bookkeeping of prefix maps (`merge_parent_namespaces`, dict order,
copy-on-declaration) cannot be told from it. -/
theorem native_reads_infoset (C : TokeniserContract) (e : BEnv) (Γ : Ctx) (cfg : ParserConfig) (c : ClassId)
    (b : ByteStr) (t : XTree) (h : C.infoset b = some t) :
    nativeResult C e Γ cfg c b = parseRoot e Γ cfg c (specTree [] t) := by
  unfold nativeResult
  rw [C.events_of_infoset b t h, assemble_pump]
  exact parseRoot_nsRel e Γ cfg c _ _
    (nsRel_native_spec e t [] [] (by intro p; simp [topMap, get_nil, inScope]))

open Xs.Backends in
/-- **infoset_invariant**: given the contract, two byte strings — any encodings, any spelling of
character data, comments and processing instructions anywhere — whose infosets agree up to what
`nsRel` allows for the prefix maps are parsed to the same result by the native handler. -/
theorem infoset_invariant (C : TokeniserContract) (e : BEnv) (Γ : Ctx) (cfg : ParserConfig) (c : ClassId)
    (b b' : ByteStr) (t t' : XTree) (h : C.infoset b = some t) (h' : C.infoset b' = some t')
    (hrel : nsRel e (specTree [] t) (specTree [] t') = true) :
    nativeResult C e Γ cfg c b = nativeResult C e Γ cfg c b' := by
  rw [native_reads_infoset C e Γ cfg c b t h, native_reads_infoset C e Γ cfg c b' t' h']
  exact parseRoot_nsRel e Γ cfg c _ _ hrel

open Xs.Backends in
/-- **same_infoset_same_result**: in particular two spellings of one infoset (CDATA / character
references / encoding / comments / PIs / quotes / empty-element tags differ). -/
theorem same_infoset_same_result (C : TokeniserContract) (e : BEnv) (Γ : Ctx) (cfg : ParserConfig) (c : ClassId)
    (b b' : ByteStr) (t : XTree) (h : C.infoset b = some t) (h' : C.infoset b' = some t) :
    nativeResult C e Γ cfg c b = nativeResult C e Γ cfg c b' := by
  rw [native_reads_infoset C e Γ cfg c b t h, native_reads_infoset C e Γ cfg c b' t h']

open Xs.Backends in
/-- `<Plain xmlns:p="urn:p" a="7" b="v"><x>hello</x><y xmlns:q="urn:q">true</y></Plain>` -/
def plainX : XTree :=
  .node [("p".toList, "urn:p".toList)] "Plain".toList [("a".toList, "7".toList), ("b".toList, "v".toList)] .passed none
    [.node [] "x".toList [] .passed (some "hello".toList) [] none,
     .node [("q".toList, "urn:q".toList)] "y".toList [] .passed (some "true".toList) [] none] none

open Xs.Backends in
/-- a (toy) tokeniser that satisfies the contract: every byte string spells `plainX` -/
def toyContract : TokeniserContract := ⟨fun _ => toks plainX, fun _ => some plainX, by intro b t h; cases h; rfl⟩

open Xs.Backends in
example : Data.primOf (nativeResult toyContract Data.benv Data.ctx {} "Plain".toList []) "y" = some (.bool true) := by
  decide

/-! ## 8. a document split with XInclude (`Backends/XInclude.lean`)

Both handlers replace every `xi:include` element by the root element of the named document; `T`
below is the merged document (`xiExpand`: `get_base_url`, `xinclude_loader`,
`ElementInclude.include`).  The lxml handler then passes every element's in-scope namespaces
(`mergedResult T`).  The native handler walks an ElementTree, which has forgotten the prefix
declarations: it parses `T` *with the declarations `iterwalk` invents* — one per namespaced
element, none for prefixes that only values use, never a default namespace. -/

open Xs.Backends in
/-- **xinclude_native_reads_redeclared**: exactly what `XmlEventHandler` with
`process_xinclude=True` returns, for every world (files, `urljoin`), base url and document. -/
theorem xinclude_native_reads_redeclared (W : XiWorld) (wk : List (Str × Str)) (fuel : Nat) (cfgBase src : Option Str)
    (root : XTree) (e : BEnv) (Γ : Ctx) (cfg : ParserConfig) (c : ClassId) :
    nativeXiResult W wk fuel cfgBase src root e Γ cfg c =
      (xiExpand W fuel cfgBase src root).map fun T => mergedResult (redecl wk T []).1 e Γ cfg c := by
  unfold nativeXiResult nativeXiCalls mergedResult
  cases xiExpand W fuel cfgBase src root with
  | error err => rfl
  | ok T =>
    simp only [Except.map, assemble_nativeParseTree, parse_nativeTree]

open Xs.Backends in
/-- **xinclude_invariant_partial** (values): when every lexical value of the merged document resolves
under the invented declarations as under the real ones (`nsRel`: no QName content or `xsi:type` that
uses a prefix or a default namespace, no name-like wildcard attribute value, …) the split document is
parsed by the native handler like the merged one — and like the lxml handler parses it. -/
theorem xinclude_invariant_partial (W : XiWorld) (wk : List (Str × Str)) (fuel : Nat) (cfgBase src : Option Str)
    (root T : XTree) (e : BEnv) (Γ : Ctx) (cfg : ParserConfig) (c : ClassId)
    (hT : xiExpand W fuel cfgBase src root = .ok T)
    (h : nsRel e (specTree [] (redecl wk T []).1) (specTree [] T) = true) :
    nativeXiResult W wk fuel cfgBase src root e Γ cfg c = .ok (mergedResult T e Γ cfg c) := by
  rw [xinclude_native_reads_redeclared, hT]
  simp only [Except.map, mergedResult, parseRoot_nsRel e Γ cfg c _ _ h]

open Xs.Backends in
/-- **xinclude_invariant_partial_types**: the same for every universe without QName typed fields and
merged documents without xsi:type and name-like wildcard attribute values (under either set of
declarations), whatever else the values look like. -/
theorem xinclude_invariant_partial_types (W : XiWorld) (wk : List (Str × Str)) (fuel : Nat) (cfgBase src : Option Str)
    (root T : XTree) (e : BEnv) (Γ : Ctx) (cfg : ParserConfig) (c : ClassId) (hΓ : ctxNoQ Γ = true)
    (hT : xiExpand W fuel cfgBase src root = .ok T)
    (h1 : treeOk (specTree [] (redecl wk T []).1) = true) (h2 : treeOk (specTree [] T) = true) :
    nativeXiResult W wk fuel cfgBase src root e Γ cfg c = .ok (mergedResult T e Γ cfg c) := by
  rw [xinclude_native_reads_redeclared, hT]
  simp only [Except.map, mergedResult]
  rw [prefix_invariant_partial e Γ cfg hΓ c _ _ h1 h2 (by rw [eraseNs_specTree, eraseNs_specTree, skel_redecl])]

open Xs.Backends in
/-- the full-strength statement: the split document is parsed like the merged one -/
def XIncludeInvariant : Prop :=
  ∀ (W : XiWorld) (wk : List (Str × Str)) (fuel : Nat) (cfgBase src : Option Str) (root T : XTree)
    (e : BEnv) (Γ : Ctx) (cfg : ParserConfig) (c : ClassId),
    xiExpand W fuel cfgBase src root = .ok T →
    nativeXiResult W wk fuel cfgBase src root e Γ cfg c = .ok (mergedResult T e Γ cfg c)

open Xs.Backends in
/-- `<QRoot xmlns:z="urn:z"><q>z:n1</q></QRoot>`, no include in it at all -/
def xiWitness : XTree :=
  .node [("z".toList, "urn:z".toList)] "QRoot".toList [] .passed none
    [.node [] "q".toList [] .passed (some "z:n1".toList) [] none] none

open Xs.Backends in
/-- **xinclude_counterexample** (finding c09-native-xinclude-prefixes): QName content loses its
prefix declaration: `q` is the QName `{urn:z}n1` for the merged document and the unconverted
string `z:n1` (with a ConverterWarning) for the native handler with `process_xinclude`. -/
theorem xinclude_counterexample : ¬ XIncludeInvariant := by
  intro h
  have := h ⟨fun _ h => h, fun _ => none⟩ [] 10 none none xiWitness xiWitness Data.benv Data.ctxQ {} "QRoot".toList (by rfl)
  have h2 := congrArg (fun r => match r with | .ok x => Data.primOf x "q" | .error _ => none) this
  revert h2
  decide

open Xs.Backends in
theorem xinclude_witness :
    (match nativeXiResult ⟨fun _ h => h, fun _ => none⟩ [] 10 none none xiWitness Data.benv Data.ctxQ {} "QRoot".toList with
      | .ok x => Data.primOf x "q" | .error _ => none) = some (.str "z:n1".toList) ∧
    Data.primOf (mergedResult xiWitness Data.benv Data.ctxQ {} "QRoot".toList) "q" = some (.qname "{urn:z}n1".toList) := by
  decide

open Xs.Backends in
/-- `<Plain a="7"><xi:include href="x.xml"/>…` with `x.xml` = `<x>hello</x>`: expands, and the values pass `nsRel` -/
def xiWorld : XiWorld :=
  ⟨fun b h => b ++ h, fun f => if f = "/d/x.xml".toList then some (.node [] "x".toList [] .passed (some "hello".toList) [] none) else none⟩
open Xs.Backends in
def xiMain : XTree :=
  .node [("xi".toList, xiNs)] "Plain".toList [("a".toList, "7".toList)] .passed none
    [.node [] xiInclude [("href".toList, "x.xml".toList)] .passed none [] (some "\n".toList)] none
open Xs.Backends in
example : (match xiExpand xiWorld 10 none (some "/d/".toList) xiMain with
    | .ok T => nsRel Data.benv (specTree [] (redecl [] T []).1) (specTree [] T) | .error _ => false) = true := by decide
open Xs.Backends in
example : (match nativeXiResult xiWorld [] 10 none (some "/d/".toList) xiMain Data.benv Data.ctx {} "Plain".toList with
    | .ok x => Data.primOf x "x" | .error _ => none) = some (.str "hello".toList) := by decide

/-- **xml_base_witness** (finding c09-lxml-xinclude-xml-base): libxml2's XInclude adds an `xml:base`
attribute to a root element included from another directory; the binding layer treats it like any
other attribute: with `fail_on_unknown_attributes` the split document is rejected, the merged one
(and the native handler's) is not. -/
theorem xml_base_witness :
    (match parseRoot Data.benv Data.ctx { failOnUnknownAttributes := true } "Plain".toList
        (.node "Plain".toList [("a".toList, "7".toList), ("{http://www.w3.org/XML/1998/namespace}base".toList, "sub/p.xml".toList)]
          [] none [] none) with
      | .error (.parser _) => true | _ => false) = true ∧
    Data.primOf (parseRoot Data.benv Data.ctx { failOnUnknownAttributes := true } "Plain".toList
        (.node "Plain".toList [("a".toList, "7".toList)] [] none [] none)) "a" = some (.int 7) := by
  decide

end Props.C09
