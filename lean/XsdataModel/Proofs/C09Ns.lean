/- C09 helper lemmas: where the parser model reads the prefix map of an element
(`QNameConverter.resolve` for QName typed values and xsi:type, and
`ParserUtils.parse_any_attribute`), and that it reads it nowhere else. -/
import XsdataModel.Bind.Parse

namespace Proofs.C09
open Py Xs.Bind

/-! ### erasing the prefix maps -/

mutual
/-- the same tree with every prefix map emptied -/
def eraseNs : Tree → Tree
  | .node q a _ t c tl => .node q a [] t (eraseNsL c) tl
def eraseNsL : List Tree → List Tree
  | [] => []
  | t :: ts => eraseNs t :: eraseNsL ts
end

def Node.eraseNs : Node → Node
  | .element m a _ d xt xn => .element m a [] d xt xn
  | .primitive pm v _ nil => .primitive pm v [] nil
  | .standard v dt _ nl d mx => .standard v dt [] nl d mx
  | .wildcard v a _ => .wildcard v a []
  | .skip => .skip
  | .wrapper q => .wrapper q

/-! ### decidable side conditions -/

/-- no xsi:type attribute -/
def noXsi (a : List (QN × Str)) : Bool := (a.find? (·.1 = xsiType)).isNone

/-- `parse_any_attribute` leaves every attribute value alone under this prefix map: no value
has the form `p:rest` with `p` a declared prefix (and `rest` not starting with `//`) -/
def attrsStable (a : List (QN × Str)) (n : NsMap) : Bool := a.all fun kv => parseAnyAttribute kv.2 n = kv.2

mutual
/-- no element carries xsi:type and no attribute value looks like a name with a declared prefix -/
def treeOk : Tree → Bool
  | .node _ a n _ c _ => noXsi a && attrsStable a n && treeOkL c
def treeOkL : List Tree → Bool
  | [] => true
  | t :: ts => treeOk t && treeOkL ts
end

def coreNoQ (v : VarCore) : Bool := !v.types.contains (.prim .qname)
def varNoQ (v : XmlVar) : Bool :=
  coreNoQ v.toVarCore && v.elements.all (fun p => coreNoQ p.2) && v.wildcards.all coreNoQ
/-- no field of the class is QName typed -/
def metaNoQ (m : XmlMeta) : Bool :=
  (match m.text with | some v => varNoQ v | none => true) && m.choices.all varNoQ &&
  m.elements.all (fun p => p.2.all varNoQ) && m.wildcards.all varNoQ &&
  m.attributes.all (fun p => varNoQ p.2) && m.anyAttributes.all varNoQ
/-- no class of the universe has a QName typed field -/
def ctxNoQ (Γ : Ctx) : Bool := Γ.classes.all fun ci => ci.metas.all fun pm => metaNoQ pm.2

def nodeOk : Node → Bool
  | .element m a n _ _ _ => metaNoQ m && attrsStable a n
  | .primitive _ v _ _ => varNoQ v
  | .standard _ dt _ _ _ _ => dt ≠ .qname
  | .wildcard _ a n => attrsStable a n
  | .skip => true
  | .wrapper _ => true

/-! ### the converters -/

theorem deOne_ns (e : BEnv) (s : Str) (t : TypeRef) (n n' : NsMap) (h : t ≠ .prim .qname) :
    deOne e s t n = deOne e s t n' := by
  cases t with
  | prim p => cases p <;> simp_all [deOne]
  | cls c => rfl
  | obj => rfl
  | other o => rfl

theorem deserialize_ns (e : BEnv) (s : Str) (ts : List TypeRef) (n n' : NsMap)
    (h : ts.contains (.prim .qname) = false) : deserialize e s ts n = deserialize e s ts n' := by
  unfold deserialize
  induction ts with
  | nil => rfl
  | cons t ts ih =>
    simp only [List.contains_cons, Bool.or_eq_false_iff] at h
    have ht : t ≠ .prim .qname := by
      intro heq; subst heq; simp at h
    simp only [List.findSome?_cons, deOne_ns e s t n n' ht, ih h.2]

theorem parseVar_ns (e : BEnv) (cfg : ParserConfig) (var : VarCore) (value : Option Str) (n n' : NsMap)
    (types : Option (List TypeRef)) (h : (types.getD var.types).contains (.prim .qname) = false) :
    parseVar e cfg var value n types = parseVar e cfg var value n' types := by
  unfold parseVar
  cases value with
  | none => rfl
  | some s =>
    have hd : ∀ t, deserialize e t (types.getD var.types) n = deserialize e t (types.getD var.types) n' :=
      fun t => deserialize_ns e t _ n n' h
    simp only [hd]

theorem xsiTypeOf_noXsi (e : BEnv) (a : List (QN × Str)) (n : NsMap) (h : noXsi a = true) :
    xsiTypeOf e a n = .ok none := by
  unfold noXsi at h
  unfold xsiTypeOf
  cases hf : a.find? (·.1 = xsiType) with
  | none => rfl
  | some x => simp [hf] at h

theorem nsGet_nil (p : Option Str) : NsMap.get [] p = none := rfl

theorem parseAnyAttribute_nil (v : Str) : parseAnyAttribute v [] = v := by
  unfold parseAnyAttribute
  cases h : (textSplit v ':').1 with
  | none => simp [h]
  | some p => by_cases hp : p.isEmpty <;> simp [h, hp, nsGet_nil]

theorem attrsStable_nil (a : List (QN × Str)) : attrsStable a [] = true := by
  simp [attrsStable, parseAnyAttribute_nil]

theorem foldl_congr_mem {α β} (f g : β → α → β) (l : List α) (h : ∀ x ∈ l, ∀ acc, f acc x = g acc x) :
    ∀ init, l.foldl f init = l.foldl g init := by
  induction l with
  | nil => intro _; rfl
  | cons x xs ih =>
    intro init
    simp only [List.foldl_cons, h x (List.mem_cons_self ..)]
    exact ih (fun y hy => h y (List.mem_cons_of_mem _ hy)) _

theorem foldlM_congr_mem {α β ε} (f g : β → α → Except ε β) (l : List α) (h : ∀ x ∈ l, ∀ acc, f acc x = g acc x) :
    ∀ init, l.foldlM f init = l.foldlM g init := by
  induction l with
  | nil => intro _; rfl
  | cons x xs ih =>
    intro init
    simp only [List.foldlM_cons, h x (List.mem_cons_self ..)]
    congr 1
    funext s
    exact ih (fun y hy => h y (List.mem_cons_of_mem _ hy)) s

theorem parseAnyAttributes_ns (a : List (QN × Str)) (n : NsMap) (h : attrsStable a n = true) :
    parseAnyAttributes a n = parseAnyAttributes a [] := by
  unfold parseAnyAttributes
  apply foldl_congr_mem
  intro kv hkv acc
  have : parseAnyAttribute kv.2 n = kv.2 := by
    simp only [attrsStable, List.all_eq_true, decide_eq_true_eq] at h
    exact h kv hkv
  obtain ⟨k, v⟩ := kv
  simp only [this, parseAnyAttribute_nil] at *

/-! ### metadata lookups stay inside the checked metadata -/

theorem find?_mem' {α} {p : α → Bool} {l : List α} {x : α} (h : l.find? p = some x) : x ∈ l :=
  List.mem_of_find?_eq_some h

theorem findAttribute_ok (m : XmlMeta) (hm : metaNoQ m = true) (q : QN) (v : XmlVar)
    (h : m.findAttribute q = some v) : varNoQ v = true := by
  unfold XmlMeta.findAttribute at h
  cases hf : m.attributes.find? (·.1 = q) with
  | none => simp [hf] at h
  | some p =>
    simp [hf] at h
    subst h
    simp only [metaNoQ, Bool.and_eq_true, List.all_eq_true] at hm
    exact hm.1.2 p (find?_mem' hf)

theorem varNoQ_types (v : XmlVar) (h : varNoQ v = true) : v.types.contains (.prim .qname) = false := by
  simp only [varNoQ, coreNoQ, Bool.and_eq_true, Bool.not_eq_true'] at h
  exact h.1.1

theorem toVar_ok (c : VarCore) (h : coreNoQ c = true) : varNoQ c.toVar = true := by
  simp [varNoQ, VarCore.toVar, h]

theorem findChoice_ok (v : XmlVar) (hv : varNoQ v = true) (q : QN) (c : XmlVar) (h : v.findChoice q = some c) :
    varNoQ c = true := by
  simp only [varNoQ, Bool.and_eq_true, List.all_eq_true] at hv
  unfold XmlVar.findChoice at h
  split at h
  · rename_i q' core hf
    cases h
    exact toVar_ok _ (hv.1.2 _ (find?_mem' hf))
  · unfold findByNamespaceCore at h
    cases hf : v.wildcards.find? (fun w => matchNamespace w.namespaces q) with
    | none => simp [hf] at h
    | some core =>
      simp [hf] at h
      subst h
      exact toVar_ok _ (hv.2 _ (find?_mem' hf))

theorem findWildcard_ok (m : XmlMeta) (hm : metaNoQ m = true) (q : QN) (v : XmlVar)
    (h : m.findWildcard q = some v) : varNoQ v = true := by
  have hw : ∀ w ∈ m.wildcards, varNoQ w = true := by
    simp only [metaNoQ, Bool.and_eq_true, List.all_eq_true] at hm
    exact hm.1.1.2
  unfold XmlMeta.findWildcard at h
  unfold findByNamespace at h
  cases hf : m.wildcards.find? (fun w => matchNamespace w.namespaces q) with
  | none => simp [hf] at h
  | some w =>
    have hwo := hw w (find?_mem' hf)
    simp only [hf] at h
    split at h
    · cases hc : w.findChoice q with
      | none => simp [hc] at h; subst h; exact hwo
      | some c => simp [hc] at h; subst h; exact findChoice_ok w hwo q c hc
    · cases h; exact hwo

theorem findChildren_ok (m : XmlMeta) (hm : metaNoQ m = true) (q : QN) :
    ∀ v ∈ m.findChildren q, varNoQ v = true := by
  intro v hv
  have hm' := hm
  simp only [metaNoQ, Bool.and_eq_true, List.all_eq_true] at hm'
  unfold XmlMeta.findChildren at hv
  simp only [List.mem_append] at hv
  rcases hv with (hv | hv) | hv
  · cases hf : m.elements.find? (·.1 = q) with
    | none => simp [hf] at hv
    | some p =>
      simp [hf] at hv
      exact hm'.1.1.1.2 p (find?_mem' hf) v hv
  · simp only [List.mem_filterMap] at hv
    obtain ⟨c, hc, hcv⟩ := hv
    exact findChoice_ok c (hm'.1.1.1.1.2 c hc) q v hcv
  · simp only [Option.mem_toList] at hv
    exact findWildcard_ok m hm q v hv

/-- every metadata `XmlContext.fetch` returns is one of the exported metadata of the universe -/
theorem fetch_all (P : XmlMeta → Bool) (Γ : Ctx) (hΓ : (Γ.classes.all fun ci => ci.metas.all fun pm => P pm.2) = true)
    (c : ClassId) (pns : Option Str) (xt : Option QN) (m : XmlMeta)
    (h : Γ.fetch c pns xt = .ok m) : P m = true := by
  have hfind : ∀ c' pns' m', (Γ.find c').bind (·.metaFor pns') = some m' → P m' = true := by
    intro c' pns' m' h'
    cases hf : Γ.find c' with
    | none => simp [hf] at h'
    | some ci =>
      simp only [hf, Option.bind_some] at h'
      have hci : ci ∈ Γ.classes := find?_mem' (by unfold Ctx.find at hf; exact hf)
      simp only [List.all_eq_true] at hΓ
      have hall := hΓ ci hci
      unfold ClassInfo.metaFor at h'
      split at h'
      · rename_i p m'' hf'
        cases h'
        exact hall _ (find?_mem' hf')
      · cases hh : ci.metas.head? with
        | none => simp [hh] at h'
        | some pm =>
          simp [hh] at h'
          subst h'
          exact hall pm (List.mem_of_head? hh)
  unfold Ctx.fetch at h
  split at h
  · cases h
  · rename_i m0 hm0
    split at h
    · split at h
      · split at h
        · split at h
          · rename_i sm hsm
            cases h; exact hfind _ _ _ hsm
          · cases h
        · cases h; exact hfind _ _ _ hm0
      · cases h; exact hfind _ _ _ hm0
    · cases h; exact hfind _ _ _ hm0

theorem fetch_ok (Γ : Ctx) (hΓ : ctxNoQ Γ = true) (c : ClassId) (pns : Option Str) (xt : Option QN) (m : XmlMeta)
    (h : Γ.fetch c pns xt = .ok m) : metaNoQ m = true :=
  fetch_all metaNoQ Γ hΓ c pns xt m h

/-! ### the binding steps that receive a prefix map -/

theorem bindAttrs_ns (e : BEnv) (cfg : ParserConfig) (m : XmlMeta) (hm : metaNoQ m = true)
    (a : List (QN × Str)) (n : NsMap) (h : attrsStable a n = true) :
    bindAttrs e cfg m a n = bindAttrs e cfg m a [] := by
  unfold bindAttrs
  apply foldlM_congr_mem
  intro kv hkv acc
  have hs : parseAnyAttribute kv.2 n = kv.2 := by
    simp only [attrsStable, List.all_eq_true, decide_eq_true_eq] at h
    exact h kv hkv
  obtain ⟨k, v⟩ := kv
  obtain ⟨params, warns⟩ := acc
  simp only at hs
  simp only [hs, parseAnyAttribute_nil]
  cases hfa : m.findAttribute k with
  | none => rfl
  | some var =>
    have hv := varNoQ_types var (findAttribute_ok m hm k var hfa)
    have hp := parseVar_ns e cfg var.toVarCore (some v) n [] none (by simpa using hv)
    by_cases hh : params.has var.name = true
    · simp [hh]
    · simp [hh, hp]

theorem bindText_ns (e : BEnv) (cfg : ParserConfig) (m : XmlMeta) (hm : metaNoQ m = true) (xn : Option Bool)
    (n : NsMap) (params : Params) (text : Option Str) :
    bindText e cfg m xn n params text = bindText e cfg m xn [] params text := by
  unfold bindText
  cases ht : m.text with
  | none => rfl
  | some var =>
    have hv : varNoQ var = true := by
      simp only [metaNoQ, ht, Bool.and_eq_true] at hm
      exact hm.1.1.1.1.1
    have hp := parseVar_ns e cfg var.toVarCore text n [] none (by simpa using varNoQ_types var hv)
    simp only [hp]

theorem bindWildText_ns (e : BEnv) (w : XmlVar) (a : List (QN × Str)) (n : NsMap) (h : attrsStable a n = true)
    (params : Params) (text tail : Option Str) :
    bindWildText e w a n params text tail = bindWildText e w a [] params text tail := by
  unfold bindWildText
  simp only [parseAnyAttributes_ns a n h]

theorem exMap_ok {ε α β} (f : α → β) (x : α) : Except.map f (.ok x : Except ε α) = .ok (f x) := rfl

theorem buildElementNode_ns (Γ : Ctx) (pns c d nl a n df xt xn) :
    buildElementNode Γ pns c d nl a [] df xt xn =
      (buildElementNode Γ pns c d nl a n df xt xn).map (Option.map Node.eraseNs) := by
  unfold buildElementNode
  cases hf : Γ.fetch c pns xt with
  | error err => rfl
  | ok m =>
    cases xn with
    | none => rfl
    | some b =>
      by_cases hb : (nl || m.nillable) = b
      · simp [bind, Except.bind, hb, pure, Except.pure, Except.map, Node.eraseNs]
      · simp [bind, Except.bind, hb, pure, Except.pure, Except.map, Node.eraseNs]

theorem buildNode_ns (e : BEnv) (Γ : Ctx) (pm : XmlMeta) (q : QN) (var : XmlVar) (a : List (QN × Str)) (n : NsMap)
    (hx : noXsi a = true) :
    buildNode e Γ pm q var a [] = (buildNode e Γ pm q var a n).map (Option.map Node.eraseNs) := by
  unfold buildNode
  simp only [xsiTypeOf_noXsi e a _ hx, buildElementNode_ns Γ _ _ _ _ a n]
  by_cases hu : var.isClazzUnion = true
  · simp [hu, bind, Except.bind, throw, throwThe, MonadExceptOf.throw, Except.map]
  · simp only [hu, Bool.false_eq_true, if_false, bind, Except.bind, Option.bind_none, pure, Except.pure]
    cases hc : var.clazz with
    | some c => rfl
    | none =>
      by_cases hp : (!var.anyType && !var.isWildcard) = true
      · simp [hp, Except.map, Node.eraseNs]
      · simp only [hp, Bool.false_eq_true, if_false]
        cases h2 : (if var.processContents ≠ "skip".toList then Γ.findType q else none) with
        | none => simp [Except.map, Node.eraseNs]
        | some c =>
          cases hb : buildElementNode Γ pm.namespace c false var.nillable a n false none (xsiNilOf a) with
          | error err => simp [Except.map, hb]
          | ok r => cases r <;> simp [Except.map, hb, Node.eraseNs]

theorem buildElementNode_ok (Γ : Ctx) (hΓ : ctxNoQ Γ = true) (pns c d nl a n df xt xn) (hs : attrsStable a n = true)
    (node : Node) (h : buildElementNode Γ pns c d nl a n df xt xn = .ok (some node)) : nodeOk node = true := by
  unfold buildElementNode at h
  cases hf : Γ.fetch c pns xt with
  | error err => simp [hf, bind, Except.bind] at h
  | ok m =>
    have hm := fetch_ok Γ hΓ c pns xt m hf
    simp only [hf, bind, Except.bind, pure, Except.pure] at h
    split at h
    · split at h
      · cases h
      · cases h; simp [nodeOk, hm, hs]
    · cases h; simp [nodeOk, hm, hs]

theorem buildNode_ok (e : BEnv) (Γ : Ctx) (hΓ : ctxNoQ Γ = true) (pm : XmlMeta) (q : QN) (var : XmlVar)
    (hv : varNoQ var = true) (a : List (QN × Str)) (n : NsMap) (hx : noXsi a = true) (hs : attrsStable a n = true)
    (node : Node) (h : buildNode e Γ pm q var a n = .ok (some node)) : nodeOk node = true := by
  unfold buildNode at h
  simp only [xsiTypeOf_noXsi e a _ hx] at h
  by_cases hu : var.isClazzUnion = true
  · simp [hu, bind, Except.bind, throw, throwThe, MonadExceptOf.throw] at h
  · simp only [hu, Bool.false_eq_true, if_false, bind, Except.bind, Option.bind_none, pure, Except.pure] at h
    cases hc : var.clazz with
    | some c =>
      simp only [hc] at h
      exact buildElementNode_ok Γ hΓ _ _ _ _ a n _ _ _ hs node h
    | none =>
      simp only [hc] at h
      by_cases hp : (!var.anyType && !var.isWildcard) = true
      · simp only [hp, if_true] at h
        cases h
        simpa [nodeOk] using hv
      · simp only [hp, Bool.false_eq_true, if_false] at h
        cases h2 : (if var.processContents ≠ "skip".toList then Γ.findType q else none) with
        | none =>
          simp only [h2] at h
          cases h
          simpa [nodeOk] using hs
        | some c =>
          simp only [h2] at h
          cases hb : buildElementNode Γ pm.namespace c false var.nillable a n false none (xsiNilOf a) with
          | error err => simp [hb] at h
          | ok r =>
            cases r with
            | none => simp [hb] at h; subst h; simpa [nodeOk] using hs
            | some nd =>
              simp [hb] at h
              subst h
              exact buildElementNode_ok Γ hΓ _ _ _ _ a n _ _ _ hs nd hb

theorem childNode_go_ns (e : BEnv) (Γ : Ctx) (cfg : ParserConfig) (m : XmlMeta) (st : ElState) (q : QN)
    (a : List (QN × Str)) (n : NsMap) (w : Option QN) (hx : noXsi a = true) (vars : List XmlVar) :
    childNode.go e Γ cfg m st q a [] w vars =
      (childNode.go e Γ cfg m st q a n w vars).map (fun p => (Node.eraseNs p.1, p.2)) := by
  induction vars with
  | nil =>
    unfold childNode.go
    by_cases hc : cfg.failOnUnknownProperties = true <;> simp [hc, Except.map, Node.eraseNs]
  | cons var rest ih =>
    simp only [childNode.go, ih, buildNode_ns e Γ m q var a n hx]
    cases hb : buildNode e Γ m q var a n with
    | error err =>
      simp only [Except.map]
      split
      · rfl
      · split <;> split <;> rfl
    | ok r =>
      cases r with
      | none =>
        simp only [Except.map, Option.map]
        split
        · rfl
        · split <;> split <;> rfl
      | some nd =>
        simp only [Except.map, Option.map]
        split
        · rfl
        · split <;> split <;> rfl

theorem childNode_go_ok (e : BEnv) (Γ : Ctx) (hΓ : ctxNoQ Γ = true) (cfg : ParserConfig) (m : XmlMeta) (st : ElState)
    (q : QN) (a : List (QN × Str)) (n : NsMap) (w : Option QN) (hx : noXsi a = true) (hs : attrsStable a n = true)
    (vars : List XmlVar) (hv : ∀ v ∈ vars, varNoQ v = true) (node : Node) (st' : ElState)
    (h : childNode.go e Γ cfg m st q a n w vars = .ok (node, st')) : nodeOk node = true := by
  induction vars with
  | nil =>
    unfold childNode.go at h
    split at h
    · cases h
    · cases h; rfl
  | cons var rest ih =>
    have ih' := ih (fun v hv' => hv v (List.mem_cons_of_mem _ hv'))
    simp only [childNode.go] at h
    cases hb : buildNode e Γ m q var a n with
    | error err =>
      simp only [hb] at h
      repeat' split at h
      all_goals first | exact ih' h | cases h
    | ok r =>
      cases r with
      | none =>
        simp only [hb] at h
        repeat' split at h
        all_goals exact ih' h
      | some nd =>
        have hnd := buildNode_ok e Γ hΓ m q var (hv var (List.mem_cons_self ..)) a n hx hs nd hb
        simp only [hb] at h
        repeat' split at h
        all_goals first | exact ih' h | (cases h; exact hnd)

theorem childNode_ns (e : BEnv) (Γ : Ctx) (cfg : ParserConfig) (m : XmlMeta) (st : ElState) (q : QN)
    (a : List (QN × Str)) (n : NsMap) (w : Option QN) (hx : noXsi a = true) :
    childNode e Γ cfg m st q a [] w =
      (childNode e Γ cfg m st q a n w).map (fun p => (Node.eraseNs p.1, p.2)) := by
  unfold childNode
  exact childNode_go_ns e Γ cfg m st q a n w hx _

theorem childNode_ok (e : BEnv) (Γ : Ctx) (hΓ : ctxNoQ Γ = true) (cfg : ParserConfig) (m : XmlMeta)
    (hm : metaNoQ m = true) (st : ElState) (q : QN) (a : List (QN × Str)) (n : NsMap) (w : Option QN)
    (hx : noXsi a = true) (hs : attrsStable a n = true) (node : Node) (st' : ElState)
    (h : childNode e Γ cfg m st q a n w = .ok (node, st')) : nodeOk node = true := by
  unfold childNode at h
  exact childNode_go_ok e Γ hΓ cfg m st q a n w hx hs _ (findChildren_ok m hm q) node st' h

theorem eraseNsL_isEmpty (c : List Tree) : (eraseNsL c).isEmpty = c.isEmpty := by
  cases c <;> simp [eraseNsL]

/-! ### the parser does not read the prefix maps anywhere else -/

theorem parseNode_eraseNs (e : BEnv) (Γ : Ctx) (cfg : ParserConfig) (hΓ : ctxNoQ Γ = true) (node : Node) (t : Tree) :
    nodeOk node = true → treeOk t = true →
      parseNode e Γ cfg node t = parseNode e Γ cfg (Node.eraseNs node) (eraseNs t) := by
  refine parseNode.induct
    (motive_1 := fun node t => nodeOk node = true → treeOk t = true →
      parseNode e Γ cfg node t = parseNode e Γ cfg (Node.eraseNs node) (eraseNs t))
    (motive_2 := fun m st w kids => metaNoQ m = true → treeOkL kids = true →
      parseKids e Γ cfg m st w kids = parseKids e Γ cfg m st w (eraseNsL kids))
    (motive_3 := fun var kids => treeOkL kids = true →
      parseWild e Γ cfg var kids = parseWild e Γ cfg var (eraseNsL kids))
    ?skip ?wrapper ?prim1 ?prim2 ?std1 ?std2 ?wild ?elem ?knil ?kwrap ?kcons ?wnil ?wcons node t
  case skip => intros; simp [parseNode, Node.eraseNs, eraseNs]
  case wrapper => intros; simp [parseNode, Node.eraseNs, eraseNs]
  case prim1 =>
    intro q a n t c tl pm var ns nil hc _ _
    simp only [parseNode, Node.eraseNs, eraseNs, eraseNsL_isEmpty, hc, if_true]
  case prim2 =>
    intro q a n t c tl pm var ns nil hc hn _
    have hv : varNoQ var = true := by simpa [nodeOk] using hn
    have hp := parseVar_ns e cfg var.toVarCore t ns [] none (by simpa using varNoQ_types var hv)
    simp only [parseNode, Node.eraseNs, eraseNs, eraseNsL_isEmpty, hc, hp]
  case std1 =>
    intro q a n t c tl var dt ns nl d mx hc _ _
    simp only [parseNode, Node.eraseNs, eraseNs, eraseNsL_isEmpty, hc, if_true]
  case std2 =>
    intro q a n t c tl var dt ns nl d mx hc hn _
    have hdt : dt ≠ .qname := by simpa [nodeOk] using hn
    have hp := parseVar_ns e cfg var.toVarCore t ns [] (some [.prim dt]) (by
      cases dt <;> simp_all)
    simp only [parseNode, Node.eraseNs, eraseNs, eraseNsL_isEmpty, hc, hp]
  case wild =>
    intro q a n t c tl var ats ns ih hn ht
    have hs : attrsStable ats ns = true := by simpa [nodeOk] using hn
    have hk : treeOkL c = true := by
      simp only [treeOk, Bool.and_eq_true] at ht
      exact ht.2
    simp only [parseNode, Node.eraseNs, eraseNs, ih hk, parseAnyAttributes_ns ats ns hs]
  case elem =>
    intro q a n t c tl m ats ns d xt xn ih hn ht
    have hn' : metaNoQ m = true ∧ attrsStable ats ns = true := by simpa [nodeOk] using hn
    have hk : treeOkL c = true := by
      simp only [treeOk, Bool.and_eq_true] at ht
      exact ht.2
    simp only [parseNode, Node.eraseNs, eraseNs, ih hn'.1 hk, bindAttrs_ns e cfg m hn'.1 ats ns hn'.2,
      bindText_ns e cfg m hn'.1 xn ns, bindWildText_ns e _ ats ns hn'.2]
  case knil => intros; simp [eraseNsL]
  case kwrap =>
    intro m st w q a n t c tl rest hcond ih1 ih2 hm ht
    simp only [treeOkL, treeOk, Bool.and_eq_true] at ht
    simp only [parseKids, eraseNsL, eraseNs, hcond, if_true, ih1 hm ht.1.2, fun st' => ih2 st' hm ht.2]
  case kcons =>
    intro m st w q a n t c tl rest hcond ih1 ih2 hm ht
    simp only [treeOkL, treeOk, Bool.and_eq_true] at ht
    obtain ⟨⟨⟨hx, hs⟩, hc⟩, hrest⟩ := ht
    have htree : treeOk (.node q a n t c tl) = true := by simp [treeOk, hx, hs, hc]
    simp only [parseKids, eraseNsL, eraseNs, hcond, Bool.false_eq_true, if_false,
      childNode_ns e Γ cfg m st q a n w hx, fun st' => ih2 st' hm hrest]
    cases hch : childNode e Γ cfg m st q a n w with
    | error err => rfl
    | ok p =>
      obtain ⟨nd, st'⟩ := p
      have hnd := childNode_ok e Γ hΓ cfg m hm st q a n w hx hs nd st' hch
      have := ih1 nd hnd htree
      simp only [eraseNs] at this
      simp only [Except.map, bind, Except.bind, this]
  case wnil => intros; simp [eraseNsL]
  case wcons =>
    intro var q a n t c tl rest ih1 ih2 ht
    simp only [treeOkL, treeOk, Bool.and_eq_true] at ht
    obtain ⟨⟨⟨hx, hs⟩, hc⟩, hrest⟩ := ht
    have htree : treeOk (.node q a n t c tl) = true := by simp [treeOk, hx, hs, hc]
    have := ih1 (by simpa [nodeOk] using hs) htree
    simp only [eraseNs, Node.eraseNs] at this
    simp only [parseWild, eraseNsL, eraseNs, this, ih2 hrest]

theorem parseRoot_eraseNs (e : BEnv) (Γ : Ctx) (cfg : ParserConfig) (hΓ : ctxNoQ Γ = true) (c : ClassId) (t : Tree)
    (ht : treeOk t = true) : parseRoot e Γ cfg c t = parseRoot e Γ cfg c (eraseNs t) := by
  cases t with
  | node q a n t ch tl =>
    have ht' := ht
    simp only [treeOk, Bool.and_eq_true] at ht'
    obtain ⟨⟨hx, hs⟩, _⟩ := ht'
    simp only [parseRoot, eraseNs, xsiTypeOf_noXsi e a _ hx, bind, Except.bind]
    cases hf : Γ.fetch c none none with
    | error err => rfl
    | ok m =>
      have hm := fetch_ok Γ hΓ c none none m hf
      have := parseNode_eraseNs e Γ cfg hΓ
        (.element m a n (!(Option.isNone (none : Option QN) || m.qname = q))
          (if (!(Option.isNone (none : Option QN) || m.qname = q)) = true then none else none) (xsiNilOf a))
        (.node q a n t ch tl) (by simp [nodeOk, hm, hs]) ht
      simp only [Node.eraseNs, eraseNs] at this
      simp only [this]

end Proofs.C09
