/-
QName-valued attributes (`xsi:type`, …) below the root: for EVERY element of the document the
text the writer puts into the attribute resolves, in the namespace scope an XML reader computes
for that element from the declarations written on it and on its ancestors, to the QName of the
event (or it is the bare local name: the region of findings c03-qname-default-ns / -reset).

The walk `QAll` follows the tree writer `calls` (same maps, same flush points); the scope of an
element is `applyDecls parentScope (newPrefixes parentMap f.map)` — what `pStep` computes for the
`Tok.open_ w decls …` token, whose `decls` are `newPrefixes parentMap f.map` (`open_elem`).
The invariant that carries the induction is `ScopeEq scope map` (+ `K2`, `MapOK`), kept by `flush_inv`.
-/
import XsdataModel.Proofs.QNameScope

namespace Proofs.QNameEverywhere
open Py Xs.Ns Xs.Sax Xs.Writer Spec.XmlNs Spec.EventTree Spec.Hyps
open Proofs.MapInv Proofs.Flush Proofs.Resolve Proofs.TreeWriter Proofs.Generator Proofs.QNameScope

/-- the attribute dict after the ATTR events keeps an entry no later event names -/
theorem attrsRun_dget_other (env : NsEnv) (n : EName) : ∀ (post : List (Str × Val)) (M M2 : NsMap) (A A2 : Attrs),
    attrsRun env post M A = some (M2, A2) → (∀ e ∈ post, splitQName e.1 ≠ .ok n) → dget A2 n = dget A n := by
  intro post
  induction post with
  | nil => intro M M2 A A2 h _; simp [attrsRun] at h; rw [h.2]
  | cons a r ih =>
    obtain ⟨q, v⟩ := a
    intro M M2 A A2 h hne
    simp only [attrsRun] at h
    split at h
    · cases h
    · rename_i name hq
      split at h
      · cases h
      · rename_i val M' _
        have h1 := ih M' M2 (dset A name val) A2 h (fun e he => hne e (List.mem_cons_of_mem _ he))
        rw [h1]
        have hnn : name ≠ n := by
          intro heq
          exact hne (q, v) (by simp) (by rw [hq, heq])
        exact dget_dset_other A name n val hnn

/-- the ATTR events of an element: the text that ends up in the attribute dict for a QName value
with a declarable namespace is `Bound` in the map the element ends up with, or the bare local name -/
theorem attrsRun_bound_text (env : NsEnv) (henv : EnvOK env) (d : Option Str)
    (pre post : List (Str × Val)) (qa : Str) (v : Val) (t u l : Str) (n : EName) (M M2 : NsMap) (A A2 : Attrs)
    (hM : MapOK env d M) (hA : AttrsOK d A)
    (hall : (pre ++ (qa, v) :: post).all (attrOK env d) = true)
    (hv : xsiTypeValue env qa v = .atom (.qname t)) (ht : clark t = some (some u, l))
    (hn : splitQName qa = .ok n) (hlast : ∀ e ∈ post, splitQName e.1 ≠ .ok n)
    (hrun : attrsRun env (pre ++ (qa, v) :: post) M A = some (M2, A2)) :
    ∃ s, dget A2 n = some (some s) ∧ (s = l ∨ Bound M2 s u l) := by
  simp only [List.all_append, List.all_cons, Bool.and_eq_true] at hall
  obtain ⟨hpre, ha, hpost⟩ := hall
  obtain ⟨Mp, Ap, hp, _, hMp, hAp⟩ := Proofs.Attrs.attrsRun_ok env henv d pre M A hM hA hpre
  rw [attrsRun_append, hp] at hrun
  simp only [Option.bind] at hrun
  simp only [attrOK, Bool.and_eq_true] at ha
  obtain ⟨⟨hname, hval⟩, _⟩ := ha
  rw [hv] at hval
  have hu : uriOK u = true := by
    simpa [Spec.Hyps.valOK, atomOK, qnameTextOK, ht] using hval
  cases hc : clark qa with
  | none => rw [hc] at hname; cases hname
  | some n' =>
    rw [hc] at hname
    simp only [] at hname
    have hs := clark_splitQName qa n' hc
    rw [hn] at hs
    cases hs
    obtain ⟨s, M1, hser, _, hM1, hb⟩ := serializeQName_bound env henv d t u l Mp hMp ht hu
    obtain ⟨val, M1', he, _, _, hx⟩ := encodeData_ok env henv d (.atom (.qname t)) Mp hMp (by simpa using hval)
    have he2 : encodeData env (.atom (.qname t)) Mp = .ok (some s, M1) := by
      simp [encodeData, serializeAtom, hser]
    rw [he2] at he
    simp only [Except.ok.injEq, Prod.mk.injEq] at he
    obtain ⟨hval2, hM1eq⟩ := he
    subst hM1eq
    have hxs : xmlChars s = true := hx s hval2.symm
    simp only [attrsRun, hn, hv, he2] at hrun
    obtain ⟨M2', A2', h2, e2, _, _⟩ := Proofs.Attrs.attrsRun_ok env henv d post M1 (dset Ap n (some s)) hM1
      (hAp.dset n s hname hxs) hpost
    have hrun' := hrun
    rw [hrun] at h2
    simp only [Option.some.injEq, Prod.mk.injEq] at h2
    obtain ⟨h2a, _⟩ := h2
    subst h2a
    have hd : dget A2 n = some (some s) := by
      rw [attrsRun_dget_other env n post M1 M2 (dset Ap n (some s)) A2 hrun' hlast]
      exact dget_dset_same Ap n (some s)
    rcases hb with hb | hb
    · exact ⟨s, hd, Or.inl hb⟩
    · exact ⟨s, hd, Or.inr (hb.ext e2)⟩

/-- the QName-valued attributes of an element (the last event for each name) are in the pending
attribute dict `A` with a text that resolves in the scope `S` (or is the bare local name) -/
def AttrsResolve (env : NsEnv) (attrs : List (Str × Val)) (A : Attrs) (S : List (Pfx × Str)) : Prop :=
  ∀ (pre post : List (Str × Val)) (qa : Str) (v : Val) (t u l : Str) (n : EName),
    attrs = pre ++ (qa, v) :: post → xsiTypeValue env qa v = .atom (.qname t) →
    clark t = some (some u, l) → splitQName qa = .ok n → (∀ e ∈ post, splitQName e.1 ≠ .ok n) →
    ∃ s, dget A n = some (some s) ∧ (s = l ∨ resolveElem S s = some (some u, l))

/-- what `flush_start` makes of a pending element, given its content (cf. the `.body` cases of `calls`) -/
def bodyFlush (env : NsEnv) (base : NsMap) (tag : EName) (A : Attrs) (M2 : NsMap) : Content → Option Flushed
  | .nil => some (flushed env true base tag A M2)
  | .data v _ =>
    match encodeData env v M2 with
    | .error _ => none
    | .ok (val, M3) => some (flushed env val.isNone base tag A M3)
  | .child _ _ _ _ => some (flushed env false base tag A M2)

/-- every element of the forest `c` (content of an element whose map is `M` and whose scope is `S`):
its QName-valued attributes resolve in its own scope -/
def QAll (env : NsEnv) : NsMap → List (Pfx × Str) → Content → Prop
  | _, _, .nil => True
  | M, S, .data _ rest => QAll env M S rest
  | M, S, .child q attrs kids rest =>
    (∀ tag M2 A f, splitQName q = .ok tag → attrsRun env attrs (addNamespace env tag.1 M) [] = some (M2, A) →
      bodyFlush env M tag A M2 kids = some f →
      AttrsResolve env attrs A (applyDecls S (newPrefixes M f.map))
      ∧ QAll env f.map (applyDecls S (newPrefixes M f.map)) kids)
    ∧ QAll env M S rest

/-- one pending element: from the invariants of its parent to its own scope and invariants -/
theorem elem_step (env : NsEnv) (henv : EnvOK env) (d : Option Str) (base Y : NsMap) (tag : EName)
    (attrs : List (Str × Val)) (A : Attrs) (M0 : NsMap) (kids : Content) (f : Flushed)
    (S : List (Pfx × Str)) (gcur : List (Str × Pfx))
    (hM0 : MapOK env d M0) (hrun : attrsRun env attrs M0 [] = some (base ++ Y, A))
    (hattrs : attrs.all (attrOK env d) = true)
    (hM2 : MapOK env d (base ++ Y)) (hA : AttrsOK d A) (hYok : YOK base Y)
    (hK : K2 base gcur) (hS : ScopeEq S base) (hkids : contentOK env d kids = true)
    (hf : bodyFlush env base tag A (base ++ Y) kids = some f) :
    AttrsResolve env attrs A (applyDecls S (newPrefixes base f.map))
    ∧ MapOK env d f.map ∧ ScopeEq (applyDecls S (newPrefixes base f.map)) f.map
    ∧ ∃ gcur', K2 f.map gcur' := by
  -- the map the flush starts from: `base ++ Y'`, an extension of the map after the attributes
  have key : ∃ (isNil : Bool) (Y' : NsMap), f = flushed env isNil base tag A (base ++ Y') ∧ Ext (base ++ Y) (base ++ Y')
      ∧ MapOK env d (base ++ Y') ∧ YOK base Y' := by
    cases kids with
    | nil => simp only [bodyFlush, Option.some.injEq] at hf; exact ⟨true, Y, hf.symm, Ext.refl _, hM2, hYok⟩
    | child q' a' k' r' => simp only [bodyFlush, Option.some.injEq] at hf; exact ⟨false, Y, hf.symm, Ext.refl _, hM2, hYok⟩
    | data v k' =>
      simp only [contentOK, Bool.and_eq_true] at hkids
      obtain ⟨val2, M3', he2, hext, hM3, _⟩ := encodeData_ok env henv d v (base ++ Y) hM2 (Proofs.Attrs.dataValOK_valOK v hkids.1)
      simp only [bodyFlush, he2, Option.some.injEq] at hf
      obtain ⟨Y', hY', hYok'⟩ := ext_base base Y M3' hext hYok
      subst hY'
      exact ⟨val2.isNone, Y', hf.symm, hext, hM3, hYok'⟩
  obtain ⟨isNil, Y', hfeq, hext, hM3, hYok'⟩ := key
  -- as in `open_elem`: the namespaces of the attribute names, then `flush_inv`
  generalize hA'def : (if !isNil then dpop A (some env.xsiNil.1, env.xsiNil.2) else A) = A'
  have hA' : AttrsOK d A' := by
    rw [← hA'def]; split
    · exact hA.dpop _
    · exact hA
  have hnsA : ∀ e ∈ A', nsPartOK e.1.1 = true := by
    intro e he
    have := hA'.names e he
    simp only [attrNameOK, Bool.and_eq_true] at this
    cases h1 : e.1.1 with
    | none => rfl
    | some u => rw [h1] at this; exact this.2
  obtain ⟨eA, okA, _⟩ := addAttrNamespaces_ok env henv d A' (base ++ Y') hM3 hnsA
  obtain ⟨X, hX, hXk⟩ := eA
  have hMa : addAttrNamespaces env A' (base ++ Y') = base ++ (Y' ++ X) := by rw [hX]; simp
  rw [hMa] at okA
  obtain ⟨okF, _, _, hscope, hK2⟩ := flush_inv env d base (Y' ++ X) tag S gcur okA hS hK (YOK_append base Y' X hYok' hXk)
  have hmap : f.map = resetDefaultNamespace tag (base ++ (Y' ++ X)) := by
    rw [hfeq]
    unfold flushed
    simp only [hA'def, hMa]
  rw [hmap]
  refine ⟨?_, okF, hscope, _, hK2⟩
  intro pre post qa v t u l n hsplit hv ht hn hlast
  subst hsplit
  obtain ⟨s, hd, hb⟩ := attrsRun_bound_text env henv d pre post qa v t u l n M0 (base ++ Y) [] A hM0 (AttrsOK.nil d)
    hattrs hv ht hn hlast hrun
  refine ⟨s, hd, ?_⟩
  rcases hb with hb | hb
  · exact Or.inl hb
  · have hb' := (hb.ext hext).atFlush env henv d hM3 isNil base tag A hA
    rw [← hfeq, hmap] at hb'
    exact Or.inr (hb'.resolves (clark_some_ns t u l ht).2 _ hscope)

/-- **every element below**: the invariants of an open element give `QAll` for its content -/
theorem qall (env : NsEnv) (henv : EnvOK env) (d : Option Str) : ∀ (c : Content) (M : NsMap)
    (S : List (Pfx × Str)) (gcur : List (Str × Pfx)),
    MapOK env d M → K2 M gcur → ScopeEq S M → contentOK env d c = true → QAll env M S c := by
  intro c
  induction c with
  | nil => intro M S gcur _ _ _ _; trivial
  | data v rest ih =>
    intro M S gcur hM hK hS hok
    simp only [contentOK, Bool.and_eq_true] at hok
    exact ih M S gcur hM hK hS hok.2
  | child q attrs kids rest ihk ihr =>
    intro M S gcur hM hK hS hok
    simp only [contentOK, Bool.and_eq_true] at hok
    obtain ⟨⟨⟨hname, hattrs⟩, hokk⟩, hokr⟩ := hok
    refine ⟨?_, ihr M S gcur hM hK hS hokr⟩
    intro tag M2 A f hq ha hf
    obtain ⟨⟨Y, hY, hYk⟩, hM2, hA, _⟩ := child_start env henv d M q attrs tag M2 A hM hq ha hname hattrs
    subst hY
    have hM0 : MapOK env d (addNamespace env tag.1 M) := by
      unfold elemNameOK at hname
      cases hc : clark q with
      | none => rw [hc] at hname; cases hname
      | some n =>
        rw [hc] at hname
        have hs := clark_splitQName q n hc
        rw [hq] at hs
        cases hs
        exact (addNamespace_ok env henv d tag.1 M hM hname).2.1
    obtain ⟨h1, h2, h3, gcur', h4⟩ := elem_step env henv d M Y tag attrs A _ kids f S gcur hM0 ha hattrs hM2 hA
      (YOK_of_prefixed M Y hYk) hK hS hokk hf
    exact ⟨h1, ihk f.map _ gcur' h2 h4 h3 hokk⟩

open Proofs.UserMap in
/-- **the whole document**: root element included -/
theorem document_qall (env : NsEnv) (henv : envOK env = true) (m : List (Pfx × Str)) (hm : userMapOK env m = true)
    (q : Str) (attrs : List (Str × Val)) (kids : Content)
    (hok : contentOK env (userDefault m) (.child q attrs kids .nil) = true)
    (tag : EName) (hq : splitQName q = .ok tag) (M2 : NsMap) (A : Attrs)
    (ha : attrsRun env attrs (addNamespace env tag.1 (serializerNsMap m)) [] = some (M2, A))
    (f : Flushed) (hf : bodyFlush env [] tag A M2 kids = some f) :
    AttrsResolve env attrs A (applyDecls [] (newPrefixes [] f.map))
    ∧ QAll env f.map (applyDecls [] (newPrefixes [] f.map)) kids := by
  have hE := envOK_sound env henv
  have hM0 := userMapOK_MapOK env m hm
  simp only [contentOK, Bool.and_eq_true] at hok
  obtain ⟨⟨⟨hname, hattrs⟩, hokk⟩, _⟩ := hok
  obtain ⟨⟨X, hX, hXk⟩, hM2, hA, _⟩ :=
    child_start env hE (userDefault m) (serializerNsMap m) q attrs tag M2 A hM0 hq ha hname hattrs
  have hYok : YOK [] M2 := by
    intro u' hu'
    refine ⟨rfl, serializerNsMap m, X, hX, hXk, ?_⟩
    intro s' hs'
    have hn0 : dget (serializerNsMap m) none = some u' := by
      rw [hX, dget_append] at hu'
      cases h0 : dget (serializerNsMap m) none with
      | some v' => rw [h0] at hu'; exact hu'
      | none =>
        rw [h0] at hu'
        exact absurd rfl (hXk _ (dget_some_mem _ _ _ hu'))
    exact serializerNsMap_nodflt env m hm s' u' hs' hn0
  have hMa : MapOK env (userDefault m) (addNamespace env tag.1 (serializerNsMap m)) := by
    unfold elemNameOK at hname
    cases hc : clark q with
    | none => rw [hc] at hname; cases hname
    | some n =>
      rw [hc] at hname
      have hs := clark_splitQName q n hc
      rw [hq] at hs
      cases hs
      exact (addNamespace_ok env hE (userDefault m) tag.1 (serializerNsMap m) hM0 hname).2.1
  obtain ⟨h1, h2, h3, gcur', h4⟩ := elem_step env hE (userDefault m) [] M2 tag attrs A _ kids f [] [] hMa
    (by simpa using ha) hattrs (by simpa using hM2) hA hYok K2_nil (by intro k; rfl) hokk (by simpa using hf)
  exact ⟨h1, qall env hE (userDefault m) kids f.map _ gcur' h2 h4 h3 hokk⟩

end Proofs.QNameEverywhere
