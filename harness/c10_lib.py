"""C10 helpers: injection of unknown content into documents and dictionaries, labelling of
document elements with the node that binds them, real-code adapters for the dictionary
decoder, and the independent bookkeeping the oracles need (what a class declares, read
from the universe *description*, not from xsdata)."""
from __future__ import annotations

import copy
import json
import warnings
from dataclasses import field, fields, is_dataclass, make_dataclass
from typing import Optional

import bindgen as G
import bindlib as B
from bindcases import documents, n_cases, new_universe, uni_of

XSI = "http://www.w3.org/2001/XMLSchema-instance"
XMLNS = "http://www.w3.org/XML/1998/namespace"
FRESH_NS = "urn:c10:unknown"

CFG8 = [
    {"fail_on_unknown_properties": p, "fail_on_unknown_attributes": a, "fail_on_converter_warnings": c}
    for p in (True, False)
    for a in (False, True)
    for c in (False, True)
]


def cfg_key(c):
    dflt = {"fail_on_unknown_properties": True, "fail_on_unknown_attributes": False, "fail_on_converter_warnings": False}
    return "".join("1" if c.get(k, dflt[k]) else "0" for k in dflt)


# --------------------------------------------------------------------------
# unknown subtrees
# --------------------------------------------------------------------------
def el(q, a=(), t=None, c=(), tl=None):
    return {"q": q, "a": [list(x) for x in a], "ns": [], "t": t, "c": list(c), "tl": tl}


def unknown_shapes(tree):
    """Subtrees whose root name cannot be declared by any generated class (fresh namespace /
    reserved local name). Inside they carry attributes, text, tails, deep nesting and
    *copies of elements of the document* (names that are known elsewhere)."""
    known = [copy.deepcopy(n) for _, n in G.tree_paths(tree)][:4]
    for k in known:
        k["tl"] = None
    fresh = "{%s}zz9" % FRESH_NS
    return [
        ("empty", el(fresh)),
        ("plain-name", el("zz9unknown", t="text")),
        ("attrs-text-tail", el(fresh, a=[("k", "v"), ("{%s}k2" % FRESH_NS, "")], t=" some text ", tl="tail text")),
        ("deep", el(fresh, t=" ", c=[el("{%s}d1" % FRESH_NS, t="x", c=[el("d2", c=[el("d3", t="deepest", tl="t3")], tl="t2")]), el("d1b")], tl="\n  ")),
        ("known-names-inside", el(fresh, a=[("{%s}type" % XSI, "xs:int"), ("{%s}nil" % XSI, "true")], c=known, tl=None)),
    ]


def insert_child(tree, path, pos, sub):
    t = copy.deepcopy(tree)
    G.tree_at(t, path)["c"].insert(pos, copy.deepcopy(sub))
    return t


def set_attr(tree, path, k, v):
    t = copy.deepcopy(tree)
    n = G.tree_at(t, path)
    for kv in n["a"]:
        if kv[0] == k:
            kv[1] = v
            return t
    n["a"].append([k, v])
    return t


def set_text(tree, path, text):
    t = copy.deepcopy(tree)
    G.tree_at(t, path)["t"] = text
    return t


UNKNOWN_ATTRS = [
    ("fresh-ns", "{%s}att" % FRESH_NS, "v"),
    ("plain", "zz9att", ""),
    ("xml-lang", "{%s}lang" % XMLNS, "en"),
]
XSI_ATTRS = [
    ("xsi-schemaLocation", "{%s}schemaLocation" % XSI, "urn:a a.xsd"),
    ("xsi-noNs", "{%s}noNamespaceSchemaLocation" % XSI, "a.xsd"),
    ("xsi-other", "{%s}zz9" % XSI, "x"),
]
BAD_VALUES = ["zz9", " 12x ", "truee", "1 2", ""]


# --------------------------------------------------------------------------
# which node binds which element (real parser, original document only)
# --------------------------------------------------------------------------
def label_elements(uni: B.Universe, clazz: str, tree):
    """pre-order list of labels, one per element of `tree`:
    ("element", class name) | ("wrapper", parent class) | ("primitive", var name, [type names], list?, tokens?, init?)
    | ("standard",) | ("wildcard",) | ("skip",) | ("union",) ; None when the parse does not get that far."""
    from xsdata.formats.dataclass.context import XmlContext
    from xsdata.formats.dataclass.parsers import nodes as N
    from xsdata.formats.dataclass.parsers.bases import NodeParser
    from xsdata.formats.dataclass.parsers.config import ParserConfig
    from xsdata.formats.dataclass.parsers.mixins import EventsHandler

    labels = []

    class Rec(NodeParser):
        def start(self, clazz, queue, objects, qname, attrs, ns_map):
            super().start(clazz, queue, objects, qname, attrs, ns_map)
            n = queue[-1]
            if isinstance(n, N.ElementNode):
                labels.append(("element", n.meta.clazz.__name__))
            elif isinstance(n, N.WrapperNode):
                labels.append(("wrapper", n.parent.meta.clazz.__name__))
            elif isinstance(n, N.PrimitiveNode):
                v = n.var
                labels.append(("primitive", v.name, [getattr(t, "__name__", str(t)) for t in v.types], bool(v.list_element), bool(v.tokens), bool(v.init), n.meta.clazz.__name__))
            elif isinstance(n, N.StandardNode):
                labels.append(("standard",))
            elif isinstance(n, N.WildcardNode):
                labels.append(("wildcard",))
            elif isinstance(n, N.SkipNode):
                labels.append(("skip",))
            else:
                labels.append(("union",))

    p = Rec(context=XmlContext(models_package=uni.modname), config=ParserConfig(fail_on_unknown_properties=False), handler=EventsHandler)
    with warnings.catch_warnings():
        warnings.simplefilter("ignore")
        try:
            p.parse(B.tree_events(tree), uni.classes[clazz])
        except Exception:  # noqa: BLE001
            pass
    paths = [p for p, _ in G.tree_paths(tree)]
    return {tuple(pa): (labels[i] if i < len(labels) else None) for i, pa in enumerate(paths)}


# --------------------------------------------------------------------------
# what a class declares, from the description alone
# --------------------------------------------------------------------------
def desc_fields(desc, cname):
    by = {c["name"]: c for c in desc["classes"]}
    out = []
    for b in by[cname].get("bases", []):
        out += desc_fields(desc, b)
    return out + by[cname]["fields"]


def declares_wildcard(desc, cname):
    return any(f.get("metadata", {}).get("type") == "Wildcard" for f in desc_fields(desc, cname))


def declares_any_attributes(desc, cname):
    return any(f.get("metadata", {}).get("type") == "Attributes" for f in desc_fields(desc, cname))


def has_subclasses(desc, cname):
    return any(cname in c.get("bases", []) for c in desc["classes"])


# --------------------------------------------------------------------------
# real parser routes
# --------------------------------------------------------------------------
ROUTES = ("events", "native", "lxml")


def parse_route(uni, clazz, tree, config, route):
    if route == "events":
        return B.real_parse_tree(uni, clazz, tree, config)
    return G.real_parse_bytes(uni, clazz, G.tree_xml(tree), handler=route, config=config)


# --------------------------------------------------------------------------
# dictionaries
# --------------------------------------------------------------------------
MARK = "__c10cls__"


def encode_marked(uni: B.Universe, obj):
    """real DictEncoder output in which every dict that stands for a dataclass instance
    carries the class name under MARK"""
    from xsdata.formats.dataclass.context import XmlContext
    from xsdata.formats.dataclass.serializers.dict import DictEncoder

    class Enc(DictEncoder):
        def next_value(self, o):
            yield MARK, type(o).__name__
            yield from super().next_value(o)

    return Enc(context=XmlContext(models_package=uni.modname)).encode(obj)


def marked_paths(d, path=()):
    """paths (keys / list indexes) of the dicts that stand for universe dataclasses"""
    if isinstance(d, dict):
        if MARK in d:
            yield path, d[MARK]
        for k, v in d.items():
            yield from marked_paths(v, path + (k,))
    elif isinstance(d, list):
        for i, v in enumerate(d):
            yield from marked_paths(v, path + (i,))


def strip_marks(d):
    if isinstance(d, dict):
        return {k: strip_marks(v) for k, v in d.items() if k != MARK}
    if isinstance(d, list):
        return [strip_marks(v) for v in d]
    return d


def dict_at(d, path):
    for k in path:
        d = d[k]
    return d


def inject_key(data, path, key, value, pos):
    d = copy.deepcopy(data)
    tgt = dict_at(d, path)
    items = list(tgt.items())
    items.insert(min(pos, len(items)), (key, copy.deepcopy(value)))
    tgt.clear()
    tgt.update(items)
    return d


UNKNOWN_KEY = "zz9_unknown"
UNKNOWN_VALUES = [1, "s", None, [1, 2], {"a": 1}, {"zz": {"deep": [1, {"x": None}]}}, [], {}]


def real_decode(uni: B.Universe, clazz: str, data, config: dict, via="dict"):
    from xsdata.exceptions import ConverterWarning
    from xsdata.formats.dataclass.context import XmlContext
    from xsdata.formats.dataclass.parsers import DictDecoder, JsonParser
    from xsdata.formats.dataclass.parsers.config import ParserConfig

    ctx = XmlContext(models_package=uni.modname)
    with warnings.catch_warnings(record=True) as w:
        warnings.simplefilter("always")
        try:
            if via == "dict":
                obj = DictDecoder(context=ctx, config=ParserConfig(**config)).decode(copy.deepcopy(data), uni.classes[clazz])
            else:
                obj = JsonParser(context=ctx, config=ParserConfig(**config)).from_string(json.dumps(data), uni.classes[clazz])
        except Exception as e:  # noqa: BLE001
            r = B.classify_exc(e)
            r["msg"] = str(e)[:120]
            return r
    n = sum(1 for x in w if issubclass(x.category, ConverterWarning))
    return {"ok": {"value": uni.to_val(obj), "warnings": n}}


# ---- dict.bindkeys: the real bind_dataclass loop with the value binder stubbed out
def export_dvars(meta):
    return [
        {"name": v.name, "local_name": v.local_name, "wrapper": v.wrapper, "is_list": bool(v.list_element or v.tokens), "init": bool(v.init)}
        for v in meta.get_all_vars()
    ]


def shape_of(value):
    from xsdata.utils import collections

    if collections.is_array(value):
        return "array"
    if isinstance(value, dict):
        return {"object": [[k, bool(collections.is_array(v))] for k, v in value.items()]}
    return "scalar"


def shape_value(shape, key):
    """a JSON value of the given shape whose leaves name the key it sits under"""
    tag = "K:" + key
    if shape == "scalar":
        return tag
    if shape == "array":
        return [tag]
    return {m: ([tag] if arr else tag) for m, arr in shape["object"]}


def _leaf(v):
    if isinstance(v, str):
        return v[2:] if v.startswith("K:") else None
    if isinstance(v, (list, tuple)):
        for x in v:
            r = _leaf(x)
            if r is not None:
                return r
    if isinstance(v, dict):
        for x in v.values():
            r = _leaf(x)
            if r is not None:
                return r
    return None


def real_bindkeys(clazz, data: dict, config: dict):
    """DictDecoder.bind_dataclass on `data` with bind_value / bind_derived_dataclass /
    class_factory replaced by recorders: returns what the loop decided"""
    from xsdata.exceptions import ParserError
    from xsdata.formats.dataclass.context import XmlContext
    from xsdata.formats.dataclass.parsers import DictDecoder
    from xsdata.formats.dataclass.parsers.config import ParserConfig

    seen = {}

    class Stub(DictDecoder):
        def bind_value(self, meta, var, value, recursive=False):
            if not var.init:
                return var.default() if callable(var.default) else var.default
            return ("bound", _leaf(value))

        def bind_derived_dataclass(self, data, clazz):
            seen["derived"] = True
            return None

    def factory(cls, params):
        seen["params"] = [[k, v[1] if isinstance(v, tuple) else None] for k, v in params.items()]
        return None

    dec = Stub(context=XmlContext(), config=ParserConfig(class_factory=factory, **config))
    try:
        dec.bind_dataclass(data, clazz)
    except ParserError:
        return {"err": "ParserError"}
    except Exception as e:  # noqa: BLE001
        return {"err": "LEAK:" + type(e).__name__}
    if seen.get("derived"):
        return {"ok": {"derived": True, "params": []}}
    return {"ok": {"derived": False, "params": seen.get("params", [])}}


# ---- dict.best: the real bind_best_dataclass with the per-class attempt stubbed out
_BEST_CLASSES = {}


def best_class(names: tuple):
    """a model class declaring exactly the given element names (all Optional[object])"""
    if names not in _BEST_CLASSES:
        flds = [(n, Optional[object], field(default=None, metadata={"type": "Element"})) for n in names]
        cls = make_dataclass("C10Best_" + "_".join(names) if names else "C10Best_none", flds)
        cls.__module__ = __name__
        _BEST_CLASSES[names] = cls
    return _BEST_CLASSES[names]


def real_best(keys, cands):
    """cands: [{id, local_names, attempt}], attempt = None (the attempt raises) or the score in half points"""
    from xsdata.exceptions import ParserError
    from xsdata.formats.dataclass.context import XmlContext
    from xsdata.formats.dataclass.parsers import DictDecoder

    classes = []
    table = {}
    for c in cands:
        cls = make_dataclass(c["id"], [], bases=(best_class(tuple(c["local_names"])),))
        classes.append(cls)
        table[cls] = c

    def fake(self, data, clazz):
        c = table[clazz]
        if c["attempt"] is None:
            raise ValueError("attempt fails")
        n_str, n_other = c["_mix"]  # 2 half points per string value, 3 per other value
        names = list(c["local_names"])
        kw = {n: "s" for n in names[:n_str]}
        kw.update({n: 5 for n in names[n_str : n_str + n_other]})
        return clazz(**kw)

    orig = DictDecoder.bind_dataclass
    DictDecoder.bind_dataclass = fake
    try:
        data = {k: "v" for k in keys}
        try:
            obj = DictDecoder(context=XmlContext()).bind_best_dataclass(data, classes)
        except ParserError:
            return {"err": "ParserError"}
        except Exception as e:  # noqa: BLE001
            return {"err": "LEAK:" + type(e).__name__}
    finally:
        DictDecoder.bind_dataclass = orig
    return {"ok": type(obj).__name__}
