/-
L2 — the part of CPython's `xml.sax.saxutils` that the native writer uses:
`escape`, `quoteattr`, and `XMLGenerator` (`startPrefixMapping`,
`endPrefixMapping`, `startElementNS`, `endElementNS`, `characters`,
`ignorableWhitespace`, `_qname`, short empty elements).

The generator's output is kept as a token list; `render` turns tokens into the
exact text `XMLGenerator` writes.
-/
import XsdataModel.Xml.Namespaces

namespace Xs.Sax
open Py Xs.Ns

/-- expanded name as passed through SAX: `(namespace or None, local)` -/
abbrev EName := Option Str × Str

/-- the SAX calls an `EventHandler` issues to its content handler -/
inductive Call
  | startPrefix (p : Pfx) (uri : Str)
  | endPrefix (p : Pfx)
  | startElem (name : EName) (attrs : List (EName × Option Str))
  | endElem (name : EName)
  | chars (s : Str)
  | ws (s : Str)            -- `ignorableWhitespace`, native writer's indentation only
  deriving DecidableEq, Repr

/-- what `XMLGenerator` writes -/
inductive Tok
  /-- `<name` + namespace declarations + attributes (names as written) -/
  | open_ (name : Str) (decls : List (Pfx × Str)) (attrs : List (Str × Str))
  /-- character data, written through `escape` with `\r` as `&#13;` -/
  | text (s : Str)
  /-- `ignorableWhitespace`: written as is -/
  | raw (s : Str)
  /-- `</name>`, or `/>` when it directly follows the `open_` -/
  | close (name : Str)
  deriving DecidableEq, Repr

/-! ### escape / quoteattr -/

def amp : Str := ['&', 'a', 'm', 'p', ';']
def gt : Str := ['&', 'g', 't', ';']
def lt : Str := ['&', 'l', 't', ';']
def quot : Str := ['&', 'q', 'u', 'o', 't', ';']
def ent10 : Str := ['&', '#', '1', '0', ';']
def ent13 : Str := ['&', '#', '1', '3', ';']
def ent9 : Str := ['&', '#', '9', ';']

/-- `escape(data)`: three `str.replace` calls, ampersand first -/
def escape (data : Str) : Str :=
  replaceChar (replaceChar (replaceChar data '&' amp) '>' gt) '<' lt

/-- `escape(data, {'\n': '&#10;', '\r': '&#13;', '\t': '&#9;'})` -/
def escapeAttr (data : Str) : Str :=
  replaceChar (replaceChar (replaceChar (escape data) '\n' ent10) '\r' ent13) '\t' ent9

/-- `escape(content, {"\r": "&#13;"})` — character data as `XmlGenerator.characters`
(serializers/writers/native.py) writes it -/
def escapeText (data : Str) : Str := replaceChar (escape data) '\r' ent13

/-- `escape(uri, {'"': "&quot;", "\n": "&#10;", "\r": "&#13;", "\t": "&#9;"})` — a namespace
uri as `XmlGenerator.startPrefixMapping` queues it for the declaration -/
def escapeDecl (uri : Str) : Str :=
  replaceChar (replaceChar (replaceChar (replaceChar (escape uri) '"' quot) '\n' ent10) '\r' ent13) '\t' ent9

/-- `quoteattr(data)` -/
def quoteattr (data : Str) : Str :=
  let d := escapeAttr data
  if d.contains '"' then
    if d.contains '\'' then '"' :: replaceChar d '"' quot ++ ['"']
    else '\'' :: d ++ ['\'']
  else '"' :: d ++ ['"']

/-! ### XMLGenerator -/

structure GState where
  /-- `_ns_contexts` (top first) -/
  ctxs : List (List (Str × Pfx))
  /-- `_current_context` : uri ↦ prefix -/
  cur : List (Str × Pfx)
  /-- `_undeclared_ns_maps` -/
  undeclared : List (Pfx × Str)
  /-- `_pending_start_element`, with the name that was written -/
  pending : Option Str

def GState.init : GState := ⟨[[]], [], [], none⟩

/-- `_qname(name)` -/
def gQName (xmlNs : Str) (g : GState) (name : EName) : Except Err Str :=
  match name.1 with
  | none => .ok name.2
  | some u =>
    if u.isEmpty then .ok name.2
    else if u = xmlNs then .ok ('x' :: 'm' :: 'l' :: ':' :: name.2)
    else match dget g.cur u with
      | none => .error .keyError
      | some none => .ok name.2
      | some (some p) => if p.isEmpty then .ok name.2 else .ok (p ++ ':' :: name.2)

/-- the attribute loop of `startElementNS`: `_qname(name)` then `quoteattr(value)` -/
def gAttrs (xmlNs : Str) (g : GState) : List (EName × Option Str) → Except Err (List (Str × Str))
  | [] => .ok []
  | (n, v) :: r =>
    match gQName xmlNs g n with
    | .error e => .error e
    | .ok n' =>
      match v with
      | none => .error .attributeError     -- `None.replace`
      | some v' =>
        match gAttrs xmlNs g r with
        | .error e => .error e
        | .ok r' => .ok ((n', v') :: r')

/-- one SAX call → tokens written, new state -/
def gStep (xmlNs : Str) (g : GState) : Call → Except Err (List Tok × GState)
  | .startPrefix p uri =>
    .ok ([], { g with ctxs := g.cur :: g.ctxs, cur := dset g.cur uri p,
                      undeclared := g.undeclared ++ [(p, uri)] })
  | .endPrefix _ =>
    match g.ctxs with
    | [] => .error .indexError
    | top :: rest => .ok ([], { g with cur := top, ctxs := rest })
  | .startElem name attrs =>
    match gQName xmlNs g name with
    | .error e => .error e
    | .ok n =>
      match gAttrs xmlNs g attrs with
      | .error e => .error e
      | .ok as => .ok ([.open_ n g.undeclared as], { g with undeclared := [], pending := some n })
  | .endElem name =>
    match g.pending with
    | some n => .ok ([.close n], { g with pending := none })
    | none =>
      match gQName xmlNs g name with
      | .error e => .error e
      | .ok n => .ok ([.close n], g)
  | .chars s => if s.isEmpty then .ok ([], g) else .ok ([.text s], { g with pending := none })
  | .ws s => if s.isEmpty then .ok ([], g) else .ok ([.raw s], { g with pending := none })

/-- feed a list of calls -/
def gRun (xmlNs : Str) : GState → List Call → Except Err (List Tok × GState)
  | g, [] => .ok ([], g)
  | g, c :: r =>
    match gStep xmlNs g c with
    | .error e => .error e
    | .ok (t1, g1) =>
      match gRun xmlNs g1 r with
      | .error e => .error e
      | .ok (t2, g2) => .ok (t1 ++ t2, g2)

/-! ### tokens → text -/

def xmlnsLit : Str := ['x', 'm', 'l', 'n', 's']

def renderDecl : Pfx × Str → Str
  | (some p, uri) =>
    if p.isEmpty then ' ' :: xmlnsLit ++ '=' :: '"' :: escapeDecl uri ++ ['"']
    else ' ' :: xmlnsLit ++ ':' :: p ++ '=' :: '"' :: escapeDecl uri ++ ['"']
  | (none, uri) => ' ' :: xmlnsLit ++ '=' :: '"' :: escapeDecl uri ++ ['"']

def renderAttr (a : Str × Str) : Str := ' ' :: a.1 ++ '=' :: quoteattr a.2

def renderOpen (name : Str) (decls : List (Pfx × Str)) (attrs : List (Str × Str)) : Str :=
  '<' :: name ++ decls.flatMap renderDecl ++ attrs.flatMap renderAttr

/-- the text `XMLGenerator(short_empty_elements=True)` wrote for these tokens -/
def render : List Tok → Str
  | [] => []
  | [.open_ n d a] => renderOpen n d a            -- `endDocument` does not finish a pending start tag
  | .open_ n d a :: .close _ :: r => renderOpen n d a ++ '/' :: '>' :: render r
  | .open_ n d a :: r => renderOpen n d a ++ '>' :: render r
  | .text s :: r => escapeText s ++ render r
  | .raw s :: r => s ++ render r
  | .close n :: r => '<' :: '/' :: n ++ '>' :: render r

end Xs.Sax
