/- C12 — property theorems (only). -/
import XsdataModel.Codegen.Pipeline
import XsdataModel.Codegen.Types
import XsdataModel.Codegen.SeqNum
import XsdataModel.Codegen.Cli

namespace Props.C12
open Py Xs.Codegen

theorem placeholder : True := trivial

end Props.C12
