"""C08 helpers: documents with explicit namespace-declaration layouts, lexical
variation (CDATA, character references, comments, PIs, quoting), the source
kinds of XmlParser, and adapters that run the REAL back-ends.

A DTree node is
  {"d": [[prefix|"" , uri]...]   declarations written on the element, in order
   "q": clark name, "qp": prefix used for the element name ("" = default / none)
   "a": [[clark, value]...], "ap": [prefix per attribute]
   "s": "passed"|"top"|"empty"   (how the stub parser keeps the map; see Backends/Handler.lean)
   "t": text|None, "c": [children], "tl": tail|None}
"""
from __future__ import annotations

import copy
import io
import os
import tempfile
import warnings
import xml.etree.ElementTree as ET

from lxml import etree as LE

import bindlib as B

XML_NS = "http://www.w3.org/XML/1998/namespace"

import logging

logging.getLogger("xsdata.formats.dataclass.parsers.nodes.element").setLevel(logging.ERROR)


def split(q):
    if q.startswith("{"):
        u, l = q[1:].split("}", 1)
        return u, l
    return None, q


# --------------------------------------------------------------------------
# Tree (in-scope maps, from bindgen.xml_tree) -> DTree with a random layout
# --------------------------------------------------------------------------
def layout(rng, tree, hoist=True, extras=True, allow_default=False):
    """An equivalent document with a different placement of declarations: every prefix
    of the original in-scope maps keeps its binding at every element (QName-valued
    content stays valid); declarations are repeated, hoisted to the parent, and
    fresh prefixes (never used by the original) are added, shadowed and used for names."""
    uris = []

    def collect(n):
        for q in [n["q"]] + [k for k, _ in n["a"]]:
            u, _ = split(q)
            if u and u != XML_NS and u not in uris:
                uris.append(u)
        for c in n["c"]:
            collect(c)

    collect(tree)
    uris = uris + ["urn:extra"]
    counter = [0]

    def uses_prefix(n, p):
        vals = [n["t"] or ""] + [v for _, v in n["a"]]
        return any((p + ":") in v for v in vals)

    def go(n, scope):
        need = {p: u for p, u in n["ns"] if p != "xml"}
        decls = []
        for p, u in need.items():
            if scope.get(p) != u and not (u == "" and p is None and not scope.get(None)):
                decls.append([p, u])
        if scope.get(None) and None not in need and not allow_default:
            decls.append([None, ""])
        if allow_default and not scope.get(None) and None not in need and split(n["q"])[0] and rng.random() < 0.3:
            decls.append([None, rng.choice([split(n["q"])[0], split(n["q"])[0], uris[0]])])
        if hoist and rng.random() < 0.35:
            for c in n["c"]:
                for p, u in c["ns"]:
                    if p and p != "xml" and u and p not in need and p not in scope and not any(d[0] == p for d in decls) \
                            and not uses_prefix(n, p):
                        decls.append([p, u])
        for p, u in need.items():
            if rng.random() < 0.08 and [p, u] not in decls and not (p is None and u == ""):
                decls.append([p, u])
        if extras:
            if rng.random() < 0.3:
                counter[0] += 1
                decls.append([f"x{counter[0]}", rng.choice(uris)])
            xs = [p for p in scope if p and p.startswith("x") and p[1:].isdigit()]
            if xs and rng.random() < 0.15:
                decls.append([rng.choice(xs), rng.choice(uris)])
        rng.shuffle(decls)
        sc = dict(scope)
        for p, u in decls:
            sc[p] = u

        def pick(uri, attr):
            if uri is None:
                return ""
            if uri == XML_NS:
                return "xml"
            cands = [p for p, u in sc.items() if u == uri and (p is not None or not attr)]
            if not cands:
                counter[0] += 1
                p = f"x{counter[0]}"
                decls.append([p, uri])
                sc[p] = uri
                return p
            return rng.choice(cands) or ""

        qu, _ = split(n["q"])
        if qu is None and sc.get(None):
            decls.append([None, ""])
            sc[None] = ""
        out = {
            "d": None, "q": n["q"], "qp": pick(qu, False), "a": [list(kv) for kv in n["a"]],
            "ap": [pick(split(k)[0], True) for k, _ in n["a"]], "s": "passed", "t": n["t"], "tl": n["tl"],
        }
        out["d"] = [[p or "", u] for p, u in decls]
        out["c"] = [go(c, sc) for c in n["c"]]
        return out

    return go(tree, {})


def plain_dtree(tree):
    """the layout the document already has (declarations where the in-scope map changes)"""

    def go(n, scope):
        need = {p: u for p, u in n["ns"] if p != "xml"}
        decls = [[p, u] for p, u in need.items() if scope.get(p) != u]
        sc = {**scope, **{p: u for p, u in decls}}

        def pick(uri, attr):
            if uri is None:
                return ""
            if uri == XML_NS:
                return "xml"
            for p, u in sc.items():
                if u == uri and (p is not None or not attr):
                    return p or ""
            raise ValueError("no prefix")

        return {
            "d": [[p or "", u] for p, u in decls], "q": n["q"], "qp": pick(split(n["q"])[0], False),
            "a": [list(kv) for kv in n["a"]], "ap": [pick(split(k)[0], True) for k, _ in n["a"]], "s": "passed",
            "t": n["t"], "c": [go(c, sc) for c in n["c"]], "tl": n["tl"],
        }

    return go(tree, {})


# --------------------------------------------------------------------------
# printing
# --------------------------------------------------------------------------
def esc_text(s):
    return s.replace("&", "&amp;").replace("<", "&lt;").replace(">", "&gt;").replace("\r", "&#13;")


def esc_attr(s, quote):
    s = s.replace("&", "&amp;").replace("<", "&lt;").replace("\n", "&#10;").replace("\r", "&#13;").replace("\t", "&#9;")
    return s.replace('"', "&quot;") if quote == '"' else s.replace("'", "&apos;")


COMMENTS = ["<!--c-->", "<!-- <x/> -->", "<!---->"]
PIS = ["<?pi data?>", "<?pi?>", "<?x-y a='1'?>"]


def misc_run(rng, kind):
    """one to three ADJACENT comments / processing instructions (`kind`: "c", "pi" or "m" for a mix)"""
    out = []
    for _ in range(rng.choice([1, 1, 2, 2, 3])):
        k = kind if kind in ("c", "pi") else rng.choice(["c", "pi"])
        out.append(rng.choice(COMMENTS if k == "c" else PIS))
    return "".join(out)


def fancy_text(rng, s, noise):
    """the same character data written with CDATA sections, character references and
    (when `noise`) runs of comments / processing instructions in front, in between and behind"""
    if not s:
        return ""
    out = []
    if noise and rng.random() < 0.25:
        out.append(misc_run(rng, noise))
    i = 0
    while i < len(s):
        j = min(len(s), i + rng.randint(1, 4))
        chunk = s[i:j]
        r = rng.random()
        if r < 0.2 and "]]>" not in chunk and "\r" not in chunk:
            out.append("<![CDATA[" + chunk + "]]>")
        elif r < 0.35:
            out.append("".join(f"&#{ord(ch)};" if rng.random() < 0.5 else f"&#x{ord(ch):x};" for ch in chunk))
        else:
            out.append(esc_text(chunk))
        if noise and rng.random() < (0.35 if j < len(s) else 0.25):
            out.append(misc_run(rng, noise))
        i = j
    return "".join(out)


def print_dtree(d, rng=None, noise=None, decl=False):
    """DTree -> document text. Without rng: one canonical spelling."""
    noise = noise or set()
    parts = []
    if decl:
        parts.append('<?xml version="1.0" encoding="UTF-8"?>\n')
    if rng and "prolog" in noise:
        parts.append(rng.choice(["<!--prolog-->", "<?app x?>\n", "<!DOCTYPE r>\n"]))

    def name(pfx, q):
        l = split(q)[1]
        return f"{pfx}:{l}" if pfx else l

    def go(n):
        sp = (lambda: rng.choice([" ", " ", "  ", "\n "])) if rng else (lambda: " ")
        tag = name(n["qp"], n["q"])
        items = []
        for p, u in n["d"]:
            items.append((f"xmlns:{p}" if p else "xmlns", u))
        atts = [(name(ap, k), v) for (k, v), ap in zip(n["a"], n["ap"])]
        if rng and rng.random() < 0.5:
            items = atts + items  # attributes may come before the declarations they use
        else:
            items = items + atts
        s = "<" + tag
        for k, v in items:
            quote = rng.choice(['"', "'"]) if rng else '"'
            s += sp() + k + "=" + quote + esc_attr(v, quote) + quote
        if rng and rng.random() < 0.2:
            s += " "
        text = n["t"]
        if not n["c"] and not text and (text is None) and not (rng and rng.random() < 0.3):
            parts.append(s + "/>")
        else:
            parts.append(s + ">")
            if text:
                parts.append(fancy_text(rng, text, "c" if "text_c" in noise else "pi" if "text_pi" in noise else "m" if "text_m" in noise else None) if rng else esc_text(text))
            elif rng and "between" in noise and n["c"] and rng.random() < 0.3:
                parts.append(misc_run(rng, "m"))
            for c in n["c"]:
                go(c)
            parts.append("</" + tag + (" " if rng and rng.random() < 0.1 else "") + ">")
        tl = n["tl"]
        if tl:
            parts.append(fancy_text(rng, tl, "c" if "tail_c" in noise else "pi" if "tail_pi" in noise else "m" if "tail_m" in noise else None) if rng else esc_text(tl))
        elif rng and "between" in noise and rng.random() < 0.15:
            parts.append(misc_run(rng, "m"))

    root = dict(d)
    root["tl"] = None
    go(root)
    if rng and "prolog" in noise and rng.random() < 0.5:
        parts.append("\n<!--epilog-->")
    return "".join(parts)


def dtree_strip(d):
    """DTree -> driver argument (drops the print-only fields)"""
    return {"d": d["d"], "q": d["q"], "a": d["a"], "s": d["s"], "t": d["t"], "c": [dtree_strip(c) for c in d["c"]], "tl": d["tl"]}


# --------------------------------------------------------------------------
# real back-ends: parsing
# --------------------------------------------------------------------------
def _handlers():
    from xsdata.formats.dataclass.parsers.handlers import LxmlEventHandler, XmlEventHandler

    return {"native": XmlEventHandler, "lxml": LxmlEventHandler}


SOURCES = {
    "native": ["bytes", "str", "path", "file", "et_tree", "et_element"],
    "lxml": ["bytes", "str", "path", "file", "lxml_tree", "lxml_element"],
}


def real_parse(uni: B.Universe, clazz: str, xml: str, handler: str, source: str, config=None, parser_cls=None):
    """XmlParser(handler).from_xxx(document) for one of the source kinds -> canonical result"""
    from xsdata.exceptions import ConverterWarning
    from xsdata.formats.dataclass.context import XmlContext
    from xsdata.formats.dataclass.parsers import XmlParser
    from xsdata.formats.dataclass.parsers.config import ParserConfig

    import pathlib

    data = xml.encode("utf-8")
    cls = parser_cls or XmlParser
    p = cls(context=XmlContext(models_package=uni.modname), config=ParserConfig(**(config or {})), handler=_handlers()[handler])
    target = uni.classes[clazz] if clazz else None
    tmp = None
    with warnings.catch_warnings(record=True) as w:
        warnings.simplefilter("always")
        try:
            if source == "bytes":
                obj = p.from_bytes(data, target)
            elif source == "str":
                obj = p.from_string(xml, target)
            elif source == "path":
                fd, tmp = tempfile.mkstemp(suffix=".xml")
                os.write(fd, data)
                os.close(fd)
                obj = p.from_path(pathlib.Path(tmp), target)
            elif source == "file":
                obj = p.parse(io.BytesIO(data), target)
            elif source == "lxml_tree":
                obj = p.parse(LE.parse(io.BytesIO(data)), target)
            elif source == "lxml_element":
                obj = p.parse(LE.fromstring(data), target)
            elif source == "et_tree":
                obj = p.parse(ET.parse(io.BytesIO(data)), target)
            elif source == "et_element":
                obj = p.parse(ET.fromstring(data), target)
            else:
                raise ValueError(source)
        except Exception as e:  # noqa: BLE001
            return B.classify_exc(e), p
        finally:
            if tmp:
                os.unlink(tmp)
    n = sum(1 for x in w if issubclass(x.category, ConverterWarning))
    return {"ok": {"value": uni.to_val(obj), "warnings": n}}, p


def norm_events(events):
    """RecordParser events with the prefix maps as sorted pairs"""
    out = []
    for ev in events:
        kind = str(ev[0].value if hasattr(ev[0], "value") else ev[0])
        if kind == "start":
            out.append(["start", ev[1], sorted([k, v] for k, v in ev[2].items()),
                        sorted(([p, u] for p, u in ev[3].items()), key=lambda x: (x[0] or "", x[1]))])
        elif kind == "end":
            out.append(["end", ev[1], ev[2], ev[3]])
        else:
            out.append(["start-ns", ev[1], ev[2]])
    return out


def real_events(uni, clazz, xml, handler, source="bytes", config=None):
    from xsdata.formats.dataclass.parsers.bases import RecordParser

    res, p = real_parse(uni, clazz, xml, handler, source, config, parser_cls=RecordParser)
    return res, norm_events(p.events), [[k, v] for k, v in p.ns_map.items()]


# ---- the native handler on a stub parser (the model's `pump`) ----------------
class _Node:
    def __init__(self, ns_map):
        self.ns_map = ns_map


class StubParser:
    """What XmlEventHandler needs from a parser: start / end / register_namespace.
    The node queued for an element keeps the map according to the `stores` plan."""

    def __init__(self, stores):
        self.stores = list(stores)
        self.calls = []
        self.config = type("C", (), {"process_xinclude": False, "base_url": None, "load_dtd": False})()

    def start(self, clazz, queue, objects, qname, attrs, ns_map):
        self.calls.append(["start", qname, [[k, v] for k, v in attrs.items()], [[p, u] for p, u in ns_map.items()]])
        st = self.stores.pop(0) if self.stores else "passed"
        if st == "passed":
            kept = ns_map
        elif st == "top":
            kept = queue[-1].ns_map if queue else {}
        else:
            kept = {}
        queue.append(_Node(kept))

    def end(self, queue, objects, qname, text, tail):
        queue.pop()
        self.calls.append(["end", qname, text, tail])
        return False

    def register_namespace(self, ns_map, prefix, uri):
        self.calls.append(["start-ns", prefix, uri])
        if prefix not in ns_map:
            ns_map[prefix] = uri


def stores_of(d):
    out = [d["s"]]
    for c in d["c"]:
        out += stores_of(c)
    return out


def real_pump(d, source="bytes"):
    """XmlEventHandler.parse on the printed DTree (or on the ElementTree built from it)"""
    from xsdata.formats.dataclass.parsers.handlers import XmlEventHandler

    xml = print_dtree(d).encode()
    stub = StubParser(stores_of(d))
    h = XmlEventHandler(parser=stub, clazz=None)
    ns_map: dict = {}
    try:
        if source == "bytes":
            h.parse(io.BytesIO(xml), ns_map)
        elif source == "et_tree":
            h.parse(ET.ElementTree(ET.fromstring(xml)), ns_map)
        else:
            h.parse(ET.fromstring(xml), ns_map)
    except IndexError:
        stub.calls.append(["crash"])
    return {"ok": {"events": stub.calls, "ns_map": [[p, u] for p, u in ns_map.items()]}}


def real_inscope(d):
    """LxmlEventHandler on the printed DTree: start events with the map as lookups over the candidates"""
    from xsdata.formats.dataclass.parsers.handlers import LxmlEventHandler

    cands = [None]

    def coll(n):
        for p, _ in n["d"]:
            p = p or None
            if p not in cands:
                cands.append(p)
        for c in n["c"]:
            coll(c)

    coll(d)
    xml = print_dtree(d).encode()
    stub = StubParser([])
    h = LxmlEventHandler(parser=stub, clazz=None)
    h.parse(io.BytesIO(xml), {})
    out = []
    for c in stub.calls:
        if c[0] == "start":
            m = {p: u for p, u in c[3]}
            extra = [p for p in m if p not in cands and p != "xml"]
            if extra:
                return {"err": f"HARNESS:unexpected prefixes {extra}"}
            out.append(["start", c[1], c[2], [[p, m.get(p)] for p in cands]])
        else:
            out.append(c)
    return {"ok": out}


def well_known():
    from xsdata.models.enums import Namespace

    return [[ns.uri, ns.prefix] for ns in Namespace]


# --------------------------------------------------------------------------
# real back-ends: writing
# --------------------------------------------------------------------------
def lxml_tree_json(root):
    def go(el):
        return {
            "q": el.tag, "a": [[k, v] for k, v in el.attrib.items()], "ns": [[p, u] for p, u in el.nsmap.items()],
            "t": el.text, "c": [go(c) for c in el if isinstance(c.tag, str)], "tl": el.tail,
        }

    return go(root)


def real_write(uni: B.Universe, obj, backend: str, indent=None, ignore_default_attributes=False, xml_declaration=False,
               ns_map=None, schema_location=None, no_namespace_schema_location=None):
    """-> ('text', str) for the two writers, ('tree', lxml tree) for the tree serializer.
    `ns_map`: the user's prefix map as [[prefix | "" | None, uri]...] in insertion order"""
    from xsdata.formats.dataclass.context import XmlContext
    from xsdata.formats.dataclass.serializers import XmlSerializer
    from xsdata.formats.dataclass.serializers.config import SerializerConfig
    from xsdata.formats.dataclass.serializers.tree import TreeSerializer
    from xsdata.formats.dataclass.serializers.writers import LxmlEventWriter, XmlEventWriter

    cfg = SerializerConfig(indent=indent, ignore_default_attributes=ignore_default_attributes, xml_declaration=xml_declaration,
                           schema_location=schema_location, no_namespace_schema_location=no_namespace_schema_location)
    ctx = XmlContext(models_package=uni.modname)
    user = {p: u for p, u in ns_map} if ns_map is not None else None
    if backend == "tree":
        return TreeSerializer(context=ctx, config=cfg).render(obj, user)
    w = XmlEventWriter if backend == "native" else LxmlEventWriter
    return XmlSerializer(context=ctx, config=cfg, writer=w).render(obj, user)


def real_infoset(uni, obj, backend, **kw):
    """the infoset of what the back-end produced, read by lxml (independent of xsdata)"""
    try:
        r = real_write(uni, obj, backend, **kw)
    except Exception as e:  # noqa: BLE001
        return B.classify_exc(e)
    try:
        if backend == "tree":
            root = r.getroot() if hasattr(r, "getroot") else r
            return {"ok": lxml_tree_json(root)}
        return {"ok": lxml_tree_json(LE.fromstring(r.encode("utf-8")))}
    except LE.XMLSyntaxError as e:
        return {"err": "ILLFORMED:" + str(e)[:80]}


def resolve_prefixes(t):
    """Tree -> Tree without prefix maps: `p:local` tokens whose prefix is in scope become
    Clark names (QName-valued content / xsi:type written with whatever prefixes)"""

    def res(v, ns):
        if v is None or ":" not in v:
            return v
        toks = v.split(" ")
        out = []
        for tk in toks:
            p, sep, l = tk.partition(":")
            if sep and p in ns and l and not tk.startswith("{"):
                out.append("{" + ns[p] + "}" + l)
            else:
                out.append(tk)
        return " ".join(out)

    def go(n):
        ns = {p: u for p, u in n["ns"] if p}
        return {
            "q": n["q"], "a": sorted([k, res(v, ns)] for k, v in n["a"]), "t": res(n["t"], ns),
            "c": [go(c) for c in n["c"]], "tl": n["tl"],
        }

    return go(t)


def strip_layout(t):
    """indentation aside: whitespace-only text of elements with children and whitespace-only tails go"""

    def ws(s):
        return s is None or s.strip() == ""

    def go(n, top=True):
        kids = [go(c, False) for c in n["c"]]
        text = n["t"]
        if kids and ws(text):
            text = None
        tl = None if (top or ws(n["tl"])) else n["tl"]
        return {**n, "t": text, "c": kids, "tl": tl}

    return go(t)


def has_mixed(t):
    """some element has non-whitespace character data next to child elements"""

    def go(n):
        if n["c"] and (n["t"] or "").strip():
            return True
        if any((c["tl"] or "").strip() for c in n["c"]):
            return True
        return any(go(c) for c in n["c"])

    return go(t)


# --------------------------------------------------------------------------
# what PushParser hands to handler.parse for each kind of source
# --------------------------------------------------------------------------
def real_hsource(kind, text="", data=b"", path=None):
    """XmlParser.from_string / from_bytes / from_path / parse with a handler that records its `source`"""
    import pathlib

    from xsdata.formats.dataclass.parsers import XmlParser
    from xsdata.formats.dataclass.parsers.mixins import XmlHandler

    seen = {}

    class Recorder(XmlHandler):
        def parse(self, source, ns_map):
            if isinstance(source, ET.ElementTree):
                seen["v"] = {"tree": None}
            elif isinstance(source, ET.Element):
                seen["v"] = {"element": None}
            elif isinstance(source, str):
                seen["v"] = {"name": source}
            else:
                seen["v"] = {"stream": list(source.read())}
            return object()

    p = XmlParser(handler=Recorder)
    try:
        if kind == "str":
            p.from_string(text, object)
        elif kind == "bytes":
            p.from_bytes(data, object)
        elif kind == "path":
            p.from_path(pathlib.Path(path), object)
        elif kind == "file":
            p.parse(io.BytesIO(data), object)
        elif kind == "et_tree":
            p.parse(ET.ElementTree(ET.fromstring(b"<r/>")), object)
        elif kind == "et_element":
            p.parse(ET.fromstring(b"<r/>"), object)
    except Exception as e:  # noqa: BLE001
        if "v" not in seen:
            return {"err": "HARNESS:" + type(e).__name__}
    return {"ok": seen["v"]}


# --------------------------------------------------------------------------
# documents with comments / PIs as nodes (op c08.lxml_text)
# --------------------------------------------------------------------------
def print_ctree(items):
    """[{"t": str} | {"m": "c"|"pi"} | {"e": [items]}] -> markup (elements are all called `e`)"""
    out = []
    for it in items:
        if "t" in it:
            out.append(esc_text(it["t"]))
        elif "m" in it:
            out.append("<!--c-->" if it["m"] == "c" else "<?pi d?>")
        else:
            out.append("<e>" + print_ctree(it["e"]) + "</e>")
    return "".join(out)


def real_lxml_text(items, remove_comments):
    """get_text / get_tail of the real lxml handler on every element of the tree libxml2 builds
    (`remove_comments`: the way `etree.iterparse` is called for byte sources)"""
    from xsdata.formats.dataclass.parsers.handlers import lxml as H

    data = ("<e>" + print_ctree(items) + "</e>").encode()
    if remove_comments:
        it = LE.iterparse(io.BytesIO(data), ("end",), remove_comments=True)
        for _ in it:
            pass
        root = it.root
    else:
        root = LE.fromstring(data)
    out = []
    for el in root.iter():
        if isinstance(el.tag, str):
            out.append([H.get_text(el), H.get_tail(el)])
    return {"ok": out}


# --------------------------------------------------------------------------
# the whole native route for every kind of source (op c08.native_parse)
# --------------------------------------------------------------------------
def real_native_parse(d, kind, path=None):
    """XmlParser(handler=XmlEventHandler).from_string / from_bytes / from_path / parse(...) with the
    parser's start / end / register_namespace replaced by recorders: the real `from_*` chain, the real
    `NodeParser.parse`, the real `XmlEventHandler.parse` dispatch and `process_context`."""
    import pathlib

    from xsdata.exceptions import ParserError
    from xsdata.formats.dataclass.parsers import XmlParser
    from xsdata.formats.dataclass.parsers.handlers import XmlEventHandler

    text = print_dtree(d)
    data = text.encode()
    stub = StubParser(stores_of(d))

    class Recording(XmlParser):
        def start(self, clazz, queue, objects, qname, attrs, ns_map):
            stub.start(clazz, queue, objects, qname, attrs, ns_map)

        def end(self, queue, objects, qname, text, tail):
            return stub.end(queue, objects, qname, text, tail)

        def register_namespace(self, ns_map, prefix, uri):
            stub.register_namespace(ns_map, prefix, uri)

    p = Recording(handler=XmlEventHandler)
    tmp = None
    try:
        if kind == "str":
            p.from_string(text, object)
        elif kind == "bytes":
            p.from_bytes(data, object)
        elif kind == "file":
            p.parse(io.BytesIO(data), object)
        elif kind == "path":
            fd, tmp = tempfile.mkstemp(suffix=".xml")
            os.write(fd, data)
            os.close(fd)
            p.from_path(pathlib.Path(tmp), object)
        elif kind == "missing_path":
            p.from_path(pathlib.Path(path), object)
        elif kind == "et_tree":
            p.parse(ET.ElementTree(ET.fromstring(data)), object)
        elif kind == "et_element":
            p.parse(ET.fromstring(data), object)
        else:
            raise ValueError(kind)
    except ParserError:
        pass  # nothing was bound: the recorders build no objects
    except OSError:
        return {"ok": None}
    except IndexError:
        stub.calls.append(["crash"])
    finally:
        if tmp:
            os.unlink(tmp)
    return {"ok": {"events": stub.calls, "ns_map": [[k, v] for k, v in p.ns_map.items()]}}


# --------------------------------------------------------------------------
# universes with element fields typed as a union of model classes (UnionNode)
# --------------------------------------------------------------------------
def union_universe(rng):
    """A class universe whose Root has element fields typed `Union[A, B(, C)]` of model classes; the
    variants nest child elements that carry attributes (two levels), so that the UnionNode records and
    replays start events with attributes.  Returns (desc, build) where build(universe, rng) makes an instance."""
    ns = rng.choice([None, None, "urn:u", "http://example.com/ns"])
    meta = {"namespace": ns} if ns else None

    def cls(name, fields, m=None):
        c = {"name": name, "fields": fields}
        if m or meta:
            c["meta"] = {**(meta or {}), **(m or {})}
        return c

    def attr(fname, t="str", **md):
        return {"name": fname, "type": {"opt": t}, "metadata": {"type": "Attribute", **md}, "default": {"value": None}}

    def elem(fname, t, **md):
        return {"name": fname, "type": {"opt": t}, "metadata": {"type": "Element", **md}, "default": {"value": None}}

    def elems(fname, t, **md):
        return {"name": fname, "type": {"list": t}, "metadata": {"type": "Element", **md}, "default": {"factory": "list"}}

    deep = rng.random() < 0.6
    classes = []
    if deep:
        classes.append(cls("Tag", [attr("k"), attr("n", "int"), {"name": "v", "type": {"opt": "str"}, "metadata": {}, "default": {"value": None}}]))
    pf = [attr("x", "int"), attr("y", rng.choice(["str", "int", "bool"])), elem("label", "str")]
    if rng.random() < 0.4:
        pf.append(attr("q", "str", name="q-name", namespace=rng.choice(["urn:at", ""])))
    if deep:
        pf.append(elem("tag", {"cls": "Tag"}) if rng.random() < 0.5 else elems("tag", {"cls": "Tag"}))
    classes.append(cls("Point", pf))
    a_fields = [elem("start", {"cls": "Point"}), elem("stop", {"cls": "Point"})]
    b_fields = [elem("center", {"cls": "Point"}), elem("radius", "int")]
    c_fields = [elems("pt", {"cls": "Point"}), attr("closed", "bool")]
    if rng.random() < 0.5:
        a_fields.append(attr("id", "str"))
    classes.append(cls("Segment", a_fields))
    classes.append(cls("Circle", b_fields))
    variants = ["Segment", "Circle"]
    if rng.random() < 0.5:
        classes.append(cls("Path", c_fields))
        variants.append("Path")
    rng.shuffle(variants)
    union = {"union": [{"cls": v} for v in variants]}
    many = rng.random() < 0.5
    rf = [attr("title", "str")]
    rf.append(elems("shape", union) if many else elem("shape", union))
    if rng.random() < 0.4:
        rf.append(elem("note", "str"))
    if rng.random() < 0.3:
        rf.insert(1, elem("first", {"cls": "Point"}))
    classes.append(cls("Root", rf))
    desc = {"classes": classes}

    def build(u, r):
        C = u.classes

        def tag():
            return C["Tag"](k=r.choice([None, "a", "é", ""]), n=r.choice([None, 0, 7]), v=r.choice([None, "t", "x y"]))

        def point():
            kw = {"x": r.choice([None, 0, 1, -5, 12]), "label": r.choice([None, "a", "lbl", ""])}
            yt = next(f for f in next(c for c in classes if c["name"] == "Point")["fields"] if f["name"] == "y")["type"]["opt"]
            kw["y"] = {"str": r.choice([None, "v", "a b", ""]), "int": r.choice([None, 2, 40]), "bool": r.choice([None, True, False])}[yt]
            if any(f["name"] == "q" for f in pf):
                kw["q"] = r.choice([None, "qq"])
            tf = next((f for f in pf if f["name"] == "tag"), None)
            if tf:
                kw["tag"] = [tag() for _ in range(r.randint(0, 2))] if "list" in tf["type"] else (tag() if r.random() < 0.7 else None)
            return C["Point"](**kw)

        def variant():
            v = r.choice(variants)
            if v == "Segment":
                kw = {"start": point() if r.random() < 0.8 else None, "stop": point() if r.random() < 0.8 else None}
                if any(f["name"] == "id" for f in a_fields):
                    kw["id"] = r.choice([None, "s1"])
                return C["Segment"](**kw)
            if v == "Circle":
                return C["Circle"](center=point() if r.random() < 0.8 else None, radius=r.choice([None, 3, 10]))
            return C["Path"](pt=[point() for _ in range(r.randint(0, 3))], closed=r.choice([None, True]))

        kw = {"title": r.choice([None, "t"])}
        kw["shape"] = [variant() for _ in range(r.randint(0, 3))] if many else (variant() if r.random() < 0.9 else None)
        if any(f["name"] == "note" for f in rf):
            kw["note"] = r.choice([None, "n"])
        if any(f["name"] == "first" for f in rf):
            kw["first"] = point() if r.random() < 0.5 else None
        return C["Root"](**kw)

    return desc, build


# --------------------------------------------------------------------------
# UnionNode.child / bind under the lxml handler's loop (op c08.union_record)
# --------------------------------------------------------------------------
def union_tokens(tree):
    """nested element tree {"q", "a": [[k, v]], "c": [...]} -> [["start", id, q, attrs] | ["end", id, q]]"""
    out = []
    counter = [0]

    def go(n):
        counter[0] += 1
        i = counter[0]
        out.append(["start", i, n["q"], [list(kv) for kv in n["a"]]])
        for c in n["c"]:
            go(c)
        out.append(["end", i, n["q"]])

    for c in tree["c"]:
        go(c)
    return out


def real_union_record(tree):
    """a real UnionNode fed the way LxmlEventHandler feeds the parser for the content of a union element:
    `child(tag, element.attrib, element.nsmap, …)` at a start, `bind(…)` then `element.clear()` at an end"""
    from xsdata.formats.dataclass.parsers.nodes import UnionNode

    def markup(n):
        at = "".join(f' {k}="{esc_attr(v, chr(34))}"' for k, v in n["a"])
        return f"<{n['q']}{at}>" + "".join(markup(c) for c in n["c"]) + f"</{n['q']}>"

    var = type("V", (), {"types": (), "qname": "u"})()
    node = UnionNode(meta=None, var=var, attrs={}, ns_map={}, position=0, config=None, context=None)
    data = markup({"q": "u", "a": [], "c": tree["c"]}).encode()
    depth = 0
    for event, el in LE.iterparse(io.BytesIO(data), ("start", "end")):
        if event == "start":
            depth += 1
            if depth > 1:
                node.child(el.tag, el.attrib, el.nsmap, 0)
        else:
            if depth > 1:
                node.bind(el.tag, el.text, el.tail, [])
                el.clear()
            depth -= 1
    out = []
    for ev in node.events:
        if ev[0] == "start":
            out.append(["start", ev[1], [[k, v] for k, v in dict(ev[2]).items()]])
        else:
            out.append(["end", ev[1]])
    return {"ok": out}


# --------------------------------------------------------------------------
# universes with namespace-qualified attributes (user prefix maps matter for them)
# --------------------------------------------------------------------------
def qualified_attr_universe(rng):
    """Root / Item classes in a namespace with attributes qualified in that namespace, in another one and
    unqualified ones, qualified and unqualified child elements.  Returns (desc, build)."""
    ns = rng.choice(["urn:demo", "http://example.com/ns", "urn:a"])
    ns2 = rng.choice(["urn:two", "urn:b"])

    def attr(fname, t="str", **md):
        return {"name": fname, "type": {"opt": t}, "metadata": {"type": "Attribute", **md}, "default": {"value": None}}

    def elem(fname, t, **md):
        return {"name": fname, "type": {"opt": t}, "metadata": {"type": "Element", **md}, "default": {"value": None}}

    item_ns = rng.choice([ns, ns2, None])
    item = {"name": "Item", "fields": [attr("code", namespace=ns), attr("n", "int", namespace=ns2), attr("plain"),
                                        elem("label", "str")]}
    if item_ns:
        item["meta"] = {"namespace": item_ns}
    root_fields = [attr("code", namespace=ns), attr("plain"), attr("other", rng.choice(["str", "bool"]), namespace=ns2),
                   elem("label", "str", namespace=ns), elem("loc", "str", namespace=""),
                   {"name": "item", "type": {"list": {"cls": "Item"}}, "metadata": {"type": "Element"}, "default": {"factory": "list"}}]
    if rng.random() < 0.4:
        root_fields.append({"name": "any", "type": {"dict": 1}, "metadata": {"type": "Attributes", "namespace": "##any"},
                            "default": {"factory": "dict"}})
    root = {"name": "Root", "fields": root_fields}
    if rng.random() < 0.85:
        root["meta"] = {"namespace": ns}
    desc = {"classes": [item, root]}

    def build(u, r):
        C = u.classes
        other_t = root_fields[2]["type"]["opt"]

        def item_obj():
            return C["Item"](code=r.choice([None, "A1", ""]), n=r.choice([None, 3]), plain=r.choice([None, "p"]),
                             label=r.choice([None, "l"]))

        kw = dict(code=r.choice(["A1", "A1", "x y", None]), plain=r.choice([None, "p"]),
                  other={"str": r.choice([None, "o"]), "bool": r.choice([None, True])}[other_t],
                  label=r.choice([None, "hello"]), loc=r.choice([None, "here"]),
                  item=[item_obj() for _ in range(r.randint(0, 2))])
        if len(root_fields) > 6:
            kw["any"] = r.choice([{}, {"{%s}w" % ns: "1"}, {"w": "2", "{urn:zz}v": "3"}])
        return C["Root"](**kw)

    return desc, build
