/- C18 — property theorems (only). -/
import XsdataModel.Code.Pycode

namespace Props.C18
open Py Xs.Code

end Props.C18
