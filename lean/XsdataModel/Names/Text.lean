/-
C07 — xsdata/utils/text.py: split_words, classify, the eight naming cases,
alnum, capitalize — modelled as the code is.

All word-splitting cases only ever apply `str.title/lower/upper` to words made
of ASCII letters and digits (non-ASCII characters are `CharType.OTHER` and are
dropped by `split_words`), so ASCII case mapping is all that is needed
(`splitWords_ascii` in Proofs/Names.lean).
-/
import XsdataModel.Names.Ident
import XsdataModel.Tables

namespace Xs.Text
open Py

inductive CharType | upper | lower | numeric | other
  deriving DecidableEq, Repr

/-- `text.classify` -/
def classify (c : Char) : CharType :=
  let n := c.toNat
  if 64 < n && n < 91 then .upper
  else if 96 < n && n < 123 then .lower
  else if 47 < n && n < 58 then .numeric
  else .other

/-- the local `flush()` seen as a value: the buffered word, if any -/
def flushW (buf : Str) : List Str := if buf.isEmpty then [] else [buf]

/-- loop of `text.split_words`: `buf` the current buffer, `prev` = `previous` -/
def swGo : Str → Option CharType → Str → List Str
  | buf, _, [] => flushW buf
  | buf, prev, c :: cs =>
    let tp := classify c
    if tp = .other then flushW buf ++ swGo [] (some tp) cs
    else if prev = none || prev = some tp then swGo (buf ++ [c]) (some tp) cs
    else if tp = .upper then flushW buf ++ swGo [c] (some tp) cs
    else swGo (buf ++ [c]) (some tp) cs

/-- `text.split_words` -/
def splitWords (v : Str) : List Str := swGo [] none v

/-- `text.alnum`: ASCII letters and digits, lower-cased -/
def alnum (v : Str) : Str := (v.filter isAsciiAlnum).map lowerA

inductive NameCase
  | original | pascal | camel | snake | screamingSnake | mixed | mixedSnake | mixedPascal
  deriving DecidableEq, Repr

/-- `NameCase(value)` -/
def NameCase.ofStr (s : Str) : Option NameCase :=
  match String.ofList s with
  | "originalCase" => some .original
  | "pascalCase" => some .pascal
  | "camelCase" => some .camel
  | "snakeCase" => some .snake
  | "screamingSnakeCase" => some .screamingSnake
  | "mixedCase" => some .mixed
  | "mixedSnakeCase" => some .mixedSnake
  | "mixedPascalCase" => some .mixedPascal
  | _ => none

/-- `re.sub(r"^__+", "_", v)`: a run of two or more leading underscores becomes one -/
def collapseLead (v : Str) : Str :=
  match v with
  | a :: b :: rest => if a = '_' ∧ b = '_' then '_' :: rest.dropWhile (· = '_') else v
  | _ => v

/-- `text.original_case` up to its last statement: `re.sub(r"\W", "", v)`, then only the characters
`c` with `f"_{c}".isidentifier()` are kept, then `re.sub(r"^[^a-zA-Z_]+", "", v)` -/
def originalCore (u : UEnv) (v : Str) : Str :=
  ((v.filter u.isWord).filter u.isXidContinue).dropWhile (fun c => !(isAsciiAlpha c || c = '_'))

/-- `text.original_case`: … and two or more leading underscores are collapsed to one (such names
are mangled inside class bodies) -/
def originalCase (u : UEnv) (v : Str) : Str := collapseLead (originalCore u v)

def pascalCase (v : Str) : Str := ((splitWords v).map titleA).flatten

/-- `text.camel_case`; `none` = IndexError (`result[0]` of an empty result) -/
def camelCase (v : Str) : Option Str :=
  match pascalCase v with
  | [] => none
  | c :: cs => some (lowerA c :: cs)

def mixedCase (v : Str) : Str := (splitWords v).flatten
def mixedPascalCase (v : Str) : Option Str := capitalizeA (mixedCase v)
def mixedSnakeCase (v : Str) : Str := join ['_'] (splitWords v)
def snakeCase (v : Str) : Str := join ['_'] ((splitWords v).map (·.map lowerA))
def screamingSnakeCase (v : Str) : Str := (snakeCase v).map upperA
def kebabCase (v : Str) : Str := join ['-'] (splitWords v)

/-- `NameCase.__call__`; `none` = IndexError -/
def applyCase (u : UEnv) : NameCase → Str → Option Str
  | .original, v => some (originalCase u v)
  | .pascal, v => some (pascalCase v)
  | .camel, v => camelCase v
  | .snake, v => some (snakeCase v)
  | .screamingSnake, v => some (screamingSnakeCase v)
  | .mixed, v => some (mixedCase v)
  | .mixedSnake, v => some (mixedSnakeCase v)
  | .mixedPascal, v => mixedPascalCase v

/-- `text.is_reserved` -/
def isReserved (s : Str) : Bool := Tables.stopWords.contains s

/-- `text.split(value, sep)` for a one-character separator:
`left, _, right = value.partition(sep); (left, right) if right else (None, left)` -/
def splitOnce (v : Str) (sep : Char) : Option Str × Str :=
  let left := v.takeWhile (· ≠ sep)
  let right := (v.dropWhile (· ≠ sep)).drop 1
  if right.isEmpty then (none, left) else (some left, right)

end Xs.Text
