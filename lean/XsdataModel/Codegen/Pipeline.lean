/-
Composition of the modelled steps: from the analysed classes to the layout of
the generated package — which module every class goes to
(`DesignateClassPackages`), and for every module the order of its classes and
its import list (`DataclassGenerator.render` → `group_by_module` →
`render_module` → `DependenciesResolver`).
-/
import XsdataModel.Codegen.Packages
import XsdataModel.Codegen.Resolver
import XsdataModel.Codegen.Styles

namespace Xs.Codegen
open Py

/-- `Class.target_module`; `none` = "Type has not been assigned to a module yet!" -/
def targetModule : Option (Str × Str) → Option Str
  | some (pkg, m) =>
    if !pkg.isEmpty && !m.isEmpty then some (pkg ++ '.' :: m)
    else if !m.isEmpty then some m
    else none
  | none => none

structure ModuleLayout where
  module : Str
  /-- qnames of `resolver.sorted_classes()` -/
  classes : List Str
  /-- qnames of `resolver.sorted_imports()` -/
  imports : List Str
deriving Repr, DecidableEq

inductive LayoutErr where
  | pkg (e : PkgErr)
  | res (e : ResErr)
  | unassigned
deriving Repr, DecidableEq

/-- `render`: registry, `group_by_module`, one resolver run per module -/
def layoutModules (cs : List ClassInfo) (assignment : List (Str × Option (Str × Str))) :
    Except LayoutErr (List ModuleLayout) := do
  let targets ← assignment.mapM (fun p => match targetModule p.2 with
    | some t => .ok (p.1, t)
    | none => .error LayoutErr.unassigned)
  let keyed := cs.map (fun c => ((dget targets c.qname).getD [], c))
  (groupBy (·.1) keyed).mapM (fun g =>
    match resolverProcess targets (g.2.map (fun kc => { qname := kc.2.qname, deps := kc.2.deps })) with
    | .ok r => .ok { module := g.1, classes := r.sortedClasses, imports := r.sortedImports.map (·.qname) }
    | .error e => .error (LayoutErr.res e))

/-- clusters style end to end -/
def layoutClusters (package : Str) (cs : List ClassInfo) (vorder : List Str) :
    Except LayoutErr (List (Str × Option (Str × Str)) × List ModuleLayout) :=
  match groupByStrongComponents package cs vorder with
  | .error e => .error (.pkg e)
  | .ok a => (layoutModules cs a).map (fun m => (a, m))

/-- namespace-clusters style end to end -/
def layoutNsClusters (nsPackage : Option Str → Str) (cs : List ClassInfo) (vorder : List Str) :
    Except LayoutErr (List (Str × Option (Str × Str)) × List ModuleLayout) :=
  match groupByNamespaceClusters nsPackage cs vorder with
  | .error e => .error (.pkg e)
  | .ok a => (layoutModules cs a).map (fun m => (a, m))

/-- the other structure styles end to end: designation by namespace / all together /
by file name, then the per-module resolver runs -/
def layoutStyle (assign : List LocClass → Except PkgErr (List (Str × Str × Str)))
    (cs : List ClassInfo) (locs : List LocClass) :
    Except LayoutErr (List (Str × Option (Str × Str)) × List ModuleLayout) :=
  match assign locs with
  | .error e => .error (.pkg e)
  | .ok r =>
    let a := r.map (fun t => (t.1, some t.2))
    (layoutModules cs a).map (fun m => (a, m))

end Xs.Codegen
