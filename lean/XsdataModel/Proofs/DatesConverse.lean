/-
Helper lemmas for C06 "converse of acceptance": whatever the model of
`DateTimeParser` accepts along `%Y-%m-%d%z` is, after Python's `strip()`, an XSD
lexical form (`Spec/XsdDate.lean`).  Inversion of the scanner, stage by stage.
Core Lean only.
-/
import XsdataModel.Proofs.DatesAccept

namespace Proofs.DatesConverse
open Py Xs.Dates Xs.Spec Proofs.DatesFormatParse Proofs.DatesAccept
open Xs.Conv (AllDigits charVal)

/-! ### slices -/

theorem drop_split (v : Str) (i j : Nat) (hij : i ≤ j) : v.drop i = slice v i j ++ v.drop j := by
  unfold slice
  have : v.drop j = (v.drop i).drop (j - i) := by
    rw [List.drop_drop]; congr 1; omega
  rw [this, List.take_append_drop]

theorem slice_length (v : Str) (i j : Nat) (hj : j ≤ v.length) : (slice v i j).length = j - i := by
  unfold slice; simp; omega

theorem getElem?_of_drop {v : Str} {i : Nat} {c : Char} {r : Str} (h : v.drop i = c :: r) :
    v[i]? = some c := by
  have := List.getElem?_drop (xs := v) (i := i) (j := 0)
  rw [h] at this; simpa using this.symm

theorem drop_of_getElem? {v : Str} {i : Nat} {c : Char} (h : v[i]? = some c) :
    v.drop i = c :: v.drop (i + 1) := by
  have hi : i < v.length := by
    rcases Nat.lt_or_ge i v.length with h' | h'
    · exact h'
    · rw [List.getElem?_eq_none h'] at h; cases h
  rw [List.drop_eq_getElem_cons hi]
  congr 1
  rw [List.getElem?_eq_getElem hi] at h
  exact Option.some.inj h

/-! ### inversion of the elementary steps -/

theorem parseInt_inv {e : Env} {raw : Str} {n : Int} (h : parseInt e raw = some n) :
    raw ≠ [] ∧ AllD raw ∧ n = ((dval raw : Nat) : Int) := by
  unfold parseInt at h
  split at h
  · rename_i hc
    simp only [Bool.and_eq_true, Bool.not_eq_true', List.all_eq_true] at hc
    have hne : raw ≠ [] := by intro h0; subst h0; simp at hc
    have hd : AllD raw := fun c hm => hc.2 c hm
    rw [pyInt_digits e raw hd hne] at h
    exact ⟨hne, hd, (Option.some.inj h).symm⟩
  · cases h

theorem parseDigits_inv {e : Env} {v : Str} {i k : Nat} {n : Int} {p' : PS}
    (h : parseDigits e ⟨v, i⟩ k = some (n, p')) :
    p' = ⟨v, i + k⟩ ∧ slice v i (i + k) ≠ [] ∧ AllD (slice v i (i + k)) ∧
      n = ((dval (slice v i (i + k)) : Nat) : Int) := by
  unfold parseDigits at h
  simp only [Option.map_eq_some_iff, Prod.mk.injEq] at h
  obtain ⟨m, hm, rfl, rfl⟩ := h
  obtain ⟨h1, h2, h3⟩ := parseInt_inv hm
  exact ⟨rfl, h1, h2, h3⟩

theorem skip_inv {v : Str} {i : Nat} {c : Char} {p' : PS} (h : PS.skip ⟨v, i⟩ c = some p') :
    p' = ⟨v, i + 1⟩ ∧ v[i]? = some c := by
  unfold PS.skip PS.hasMore PS.peek at h
  split at h
  · rename_i hc
    simp only [Bool.and_eq_true, decide_eq_true_eq, beq_iff_eq] at hc
    exact ⟨(Option.some.inj h).symm, hc.2⟩
  · cases h

theorem twoDigits_of {raw : Str} (hd : AllD raw) (hl : raw.length = 2) : TwoDigits raw (dval raw) := by
  match raw, hl with
  | [a, b], _ =>
    have ha : isAsciiDigit a = true := hd a (by simp)
    have hb : isAsciiDigit b = true := hd b (by simp)
    exact ⟨a, b, rfl, ha, hb, by simp [dval, digitsVal, charVal]⟩

/-- two digits read at `i`, and the scan went on inside the string -/
theorem twoDigits_at {e : Env} {v : Str} {i : Nat} {n : Int} {p' : PS}
    (h : parseDigits e ⟨v, i⟩ 2 = some (n, p')) (hin : i + 2 ≤ v.length) :
    p' = ⟨v, i + 2⟩ ∧ ∃ raw k, v.drop i = raw ++ v.drop (i + 2) ∧ TwoDigits raw k ∧ n = (k : Int) := by
  obtain ⟨h1, _, h3, h4⟩ := parseDigits_inv h
  refine ⟨h1, slice v i (i + 2), dval (slice v i (i + 2)), drop_split v i (i + 2) (by omega), ?_, h4⟩
  exact twoDigits_of h3 (by rw [slice_length v i (i + 2) hin]; omega)

/-! ### the year -/

theorem scanDigits_ge (e : Env) (v : Str) : ∀ (fuel i : Nat) (lim : Option Nat),
    i ≤ scanDigits e v fuel i lim := by
  intro fuel
  induction fuel with
  | zero => intro i lim; simp [scanDigits]
  | succ f ih =>
    intro i lim
    unfold scanDigits
    split
    · exact Nat.le_refl _
    · split
      · split
        · exact Nat.le_trans (Nat.le_succ i) (ih (i + 1) _)
        · exact Nat.le_refl _
      · exact Nat.le_refl _

theorem leadingZeros_eq (ds : Str) :
    ds = List.replicate (leadingZeros ds) '0' ++ ds.dropWhile (· = '0') := by
  unfold leadingZeros
  induction ds with
  | nil => simp
  | cons c t ih =>
    by_cases hc : c = '0'
    · subst hc
      simp only [List.dropWhile_cons, decide_true, if_true, List.length_cons]
      have hle : (t.dropWhile (· = '0')).length ≤ t.length := (List.dropWhile_suffix _).length_le
      have : t.length + 1 - (t.dropWhile (· = '0')).length = (t.length - (t.dropWhile (· = '0')).length) + 1 := by omega
      rw [this, List.replicate_succ, List.cons_append, ← ih]
    · simp [hc]

theorem dval_ge_pow {c : Char} {t : Str} (hd : AllD (c :: t)) (hc : c ≠ '0') :
    10 ^ t.length ≤ dval (c :: t) := by
  rw [AllD_cons] at hd
  have e1 : dval (c :: t) = charVal c * 10 ^ t.length + dval t := by
    unfold dval
    rw [List.map_cons, Xs.Conv.digitsVal_cons]; simp [charVal]
  have h1 : 1 ≤ charVal c := by
    have hcv := dch_charVal hd.1
    rcases Nat.eq_zero_or_pos (charVal c) with h0 | h0
    · rw [h0] at hcv; exact absurd hcv.symm hc
    · exact h0
  rw [e1]
  have : 1 * 10 ^ t.length ≤ charVal c * 10 ^ t.length := Nat.mul_le_mul_right _ h1
  omega

theorem dropWhile_head_ne : ∀ (ds : Str) (c : Char) (t : Str), ds.dropWhile (· = '0') = c :: t → c ≠ '0' := by
  intro ds
  induction ds with
  | nil => intro c t h; simp at h
  | cons a r ih =>
    intro c t h
    by_cases ha : a = '0'
    · subst ha; simp only [List.dropWhile_cons, decide_true, if_true] at h; exact ih c t h
    · simp only [List.dropWhile_cons, ha, decide_false, Bool.false_eq_true, if_false, List.cons.injEq] at h
      rw [← h.1]; exact ha

/-- the scanner's leading-zero rule is XSD's: more than four digits only without a leading zero -/
theorem lz_rule (ds : Str) (hd : AllD ds) (h5 : 4 < ds.length)
    (hok : ((leadingZeros ds = 1 && (((dval ds : Nat) : Int) > 999)) || (leadingZeros ds = 2 && (((dval ds : Nat) : Int) > 99))
      || (leadingZeros ds = 3 && (((dval ds : Nat) : Int) > 9)) || (leadingZeros ds = 4 && (((dval ds : Nat) : Int) > 0))
      || decide (leadingZeros ds > 4)) = false) : ds.head? ≠ some '0' := by
  intro hh
  have hdec := leadingZeros_eq ds
  generalize hk : leadingZeros ds = k at hdec hok
  generalize hr : ds.dropWhile (· = '0') = rest at hdec
  simp only [Bool.or_eq_false_iff, Bool.and_eq_false_iff, decide_eq_false_iff_not] at hok
  have hlen : ds.length = k + rest.length := by
    have := congrArg List.length hdec
    simpa using this
  cases rest with
  | nil => simp at hlen; omega
  | cons c t =>
    have hc0 : c ≠ '0' := dropWhile_head_ne ds c t hr
    have hk1 : 1 ≤ k := by
      cases k with
      | zero =>
        simp only [List.replicate_zero, List.nil_append] at hdec
        rw [hdec] at hh
        simp at hh
        exact absurd hh hc0
      | succ k => omega
    have hdr : AllD (c :: t) := by
      intro x hx; exact hd x (by rw [hdec]; simp only [List.mem_append]; exact Or.inr hx)
    have hv : dval ds = dval (c :: t) := by
      rw [hdec]; exact dval_replicate0 k _
    have hge := dval_ge_pow hdr hc0
    simp only [List.length_cons] at hlen
    have hpow : 10 ^ (4 - k) ≤ 10 ^ t.length := Nat.pow_le_pow_right (by decide) (by omega)
    have hk' : k = 1 ∨ k = 2 ∨ k = 3 ∨ k = 4 := by omega
    rcases hk' with rfl | rfl | rfl | rfl
    · have : (10:Nat) ^ (4 - 1) = 1000 := by decide
      rw [this] at hpow; omega
    · have : (10:Nat) ^ (4 - 2) = 100 := by decide
      rw [this] at hpow; omega
    · have : (10:Nat) ^ (4 - 3) = 10 := by decide
      rw [this] at hpow; omega
    · have : (10:Nat) ^ (4 - 4) = 1 := by decide
      rw [this] at hpow; omega

/-- what a successful `parse_year` at `i` has read, provided the scan stayed inside the string -/
theorem parseYear_inv {e : Env} {v : Str} {i : Nat} {y : Int} {p' : PS}
    (h : parseYear e ⟨v, i⟩ = some (y, p')) (hin : p'.vidx ≤ v.length) :
    ∃ j ys, p' = ⟨v, j⟩ ∧ v.drop i = ys ++ v.drop j ∧ YearFrag ys y := by
  unfold parseYear PS.peek at h
  cases hc : v[i]? with
  | none => simp only [hc] at h; cases h
  | some c =>
    simp only [hc] at h
    by_cases hneg : c = '-'
    · subst hneg
      simp only [if_true] at h
      cases hm : parseMinimumDigits e ⟨v, i + 1⟩ 4 with
      | none => rw [hm] at h; cases h
      | some r =>
        obtain ⟨year, p2⟩ := r
        rw [hm] at h
        simp only at h
        split at h
        · cases h
        · rename_i hlz
          simp only [Option.some.injEq, Prod.mk.injEq] at h
          obtain ⟨hy, hp⟩ := h
          subst hp
          unfold parseMinimumDigits at hm
          simp only [Option.map_eq_some_iff, Prod.mk.injEq] at hm
          obtain ⟨n, hn, rfl, rfl⟩ := hm
          obtain ⟨hne, hd, rfl⟩ := parseInt_inv hn
          simp only at hin hlz
          generalize hj : scanDigits e v (v.length + 1) (i + 1 + 4) none = j at *
          have hge : i + 1 + 4 ≤ j := by rw [← hj]; exact scanDigits_ge e v _ _ _
          have hl : (slice v (i + 1) j).length = j - (i + 1) := slice_length v (i + 1) j hin
          refine ⟨j, '-' :: slice v (i + 1) j, rfl, ?_, ?_⟩
          · rw [drop_of_getElem? hc, drop_split v (i + 1) j (by omega)]; rfl
          · refine ⟨true, slice v (i + 1) j, rfl, hd, by omega, ?_, by rw [← hy]; simp [digitsNat_eq_dval]⟩
            intro h5
            exact lz_rule _ hd h5 (by simpa using hlz)
    · simp only [hneg, if_false] at h
      cases hm : parseMinimumDigits e ⟨v, i⟩ 4 with
      | none => rw [hm] at h; cases h
      | some r =>
        obtain ⟨year, p2⟩ := r
        rw [hm] at h
        simp only at h
        split at h
        · cases h
        · rename_i hlz
          simp only [Option.some.injEq, Prod.mk.injEq] at h
          obtain ⟨hy, hp⟩ := h
          subst hp
          unfold parseMinimumDigits at hm
          simp only [Option.map_eq_some_iff, Prod.mk.injEq] at hm
          obtain ⟨n, hn, rfl, rfl⟩ := hm
          obtain ⟨hne, hd, rfl⟩ := parseInt_inv hn
          simp only at hin hlz
          generalize hj : scanDigits e v (v.length + 1) (i + 4) none = j at *
          have hge : i + 4 ≤ j := by rw [← hj]; exact scanDigits_ge e v _ _ _
          have hl : (slice v i j).length = j - i := slice_length v i j hin
          refine ⟨j, slice v i j, rfl, drop_split v i j (by omega), ?_⟩
          refine ⟨false, slice v i j, rfl, hd, by omega, ?_, by rw [← hy]; simp [digitsNat_eq_dval]⟩
          intro h5
          exact lz_rule _ hd h5 (by simpa using hlz)

theorem parseMinimumDigits_value {e : Env} {p : PS} {n : Int} {p' : PS}
    (h : parseMinimumDigits e p 4 = some (n, p')) : p'.value = p.value := by
  unfold parseMinimumDigits at h
  simp only [Option.map_eq_some_iff, Prod.mk.injEq] at h
  obtain ⟨_, _, _, rfl⟩ := h
  rfl

theorem parseYear_value {e : Env} {v : Str} {i : Nat} {y : Int} {p' : PS}
    (h : parseYear e ⟨v, i⟩ = some (y, p')) : p'.value = v := by
  unfold parseYear PS.peek at h
  cases hc : v[i]? with
  | none => simp only [hc] at h; cases h
  | some c =>
    simp only [hc] at h
    by_cases hneg : c = '-'
    · subst hneg
      simp only [if_true] at h
      cases hm : parseMinimumDigits e ⟨v, i + 1⟩ 4 with
      | none => rw [hm] at h; cases h
      | some r =>
        obtain ⟨year, p2⟩ := r
        rw [hm] at h
        simp only at h
        split at h
        · cases h
        · simp only [Option.some.injEq, Prod.mk.injEq] at h
          rw [← h.2]; exact parseMinimumDigits_value hm
    · simp only [hneg, if_false] at h
      cases hm : parseMinimumDigits e ⟨v, i⟩ 4 with
      | none => rw [hm] at h; cases h
      | some r =>
        obtain ⟨year, p2⟩ := r
        rw [hm] at h
        simp only at h
        split at h
        · cases h
        · simp only [Option.some.injEq, Prod.mk.injEq] at h
          rw [← h.2]; exact parseMinimumDigits_value hm

/-! ### the timezone -/

/-- a successful `parse_offset` at `i ≤ len` that ends at the end of the string has read an XSD
timezone fragment (after repairs c06b-03 and c06c-01: minutes ≤ 59, at most 14:00) -/
theorem parseOffset_inv {e : Env} {v : Str} {i : Nat} {o : Option Int} {p' : PS}
    (h : parseOffset e ⟨v, i⟩ = some (o, p')) (hend : p'.vidx = p'.value.length) :
    i ≤ v.length ∧ TzFrag (v.drop i) o := by
  unfold parseOffset PS.hasMore PS.peek at h
  simp only at h
  by_cases hm : i < v.length
  · simp only [hm, decide_true, Bool.not_true, Bool.false_eq_true, if_false] at h
    cases hc : v[i]? with
    | none => rw [hc] at h; cases h
    | some c =>
      rw [hc] at h
      simp only at h
      by_cases hZ : c = 'Z'
      · subst hZ
        simp only [if_true, Option.some.injEq, Prod.mk.injEq] at h
        obtain ⟨rfl, rfl⟩ := h
        simp only at hend
        refine ⟨by omega, ?_⟩
        right; left
        refine ⟨?_, rfl⟩
        rw [drop_of_getElem? hc, List.drop_eq_nil_of_le (by omega)]
      · simp only [hZ, if_false] at h
        by_cases hs : (c = '-' || c = '+') = true
        · simp only [hs, if_true] at h
          cases h1 : parseDigits e ⟨v, i + 1⟩ 2 with
          | none => rw [h1] at h; cases h
          | some r1 =>
            obtain ⟨hh, p1⟩ := r1
            rw [h1] at h
            simp only at h
            obtain ⟨rfl, _, hd1, rfl⟩ := parseDigits_inv h1
            cases h2 : PS.skip ⟨v, i + 1 + 2⟩ ':' with
            | none => rw [h2] at h; cases h
            | some p2 =>
              rw [h2] at h
              simp only at h
              obtain ⟨rfl, hcol⟩ := skip_inv h2
              cases h3 : parseDigits e ⟨v, i + 1 + 2 + 1⟩ 2 with
              | none => rw [h3] at h; cases h
              | some r3 =>
                obtain ⟨mm, p3⟩ := r3
                rw [h3] at h
                simp only at h
                obtain ⟨rfl, _, hd3, rfl⟩ := parseDigits_inv h3
                split at h
                · cases h
                · rename_i hmm
                  split at h
                  · cases h
                  · rename_i hrange
                    simp only [Option.some.injEq, Prod.mk.injEq] at h
                    obtain ⟨ho, hp⟩ := h
                    subst hp
                    simp only at hend
                    have hl1 : (slice v (i + 1) (i + 1 + 2)).length = 2 := by
                      rw [slice_length v _ _ (by omega)]; omega
                    have hl3 : (slice v (i + 1 + 2 + 1) (i + 1 + 2 + 1 + 2)).length = 2 := by
                      rw [slice_length v _ _ (by omega)]; omega
                    have t1 := twoDigits_of hd1 hl1
                    have t3 := twoDigits_of hd3 hl3
                    refine ⟨by omega, ?_⟩
                    right; right
                    refine ⟨c, _, _, _, _, ?_, t1, t3, ?_, ?_, ?_⟩
                    · simp only [Bool.or_eq_true, decide_eq_true_eq] at hs
                      rcases hs with h | h
                      · exact Or.inr h
                      · exact Or.inl h
                    · simp only [gt_iff_lt, Int.not_lt] at hmm hrange
                      omega
                    · rw [drop_of_getElem? hc, drop_split v (i + 1) (i + 1 + 2) (by omega),
                        drop_of_getElem? hcol, drop_split v (i + 1 + 2 + 1) (i + 1 + 2 + 1 + 2) (by omega),
                        List.drop_eq_nil_of_le (by omega)]
                      simp
                    · rw [← ho]
                      by_cases hneg : c = '-'
                      · simp only [hneg, if_true, Int.ofNat_eq_natCast]; congr 1; omega
                      · simp only [hneg, if_false, Int.ofNat_eq_natCast]; congr 1; omega
        · simp only [hs, Bool.false_eq_true, if_false] at h; cases h
  · simp only [hm, decide_false, Bool.not_false, if_true, Option.some.injEq, Prod.mk.injEq] at h
    obtain ⟨rfl, rfl⟩ := h
    simp only at hend
    refine ⟨by omega, ?_⟩
    left
    exact ⟨List.drop_eq_nil_of_le (by omega), rfl⟩

/-! ### stages of the format loop -/

theorem parseLoop_nil_inv {e : Env} {p : PS} {r : List (Option Int)} (h : parseLoop e [] p = some r) :
    r = [] ∧ p.vidx = p.value.length := by
  simp only [parseLoop] at h
  split at h
  · rename_i hc; exact ⟨(Option.some.inj h).symm, hc⟩
  · cases h

theorem parseLoop_var_inv {e : Env} {var : Char} {rest : Str} {p : PS} {r : List (Option Int)}
    (h : parseLoop e ('%' :: var :: rest) p = some r) :
    ∃ vals p' r', parseVar e p var = some (vals, p') ∧ parseLoop e rest p' = some r' ∧ r = vals ++ r' := by
  simp only [parseLoop] at h
  cases hv : parseVar e p var with
  | none => rw [hv] at h; cases h
  | some x =>
    obtain ⟨vals, p'⟩ := x
    rw [hv] at h
    simp only [Option.map_eq_some_iff] at h
    obtain ⟨r', hr', rfl⟩ := h
    exact ⟨vals, p', r', rfl, hr', rfl⟩

theorem parseLoop_lit_inv {e : Env} {c : Char} {rest : Str} {p : PS} {r : List (Option Int)}
    (hc : c ≠ '%') (h : parseLoop e (c :: rest) p = some r) :
    ∃ p', p.skip c = some p' ∧ parseLoop e rest p' = some r := by
  rw [parseLoop.eq_4 e p c rest (fun h _ => hc h) (fun _ _ h _ => hc h)] at h
  cases hs : p.skip c with
  | none => rw [hs] at h; cases h
  | some q => rw [hs] at h; exact ⟨q, rfl, h⟩

theorem parseVar_two_inv {e : Env} {p : PS} {var : Char} {vals : List (Option Int)} {p' : PS}
    (hv : Tables.simpleTwoDigitsFormats.contains var = true) (h : parseVar e p var = some (vals, p')) :
    ∃ n, parseDigits e p 2 = some (n, p') ∧ vals = [some n] := by
  rw [parseVar_two e p var hv] at h
  simp only [Option.map_eq_some_iff, Prod.mk.injEq] at h
  obtain ⟨⟨n, q⟩, hq, rfl, rfl⟩ := h
  exact ⟨n, hq, rfl⟩

theorem parseVar_Y_inv {e : Env} {p : PS} {vals : List (Option Int)} {p' : PS}
    (h : parseVar e p 'Y' = some (vals, p')) : ∃ y, parseYear e p = some (y, p') ∧ vals = [some y] := by
  rw [parseVar_Y] at h
  simp only [Option.map_eq_some_iff, Prod.mk.injEq] at h
  obtain ⟨⟨n, q⟩, hq, rfl, rfl⟩ := h
  exact ⟨n, hq, rfl⟩

theorem parseVar_z_inv {e : Env} {p : PS} {vals : List (Option Int)} {p' : PS}
    (h : parseVar e p 'z' = some (vals, p')) : ∃ o, parseOffset e p = some (o, p') ∧ vals = [o] := by
  rw [parseVar_z] at h
  simp only [Option.map_eq_some_iff, Prod.mk.injEq] at h
  obtain ⟨⟨n, q⟩, hq, rfl, rfl⟩ := h
  exact ⟨n, hq, rfl⟩

/-- the final `%z` of every format: the offset is read to the end of the string -/
theorem parseLoop_z_inv {e : Env} {v : Str} {i : Nat} {r : List (Option Int)}
    (h : parseLoop e ['%', 'z'] ⟨v, i⟩ = some r) :
    ∃ o, r = [o] ∧ i ≤ v.length ∧ TzFrag (v.drop i) o := by
  obtain ⟨vals, p', r', hv, hr, rfl⟩ := parseLoop_var_inv h
  obtain ⟨o, ho, rfl⟩ := parseVar_z_inv hv
  obtain ⟨rfl, hend⟩ := parseLoop_nil_inv hr
  have := parseOffset_inv (p' := p') ho hend
  exact ⟨o, rfl, this.1, this.2⟩

theorem skip_lt {v : Str} {i : Nat} {c : Char} {p' : PS} (h : PS.skip ⟨v, i⟩ c = some p') : i < v.length := by
  unfold PS.skip PS.hasMore at h
  split at h
  · rename_i hc
    simp only [Bool.and_eq_true, decide_eq_true_eq] at hc
    exact hc.1
  · cases h

/-- the `%Y-%m-%d` prefix of a format, inverted: what was read are an XSD year fragment and
two two-digit fragments, provided the rest of the format keeps the scan inside the string -/
theorem datePart_inv {e : Env} {v : Str} {i : Nat} {restFmt : Str} {r : List (Option Int)}
    (h : parseLoop e ('%' :: 'Y' :: '-' :: '%' :: 'm' :: '-' :: '%' :: 'd' :: restFmt) ⟨v, i⟩ = some r)
    (hrest : ∀ j r', parseLoop e restFmt ⟨v, j⟩ = some r' → j ≤ v.length) :
    ∃ (y : Int) (m d : Nat) (ys ms ds : Str) (j : Nat) (r' : List (Option Int)),
      v.drop i = ys ++ '-' :: (ms ++ '-' :: (ds ++ v.drop j)) ∧ YearFrag ys y ∧ TwoDigits ms m ∧
      TwoDigits ds d ∧ parseLoop e restFmt ⟨v, j⟩ = some r' ∧
      r = [some y, some (m : Int), some (d : Int)] ++ r' := by
  obtain ⟨vals1, p1, r1, hv1, hr1, rfl⟩ := parseLoop_var_inv h
  obtain ⟨y, hy, rfl⟩ := parseVar_Y_inv hv1
  have hval := parseYear_value hy
  obtain ⟨v1, j1⟩ := p1
  simp only at hval
  subst hval
  obtain ⟨p2, hs2, hr2⟩ := parseLoop_lit_inv (by decide) hr1
  have hj1 := skip_lt hs2
  obtain ⟨rfl, hc2⟩ := skip_inv hs2
  obtain ⟨j1', ys, hp1, hdrop1, hyf⟩ := parseYear_inv hy (by simp only; omega)
  cases hp1
  obtain ⟨vals3, p3, r3, hv3, hr3, rfl⟩ := parseLoop_var_inv hr2
  obtain ⟨m, hm, rfl⟩ := parseVar_two_inv (by decide) hv3
  obtain ⟨hp3, _⟩ := parseDigits_inv hm
  subst hp3
  obtain ⟨p4, hs4, hr4⟩ := parseLoop_lit_inv (by decide) hr3
  have hj3 := skip_lt hs4
  obtain ⟨rfl, hc4⟩ := skip_inv hs4
  obtain ⟨_, ms, km, hdrop3, htm, rfl⟩ := twoDigits_at hm (by omega)
  obtain ⟨vals5, p5, r5, hv5, hr5, rfl⟩ := parseLoop_var_inv hr4
  obtain ⟨d, hd, rfl⟩ := parseVar_two_inv (by decide) hv5
  obtain ⟨hp5, _⟩ := parseDigits_inv hd
  subst hp5
  have hj5 := hrest _ _ hr5
  obtain ⟨_, ds, kd, hdrop5, htd, rfl⟩ := twoDigits_at hd hj5
  refine ⟨y, km, kd, ys, ms, ds, j1 + 1 + 2 + 1 + 2, r5, ?_, hyf, htm, htd, hr5, by simp⟩
  rw [hdrop1, drop_of_getElem? hc2, hdrop3, drop_of_getElem? hc4, hdrop5]

theorem daysInMonth_le (y : Int) (m : Nat) : daysInMonth y m ≤ 31 := by
  unfold daysInMonth
  split
  · split <;> omega
  · split <;> omega

/-- `validate_date` says what XSD's day-in-month constraint says -/
theorem validateDate_inv {y : Int} {m d : Nat} (hv : validateDate y m d = true) :
    1 ≤ m ∧ m ≤ 12 ∧ 1 ≤ d ∧ d ≤ daysInMonth y m := by
  obtain ⟨b1, b2, b3, _⟩ := validateDate_bounds _ _ _ hv
  have hm1 : 1 ≤ m := by omega
  have hm2 : m ≤ 12 := by omega
  unfold validateDate at hv
  split at hv
  · cases hv
  · split at hv
    · cases hv
    · rename_i md hmd
      simp only [Bool.and_eq_true, decide_eq_true_eq] at hv
      simp only [Int.toNat_natCast] at hmd
      rw [monthlen_daysInMonth y m hm1 hm2] at hmd
      cases hmd
      exact ⟨hm1, hm2, by omega, by omega⟩

theorem tz_not_dashes {o : Option Int} : ¬ TzFrag ['-', '-'] o := by
  rintro (⟨h, _⟩ | ⟨h, _⟩ | ⟨sg, hs, ms, hh, mm, _, ⟨a, b, rfl, _, _, _⟩, ⟨c, d, rfl, _, _, _⟩, _, h, _⟩)
  · cases h
  · cases h
  · simp at h

/-! ### fractional seconds and the time part -/

theorem scanDigits_bounds (e : Env) (v : Str) : ∀ (fuel i : Nat) (lim : Option Nat), i ≤ v.length →
    scanDigits e v fuel i lim ≤ v.length ∧ ∀ n, lim = some n → scanDigits e v fuel i lim ≤ i + n := by
  intro fuel
  induction fuel with
  | zero => intro i lim hi; simp [scanDigits, hi]
  | succ f ih =>
    intro i lim hi
    unfold scanDigits
    split
    · exact ⟨hi, fun n _ => by omega⟩
    · rename_i h0
      split
      · rename_i c hc
        split
        · have hlt : i < v.length := by
            rcases Nat.lt_or_ge i v.length with h' | h'
            · exact h'
            · rw [List.getElem?_eq_none h'] at hc; cases hc
          obtain ⟨h1, h2⟩ := ih (i + 1) (lim.map (· - 1)) (by omega)
          refine ⟨h1, ?_⟩
          intro n hn
          subst hn
          have := h2 (n - 1) rfl
          have hn0 : n ≠ 0 := fun h => h0 (by rw [h])
          omega
        · exact ⟨hi, fun n _ => by omega⟩
      · exact ⟨hi, fun n _ => by omega⟩

theorem AllD_of_append_left {a b : Str} (h : AllD (a ++ b)) : AllD a := (AllD_append.1 h).1

/-- what `parse_fractional_second` has read: nothing, or a point and 1..9 ASCII digits -/
theorem parseFrac_inv {e : Env} {v : Str} {i : Nat} {f : Int} {p' : PS}
    (h : parseFractionalSecond e ⟨v, i⟩ = some (f, p')) :
    ∃ j fr, p' = ⟨v, j⟩ ∧ i ≤ j ∧ (i ≤ v.length → j ≤ v.length) ∧
      v.drop i = (if fr = [] then [] else '.' :: fr) ++ v.drop j ∧
      AllD fr ∧ fr.length ≤ 9 ∧ f = ((fracNs fr : Nat) : Int) := by
  unfold parseFractionalSecond PS.hasMore PS.peek at h
  simp only at h
  split at h
  · rename_i hdot
    simp only [Bool.and_eq_true, decide_eq_true_eq, beq_iff_eq] at hdot
    split at h
    · cases h
    · rename_i hdig
      have hdig : (decide (i + 1 < v.length) && (Option.map e.isDigit v[i + 1]?).getD false) = true := by
        simpa using hdig
      simp only [Bool.and_eq_true, decide_eq_true_eq] at hdig
      have hlt1 : i + 1 < v.length := hdig.1
      cases hc1 : v[i + 1]? with
      | none => rw [List.getElem?_eq_none_iff] at hc1; omega
      | some c1 =>
        have hd1 : e.isDigit c1 = true := by
          have := hdig.2; rw [hc1] at this; simpa using this
        unfold parseFixedDigits at h
        simp only [Option.map_eq_some_iff, Prod.mk.injEq] at h
        obtain ⟨n, hn, rfl, rfl⟩ := h
        obtain ⟨_, hd, rfl⟩ := parseInt_inv hn
        generalize hj : scanDigits e v (v.length + 1) (i + 1) (some 9) = j at *
        obtain ⟨hb1, hb2⟩ := scanDigits_bounds e v (v.length + 1) (i + 1) (some 9) (by omega)
        rw [hj] at hb1 hb2
        have hb2' := hb2 9 rfl
        have hge : i + 2 ≤ j := by
          rw [← hj]
          unfold scanDigits
          simp only [hc1, hd1, if_true]
          have : ¬ ((some 9 : Option Nat) = some 0) := by simp
          simp only [this, if_false]
          exact scanDigits_ge e v _ _ _
        have hl : (slice v (i + 1) j).length = j - (i + 1) := slice_length v (i + 1) j hb1
        have hraw : AllD (slice v (i + 1) j) := by
          unfold ljust at hd; exact AllD_of_append_left hd
        have hne : slice v (i + 1) j ≠ [] := by
          intro h0; rw [h0] at hl; simp at hl; omega
        refine ⟨j, slice v (i + 1) j, rfl, by omega, fun _ => hb1, ?_, hraw, by omega, ?_⟩
        · simp only [hne, if_false]
          rw [drop_of_getElem? hdot.2, drop_split v (i + 1) j (by omega)]; rfl
        · unfold fracNs ljust
          rw [digitsNat_eq_dval, dval_append_replicate0]
  · simp only [Option.some.injEq, Prod.mk.injEq] at h
    obtain ⟨rfl, rfl⟩ := h
    exact ⟨i, [], rfl, Nat.le_refl _, fun h => h, by simp, AllD_nil, by simp, by simp [fracNs, digitsNat_eq_dval, dval_nil]⟩

theorem parseVar_S_inv {e : Env} {p : PS} {vals : List (Option Int)} {p' : PS}
    (h : parseVar e p 'S' = some (vals, p')) :
    ∃ s p1 f, parseDigits e p 2 = some (s, p1) ∧ parseFractionalSecond e p1 = some (f, p') ∧
      vals = [some s, some f] := by
  rw [parseVar_S] at h
  cases hd : parseDigits e p 2 with
  | none => rw [hd] at h; cases h
  | some r =>
    obtain ⟨s, p1⟩ := r
    rw [hd] at h
    simp only [Option.bind_some, Option.map_eq_some_iff, Prod.mk.injEq] at h
    obtain ⟨⟨f, q⟩, hq, rfl, rfl⟩ := h
    exact ⟨s, p1, f, rfl, hq, rfl⟩

/-- `%H:%M:%S%z`, inverted -/
theorem timePart_inv {e : Env} {v : Str} {i : Nat} {r : List (Option Int)}
    (h : parseLoop e Tables.fmtTime ⟨v, i⟩ = some r) :
    ∃ (hh mi sec : Nat) (fr : Str) (o : Option Int) (hs ms ss zs : Str),
      v.drop i = hs ++ ':' :: (ms ++ ':' :: (ss ++ ((if fr = [] then [] else '.' :: fr) ++ zs))) ∧
      TwoDigits hs hh ∧ TwoDigits ms mi ∧ TwoDigits ss sec ∧ AllD fr ∧ fr.length ≤ 9 ∧ TzFrag zs o ∧
      r = [some (hh : Int), some (mi : Int), some (sec : Int), some ((fracNs fr : Nat) : Int), o] := by
  rw [show Tables.fmtTime = '%' :: 'H' :: ':' :: '%' :: 'M' :: ':' :: '%' :: 'S' :: ['%', 'z'] from rfl] at h
  obtain ⟨vals1, p1, r1, hv1, hr1, rfl⟩ := parseLoop_var_inv h
  obtain ⟨hh, hH, rfl⟩ := parseVar_two_inv (by decide) hv1
  obtain ⟨hp1, _⟩ := parseDigits_inv hH
  subst hp1
  obtain ⟨p2, hs2, hr2⟩ := parseLoop_lit_inv (by decide) hr1
  have hj1 := skip_lt hs2
  obtain ⟨rfl, hc2⟩ := skip_inv hs2
  obtain ⟨_, hs, kh, hdrop1, hth, rfl⟩ := twoDigits_at hH (by omega)
  obtain ⟨vals3, p3, r3, hv3, hr3, rfl⟩ := parseLoop_var_inv hr2
  obtain ⟨mi, hM, rfl⟩ := parseVar_two_inv (by decide) hv3
  obtain ⟨hp3, _⟩ := parseDigits_inv hM
  subst hp3
  obtain ⟨p4, hs4, hr4⟩ := parseLoop_lit_inv (by decide) hr3
  have hj3 := skip_lt hs4
  obtain ⟨rfl, hc4⟩ := skip_inv hs4
  obtain ⟨_, ms, km, hdrop3, htm, rfl⟩ := twoDigits_at hM (by omega)
  obtain ⟨vals5, p5, r5, hv5, hr5, rfl⟩ := parseLoop_var_inv hr4
  obtain ⟨sec, p6, f, hS, hF, rfl⟩ := parseVar_S_inv hv5
  obtain ⟨hp6, _⟩ := parseDigits_inv hS
  subst hp6
  obtain ⟨j, fr, rfl, hij, hjl, hdropf, hfr, hfl, rfl⟩ := parseFrac_inv hF
  obtain ⟨o, rfl, hjle, hz⟩ := parseLoop_z_inv hr5
  obtain ⟨_, ss, ks, hdrop5, hts, rfl⟩ := twoDigits_at hS (by omega)
  refine ⟨kh, km, ks, fr, o, hs, ms, ss, v.drop j, ?_, hth, htm, hts, hfr, hfl, hz, by simp⟩
  rw [hdrop1, drop_of_getElem? hc2, hdrop3, drop_of_getElem? hc4, hdrop5, hdropf]

theorem dval_zero_all {s : Str} (hd : AllD s) (h0 : dval s = 0) : ∀ c ∈ s, c = '0' := by
  induction s with
  | nil => intro c hc; cases hc
  | cons a t ih =>
    rw [AllD_cons] at hd
    have e1 : dval (a :: t) = charVal a * 10 ^ t.length + dval t := by
      unfold dval
      rw [List.map_cons, Xs.Conv.digitsVal_cons]; simp [charVal]
    rw [e1] at h0
    have hp : 0 < 10 ^ t.length := Nat.pow_pos (by decide)
    have ha0 : charVal a = 0 := by
      rcases Nat.eq_zero_or_pos (charVal a) with h | h
      · exact h
      · have : 0 < charVal a * 10 ^ t.length := Nat.mul_pos h hp
        omega
    have ht0 : dval t = 0 := by rw [ha0] at h0; omega
    intro c hc
    simp at hc
    rcases hc with rfl | hc
    · have := dch_charVal hd.1; rw [ha0] at this; exact this.symm
    · exact ih hd.2 ht0 c hc

/-- the validated components and the fragments read make an XSD time body -/
theorem timeBody_of {hs ms ss fr : Str} {h mi sec : Nat} (hh : TwoDigits hs h) (hm : TwoDigits ms mi)
    (hsx : TwoDigits ss sec) (hfr : AllD fr) (hl : fr.length ≤ 9)
    (hv : validateTime h mi sec ((fracNs fr : Nat) : Int) = true) :
    TimeBody (hs ++ ':' :: (ms ++ ':' :: (ss ++ (if fr = [] then [] else '.' :: fr)))) h mi sec fr := by
  obtain ⟨b1, b2, b3, b4, b5, b6, b7, b8⟩ := validateTime_bounds _ _ _ _ hv
  by_cases h24 : h = 24
  · subst h24
    right
    unfold validateTime at hv
    have hz : mi = 0 ∧ sec = 0 ∧ fracNs fr = 0 := by
      split at hv
      · cases hv
      · split at hv
        · cases hv
        · rename_i _ hc
          simp at hc
          exact ⟨by omega, by omega, by omega⟩
    obtain ⟨rfl, rfl, hf0⟩ := hz
    have hfz : dval fr = 0 := by
      unfold fracNs at hf0
      rw [digitsNat_eq_dval] at hf0
      have hp : 0 < 10 ^ (9 - fr.length) := Nat.pow_pos (by decide)
      rcases Nat.eq_zero_or_pos (dval fr) with h | h
      · exact h
      · have : 0 < dval fr * 10 ^ (9 - fr.length) := Nat.mul_pos h hp
        omega
    obtain ⟨rfl, _⟩ := twoDigits_zpad hh
    obtain ⟨rfl, _⟩ := twoDigits_zpad hm
    obtain ⟨rfl, _⟩ := twoDigits_zpad hsx
    have e24 : zpad 24 2 = ['2', '4'] := by decide
    have e00 : zpad 0 2 = ['0', '0'] := by decide
    exact ⟨rfl, rfl, rfl, dval_zero_all hfr hfz, by rw [e24, e00]; rfl⟩
  · left
    exact ⟨hs, ms, ss ++ (if fr = [] then [] else '.' :: fr), ⟨hh, by omega⟩, ⟨hm, by omega⟩,
      ⟨ss, hsx, by omega, hfr, rfl⟩, rfl⟩

end Proofs.DatesConverse
