/-
L8 — DTD element declarations (C16): which kind of class an `<!ELEMENT …>` declaration becomes.

* `DtdMapper.build_elements` : element content → `build_content`; mixed content →
  `build_mixed_content` (a `#PCDATA` leaf directly below the top node is removed and the class
  marked mixed; the lone `(#PCDATA)` becomes a text field `value`); `ANY` → mixed content without
  listed elements (after the repair `fix: DtdMapper maps an element declared ANY to a mixed content
  class`; before: an extension of `xs:anyType`, a single optional wildcard); `EMPTY` → no fields;
* `ProcessMixedContentClass` : the element fields of a mixed class are replaced by one wildcard list
  `content` (`mixed=True`, namespace `##any`, `0..unbounded`) that lists them as choices.
-/
import XsdataModel.Gen.Occurs

namespace Xs.Gen
open Py

/-- `DtdElementType` -/
inductive DtdElemType | undefined | empty | any | mixed | element
deriving DecidableEq, Repr

/-- the element fields of the generated class -/
inductive DtdFields
  /-- ordinary fields, one per element / `#PCDATA` node, with their occurrence bounds -/
  | plain (fields : List Site)
  /-- one wildcard list `content` that accepts character data and any element, `choices` = the
  names the declaration lists -/
  | mixedWildcard (choices : List Str)
  /-- the extension of `xs:anyType`: one optional wildcard field (`None | object`, namespace `##any`),
  neither a list nor mixed -/
  | anyTypeWildcard
deriving DecidableEq, Repr

/-- can the fields keep character data interleaved with child elements (a `mixed` wildcard list) -/
def DtdFields.keepsMixedContent : DtdFields → Bool
  | .mixedWildcard _ => true
  | _ => false

def isPcdata : Option DtdContent → Bool
  | some (.pcdata _) => true
  | _ => false

/-- `build_mixed_content`: `(mixed, content handed to build_content)` -/
def buildMixedContent : DtdContent → Bool × DtdContent
  | .seq o l r =>
    if isPcdata l then (true, .seq o none r)
    else if isPcdata r then (true, .seq o l none) else (false, .seq o l r)
  | .or o l r =>
    if isPcdata l then (true, .or o none r)
    else if isPcdata r then (true, .or o l none) else (false, .or o l r)
  | c => (false, c)

/-- `DtdMapper.build_elements`, the FLATTEN handlers and `ProcessMixedContentClass` -/
def dtdClassFields (t : DtdElemType) (content : Option DtdContent) : DtdFields :=
  match t, content with
  | .element, some c => .plain (occurs (dtdSites c))
  | .mixed, some c =>
    let (mixed, c') := buildMixedContent c
    if mixed then .mixedWildcard ((occurs (dtdSites c')).map (·.name)) else .plain (occurs (dtdSites c'))
  | .any, _ => .anyTypeWildcard
  | _, _ => .plain []

end Xs.Gen
