/-
The invariant of `self.ns_map` that keeps prefix generation sound
(`MapOK`), and its preservation by generate_prefix / load_prefix /
add_namespace / encode_data.
-/
import XsdataModel.Proofs.DictLemmas
import XsdataModel.Proofs.Lexical
import XsdataModel.Xml.TblNsEnv
import XsdataModel.Spec.Hyps

namespace Proofs.MapInv
open Py Xs.Ns Xs.Sax Spec.XmlNs Spec.Hyps

structure EnvOK (env : NsEnv) : Prop where
  xmlNs : env.saxXmlNs = xmlNsUri
  xmlEnum : dget env.enum xmlNsUri = some xmlPrefix
  entries : ∀ e ∈ env.enum, enumEntryOK e = true
  inj : ∀ e1 ∈ env.enum, ∀ e2 ∈ env.enum, e1.2 = e2.2 → e1.1 = e2.1

theorem envOK_sound (env : NsEnv) (h : envOK env = true) : EnvOK env := by
  simp only [envOK, Bool.and_eq_true, beq_iff_eq, List.all_eq_true, Bool.or_eq_true, bne_iff_ne] at h
  obtain ⟨⟨⟨h1, h2⟩, h3⟩, h4⟩ := h
  refine ⟨h1, h2, h3, ?_⟩
  intro e1 he1 e2 he2 heq
  rcases h4 e1 he1 e2 he2 with h | h
  · exact absurd heq h
  · exact h

/-- the invariant of a prefix-URI map (`d` is the user's default namespace, if any) -/
structure MapOK (env : NsEnv) (d : Option Str) (M : NsMap) : Prop where
  nodup : NoDupKeys M
  fresh : ∀ k, M.length ≤ k → dget M (some (nsLit ++ natStr k)) = none
  enumc : ∀ e ∈ env.enum, ∀ u, dget M (some e.2) = some u → u = e.1
  decl : ∀ e ∈ M, declOK e = true
  dflt : ∀ u, dget M none = some u → u = [] ∨ some u = d
  nodflt : ∀ s u, dget M (some s) = some u → dget M none ≠ some u

/-- `M'` is `M` with new prefixed entries appended -/
def Ext (M M' : NsMap) : Prop := ∃ X : NsMap, M' = M ++ X ∧ ∀ e ∈ X, e.1 ≠ none

theorem Ext.refl (M : NsMap) : Ext M M := ⟨[], by simp, by simp⟩

theorem Ext.trans {A B C : NsMap} (h1 : Ext A B) (h2 : Ext B C) : Ext A C := by
  obtain ⟨X, rfl, hX⟩ := h1
  obtain ⟨Y, rfl, hY⟩ := h2
  refine ⟨X ++ Y, by simp, ?_⟩
  intro e he
  rcases List.mem_append.mp he with h | h
  · exact hX e h
  · exact hY e h

theorem prefixExists_false (u : Str) (M : NsMap) (h : prefixExists u M = false) : ∀ e ∈ M, e.2 ≠ u := by
  intro e he heq
  have : prefixExists u M = true := by
    simp only [prefixExists, List.any_eq_true, decide_eq_true_eq]
    exact ⟨e, he, heq⟩
  rw [h] at this; cases this

theorem isPrefixOf_nsK (k : Nat) : nsLit.isPrefixOf (nsLit ++ natStr k) = true := by
  simp [nsLit, List.isPrefixOf]

theorem getEnum_some (env : NsEnv) (u p : Str) (h : getEnum env u = some p) : (u, p) ∈ env.enum ∧ u ≠ [] := by
  unfold getEnum at h
  by_cases hu : u.isEmpty = true
  · simp [hu] at h
  · simp [hu] at h
    exact ⟨dget_some_mem _ _ _ h, by intro e; subst e; simp at hu⟩

/-- `generate_prefix` on a URI without prefix appends one fresh entry and keeps the invariant -/
theorem generatePrefix_ok (env : NsEnv) (henv : EnvOK env) (d : Option Str) (u : Str) (M : NsMap)
    (hM : MapOK env d M) (hu : uriOK u = true) (hne : prefixExists u M = false) :
    (generatePrefix env u M).2 = M ++ [(some (generatePrefix env u M).1, u)]
    ∧ MapOK env d (generatePrefix env u M).2
    ∧ dget M (some (generatePrefix env u M).1) = none := by
  have hvals := prefixExists_false u M hne
  have huri : u ≠ [] ∧ uriSafe u = true ∧ u ≠ xmlnsNsUri := by
    simp only [uriOK, Bool.and_eq_true, Bool.not_eq_true', bne_iff_ne, ne_eq] at hu
    refine ⟨?_, hu.1.2, hu.2⟩
    intro e; subst e; simp at hu
  -- the chosen prefix p and its properties
  have hp : ∃ p, (generatePrefix env u M).1 = p ∧ (generatePrefix env u M).2 = dset M (some p) u
      ∧ dget M (some p) = none
      ∧ (∀ k, M.length + 1 ≤ k → p ≠ nsLit ++ natStr k)
      ∧ (∀ e ∈ env.enum, e.2 = p → e.1 = u)
      ∧ declOK (some p, u) = true := by
    unfold generatePrefix
    cases hg : getEnum env u with
    | some p =>
      obtain ⟨hmem, _⟩ := getEnum_some env u p hg
      have hent := henv.entries (u, p) hmem
      simp only [enumEntryOK, Bool.and_eq_true, bne_iff_ne, ne_eq, Bool.not_eq_true', beq_iff_eq] at hent
      obtain ⟨⟨⟨⟨hnc, hnx⟩, hnotns⟩, _⟩, hxml⟩ := hent
      refine ⟨p, rfl, rfl, ?_, ?_, ?_, ?_⟩
      · cases hget : dget M (some p) with
        | none => rfl
        | some u' =>
          have := hM.enumc (u, p) hmem u' hget
          subst this
          exact absurd rfl (hvals (some p, u') (dget_some_mem _ _ _ hget))
      · intro k _ e
        subst e
        rw [isPrefixOf_nsK] at hnotns; cases hnotns
      · intro e he hep
        exact henv.inj e he (u, p) hmem hep
      · simp only [declOK, Bool.and_eq_true, bne_iff_ne, ne_eq, Bool.not_eq_true', beq_iff_eq]
        refine ⟨⟨⟨⟨⟨hnc, hnx⟩, ?_⟩, huri.2.1⟩, huri.2.2⟩, hxml⟩
        cases u with
        | nil => exact absurd rfl huri.1
        | cons _ _ => rfl
    | none =>
      refine ⟨nsLit ++ natStr M.length, rfl, rfl, hM.fresh _ (Nat.le_refl _), ?_, ?_, ?_⟩
      · intro k hk e
        have := nsK_injective _ _ e
        omega
      · intro e he hep
        have hent := henv.entries e he
        simp only [enumEntryOK, Bool.and_eq_true, bne_iff_ne, ne_eq, Bool.not_eq_true', beq_iff_eq] at hent
        rw [hep, isPrefixOf_nsK] at hent
        exact absurd hent.1.1.2 (by simp)
      · have hux : u ≠ xmlNsUri := by
          intro e; subst e
          unfold getEnum at hg
          rw [henv.xmlEnum] at hg
          simp [xmlNsUri] at hg
        simp only [declOK, Bool.and_eq_true, bne_iff_ne, ne_eq, Bool.not_eq_true', beq_iff_eq]
        refine ⟨⟨⟨⟨⟨nsK_isNCName _, nsK_ne_xmlns _⟩, ?_⟩, huri.2.1⟩, huri.2.2⟩, ?_⟩
        · cases u with
          | nil => exact absurd rfl huri.1
          | cons _ _ => rfl
        · have h1 : (nsLit ++ natStr M.length == xmlPrefix) = false := by
            simp [nsLit, xmlPrefix]
          have h2 : (u == xmlNsUri) = false := by simpa using hux
          rw [h1, h2]
  obtain ⟨p, hp1, hp2, hfreshp, hnotlater, henump, hdecl⟩ := hp
  rw [hp1, hp2, dset_absent M (some p) u hfreshp]
  refine ⟨rfl, ?_, hfreshp⟩
  refine ⟨NoDupKeys_append_single M _ _ hM.nodup hfreshp, ?_, ?_, ?_, ?_, ?_⟩
  · intro k hk
    simp only [List.length_append, List.length_cons, List.length_nil] at hk
    rw [dget_append_right _ _ _ (hM.fresh k (by omega))]
    have : p ≠ nsLit ++ natStr k := hnotlater k (by omega)
    simp [dget, this]
  · intro e he u' hget
    rw [dget_append] at hget
    cases hm : dget M (some e.2) with
    | some v => rw [hm] at hget; cases hget; exact hM.enumc e he _ hm
    | none =>
      rw [hm] at hget
      simp only [dget] at hget
      by_cases hpe : some p = some e.2
      · simp [hpe] at hget
        subst hget
        exact (henump e he (by cases hpe; rfl)).symm
      · simp [hpe] at hget
  · intro e he
    rcases List.mem_append.mp he with h | h
    · exact hM.decl e h
    · simp at h; subst h; exact hdecl
  · intro u' h
    rw [dget_append] at h
    cases hm : dget M none with
    | some v => rw [hm] at h; cases h; exact hM.dflt _ hm
    | none => rw [hm] at h; simp [dget] at h
  · intro s u' h hn
    have hnone : dget (M ++ [(some p, u)]) none = dget M none := by
      rw [dget_append]
      cases dget M none <;> simp [dget]
    rw [hnone] at hn
    rw [dget_append] at h
    cases hm : dget M (some s) with
    | some v => rw [hm] at h; cases h; exact hM.nodflt s _ hm hn
    | none =>
      rw [hm] at h
      simp only [dget] at h
      by_cases hps : some p = some s
      · simp [hps] at h
        subst h
        exact hvals (none, _) (dget_some_mem _ _ _ hn) rfl
      · simp [hps] at h

end Proofs.MapInv

namespace Proofs.MapInv
open Py Xs.Ns Xs.Sax Spec.XmlNs Spec.Hyps

theorem findPrefix_some (u : Str) (M : NsMap) (p : Pfx) (h : findPrefix u M = some p) : (p, u) ∈ M := by
  induction M with
  | nil => simp [findPrefix] at h
  | cons e r ih =>
    obtain ⟨k, v⟩ := e
    simp only [findPrefix] at h
    by_cases hv : v = u
    · simp [hv] at h; subst h; subst hv; simp
    · simp [hv] at h; exact List.mem_cons_of_mem _ (ih h)

theorem findPrefix_none (u : Str) (M : NsMap) (h : findPrefix u M = none) : prefixExists u M = false := by
  induction M with
  | nil => simp [prefixExists]
  | cons e r ih =>
    obtain ⟨k, v⟩ := e
    simp only [findPrefix] at h
    by_cases hv : v = u
    · simp [hv] at h
    · simp [hv] at h
      have := ih h
      simp only [prefixExists, List.any_cons, this, Bool.or_false] at this ⊢
      simp [hv, this]

/-- `load_prefix`: the map grows by at most one fresh entry and the returned prefix is bound to the URI -/
theorem loadPrefix_ok (env : NsEnv) (henv : EnvOK env) (d : Option Str) (u : Str) (M : NsMap)
    (hM : MapOK env d M) (hu : uriOK u = true) :
    Ext M (loadPrefix env u M).2 ∧ MapOK env d (loadPrefix env u M).2
    ∧ dget (loadPrefix env u M).2 (loadPrefix env u M).1 = some u := by
  unfold loadPrefix
  cases hf : findPrefix u M with
  | some p =>
    exact ⟨Ext.refl M, hM, NoDupKeys_dget_of_mem M p u hM.nodup (findPrefix_some u M p hf)⟩
  | none =>
    have hne := findPrefix_none u M hf
    obtain ⟨h1, h2, h3⟩ := generatePrefix_ok env henv d u M hM hu hne
    simp only []
    refine ⟨⟨[(some (generatePrefix env u M).1, u)], h1, by simp⟩, h2, ?_⟩
    rw [h1, dget_append_right _ _ _ h3]
    simp [dget]

end Proofs.MapInv

namespace Proofs.MapInv
open Py Xs.Ns Xs.Sax Spec.XmlNs Spec.Hyps

/-! ### Clark notation vs `split_qname` -/

theorem textSplit_sep (u l : Str) (c : Char) (hu : c ∉ u) (hl : l ≠ []) :
    textSplit (u ++ c :: l) c = (some u, l) := by
  unfold textSplit
  rw [takeWhile_append_sep u l c hu, dropWhile_append_sep u l c hu]
  cases l with
  | nil => exact absurd rfl hl
  | cons x r => simp

theorem takeWhile_dropWhile_id (s : Str) (p : Char → Bool) : s.takeWhile p ++ s.dropWhile p = s :=
  List.takeWhile_append_dropWhile

theorem not_mem_takeWhile_ne (s : Str) (c : Char) : c ∉ s.takeWhile (· ≠ c) := by
  induction s with
  | nil => simp
  | cons x r ih =>
    by_cases hx : x = c
    · simp [List.takeWhile, hx]
    · simp [List.takeWhile, hx]
      exact ⟨fun e => hx e.symm, by simpa using ih⟩

theorem clark_splitQName (q : Str) (n : EName) (h : clark q = some n) : splitQName q = .ok n := by
  cases q with
  | nil => simp [clark, isNCName] at h
  | cons c rest =>
    by_cases hc : c = '{'
    · subst hc
      simp only [clark] at h
      cases hd : rest.dropWhile (· ≠ '}') with
      | nil => rw [hd] at h; simp at h
      | cons b l =>
        rw [hd] at h
        simp only [] at h
        by_cases hcond : (!(rest.takeWhile (· ≠ '}')).isEmpty && isNCName l) = true
        · rw [if_pos hcond] at h
          cases h
          simp only [Bool.and_eq_true, Bool.not_eq_true', ] at hcond
          have hb : b = '}' := by
            have : (b :: l).head? = some b := rfl
            have h2 := List.head?_dropWhile_not (· ≠ '}') rest
            rw [hd] at h2
            simpa using h2
          subst hb
          have hrest : rest = rest.takeWhile (· ≠ '}') ++ '}' :: l := by
            conv => lhs; rw [← takeWhile_dropWhile_id rest (· ≠ '}'), hd]
          have hl : l ≠ [] := isNCName_ne_nil l hcond.2
          simp only [splitQName, if_true]
          rw [hrest, textSplit_sep _ l '}' (not_mem_takeWhile_ne rest '}') hl]
          simp only []
          rw [← hrest]
          have h1 := hcond.1
          simp at h1 ⊢
          exact h1
        · rw [if_neg hcond] at h; cases h
    · have hq : clark (c :: rest) = if isNCName (c :: rest) then some (none, c :: rest) else none := by
        unfold clark
        split
        · rename_i heq; cases heq; exact absurd rfl hc
        · rfl
      rw [hq] at h
      by_cases hn : isNCName (c :: rest) = true
      · simp [hn] at h
        subst h
        simp [splitQName, hc]
      · simp [hn] at h

theorem clark_some_ns (q u l : Str) (h : clark q = some (some u, l)) : u ≠ [] ∧ isNCName l = true := by
  cases q with
  | nil => simp [clark, isNCName] at h
  | cons c rest =>
    by_cases hc : c = '{'
    · subst hc
      simp only [clark] at h
      split at h
      · split at h
        · rename_i hcond
          cases h
          simp only [Bool.and_eq_true, Bool.not_eq_true'] at hcond
          exact ⟨by intro e; rw [e] at hcond; simp at hcond, hcond.2⟩
        · cases h
      · cases h
    · have hq : clark (c :: rest) = if isNCName (c :: rest) then some (none, c :: rest) else none := by
        unfold clark
        split
        · rename_i heq; cases heq; exact absurd rfl hc
        · rfl
      rw [hq] at h
      split at h <;> cases h

theorem clark_none_ns (q l : Str) (h : clark q = some (none, l)) : isNCName l = true := by
  cases q with
  | nil => simp [clark, isNCName] at h
  | cons c rest =>
    by_cases hc : c = '{'
    · subst hc
      simp only [clark] at h
      split at h
      · split at h <;> cases h
      · cases h
    · have hq : clark (c :: rest) = if isNCName (c :: rest) then some (none, c :: rest) else none := by
        unfold clark
        split
        · rename_i heq; cases heq; exact absurd rfl hc
        · rfl
      rw [hq] at h
      split at h
      · rename_i hn; cases h; exact hn
      · cases h

end Proofs.MapInv

namespace Proofs.MapInv
open Py Xs.Ns Xs.Sax Spec.XmlNs Spec.Hyps

/-! ### values -/

theorem xmlChars_append (a b : Str) : xmlChars (a ++ b) = (xmlChars a && xmlChars b) := by
  simp [xmlChars, List.all_append]

theorem declOK_prefix_ncname (p u : Str) (h : declOK (some p, u) = true) : isNCName p = true := by
  simp only [declOK, Bool.and_eq_true] at h
  exact h.1.1.1.1.1

theorem serializeQName_ok (env : NsEnv) (henv : EnvOK env) (d : Option Str) (t : Str) (M : NsMap)
    (hM : MapOK env d M) (ht : qnameTextOK t = true) :
    ∃ s M', serializeQName env t M = .ok (s, M') ∧ Ext M M' ∧ MapOK env d M' ∧ xmlChars s = true := by
  unfold qnameTextOK at ht
  cases hc : clark t with
  | none => rw [hc] at ht; cases ht
  | some n =>
    obtain ⟨uo, l⟩ := n
    rw [hc] at ht
    have hs := clark_splitQName t _ hc
    cases uo with
    | none =>
      refine ⟨l, M, by simp [serializeQName, hs], Ext.refl M, hM, isNCName_xmlChars l (clark_none_ns t l hc)⟩
    | some u =>
      simp only [] at ht
      obtain ⟨hext, hok, hget⟩ := loadPrefix_ok env henv d u M hM ht
      have hl := isNCName_xmlChars l (clark_some_ns t u l hc).2
      unfold serializeQName
      rw [hs]
      simp only []
      generalize hlp : loadPrefix env u M = r at hext hok hget
      obtain ⟨po, M'⟩ := r
      simp only [] at hext hok hget
      cases po with
      | none => exact ⟨l, M', rfl, hext, hok, hl⟩
      | some p =>
        by_cases hp : p.isEmpty = true
        · exact ⟨l, M', by simp [hp], hext, hok, hl⟩
        · refine ⟨p ++ ':' :: l, M', by simp [hp], hext, hok, ?_⟩
          have hpn := declOK_prefix_ncname p u (hok.decl _ (dget_some_mem _ _ _ hget))
          rw [xmlChars_append, isNCName_xmlChars p hpn]
          simp only [xmlChars, List.all_cons, Bool.true_and, Bool.and_eq_true]
          exact ⟨by decide, by simpa [xmlChars] using hl⟩

theorem serializeAtom_ok (env : NsEnv) (henv : EnvOK env) (d : Option Str) (a : Atom) (M : NsMap)
    (hM : MapOK env d M) (ha : atomOK a = true) :
    ∃ s M', serializeAtom env a M = .ok (s, M') ∧ Ext M M' ∧ MapOK env d M' ∧ xmlChars s = true := by
  cases a with
  | str s => exact ⟨s, M, rfl, Ext.refl M, hM, ha⟩
  | qname t => exact serializeQName_ok env henv d t M hM ha
  | int i => cases ha
  | bool b => cases ha

theorem xmlChars_joinStr (ss : List Str) (h : ∀ s ∈ ss, xmlChars s = true) : xmlChars (joinStr [' '] ss) = true := by
  induction ss with
  | nil => rfl
  | cons x r ih =>
    cases r with
    | nil => simpa [joinStr] using h x (by simp)
    | cons y r' =>
      simp only [joinStr]
      rw [xmlChars_append, xmlChars_append, h x (by simp), ih (fun s hs => h s (List.mem_cons_of_mem _ hs))]
      decide

theorem serializeAtoms_ok (env : NsEnv) (henv : EnvOK env) (d : Option Str) (xs : List Atom) :
    ∀ (M : NsMap), MapOK env d M → xs.all atomOK = true →
    ∃ ss M', serializeAtoms env xs M = .ok (ss, M') ∧ Ext M M' ∧ MapOK env d M' ∧ ∀ s ∈ ss, xmlChars s = true := by
  induction xs with
  | nil => intro M hM _; exact ⟨[], M, rfl, Ext.refl M, hM, by simp⟩
  | cons a r ih =>
    intro M hM h
    simp only [List.all_cons, Bool.and_eq_true] at h
    obtain ⟨s, M1, h1, e1, ok1, x1⟩ := serializeAtom_ok env henv d a M hM h.1
    obtain ⟨ss, M2, h2, e2, ok2, x2⟩ := ih M1 ok1 h.2
    refine ⟨s :: ss, M2, by simp [serializeAtoms, h1, h2], e1.trans e2, ok2, ?_⟩
    intro y hy
    rcases List.mem_cons.mp hy with rfl | hm
    · exact x1
    · exact x2 y hm

/-- `encode_data`: succeeds on generator-produced values, only appends fresh prefixes, yields XML characters -/
theorem encodeData_ok (env : NsEnv) (henv : EnvOK env) (d : Option Str) (v : Val) (M : NsMap)
    (hM : MapOK env d M) (hv : valOK v = true) :
    ∃ val M', encodeData env v M = .ok (val, M') ∧ Ext M M' ∧ MapOK env d M' ∧ ∀ s, val = some s → xmlChars s = true := by
  cases v with
  | none => exact ⟨none, M, rfl, Ext.refl M, hM, by simp⟩
  | atom a =>
    cases a with
    | str s => exact ⟨some s, M, rfl, Ext.refl M, hM, by intro s' h; cases h; exact hv⟩
    | qname t =>
      obtain ⟨s, M', h1, e1, ok1, x1⟩ := serializeQName_ok env henv d t M hM hv
      exact ⟨some s, M', by simp [encodeData, serializeAtom, h1], e1, ok1, by intro s' h; cases h; exact x1⟩
    | int i => cases hv
    | bool b => cases hv
  | list xs =>
    cases xs with
    | nil => exact ⟨none, M, rfl, Ext.refl M, hM, by simp⟩
    | cons a r =>
      obtain ⟨ss, M', h1, e1, ok1, x1⟩ := serializeAtoms_ok env henv d (a :: r) M hM hv
      exact ⟨some (joinStr [' '] ss), M', by simp [encodeData, h1], e1, ok1,
        by intro s' h; cases h; exact xmlChars_joinStr ss x1⟩

end Proofs.MapInv

namespace Proofs.MapInv
open Py Xs.Ns Xs.Sax Xs.Writer Spec.XmlNs Spec.Hyps

/-! ### add_namespace, attributes -/

theorem prefixExists_of_mem (u : Str) (M : NsMap) (e : Pfx × Str) (he : e ∈ M) (h : e.2 = u) :
    prefixExists u M = true := by
  simp only [prefixExists, List.any_eq_true, decide_eq_true_eq]
  exact ⟨e, he, h⟩

theorem prefixExists_ext (u : Str) (M M' : NsMap) (h : Ext M M') (hp : prefixExists u M = true) :
    prefixExists u M' = true := by
  obtain ⟨X, rfl, _⟩ := h
  simp only [prefixExists, List.any_eq_true, decide_eq_true_eq] at hp ⊢
  obtain ⟨e, he, heq⟩ := hp
  exact ⟨e, List.mem_append_left _ he, heq⟩

theorem addNamespace_ok (env : NsEnv) (henv : EnvOK env) (d : Option Str) (uo : Option Str) (M : NsMap)
    (hM : MapOK env d M) (hu : nsPartOK uo = true) :
    Ext M (addNamespace env uo M) ∧ MapOK env d (addNamespace env uo M)
    ∧ ∀ u, uo = some u → prefixExists u (addNamespace env uo M) = true := by
  cases uo with
  | none => exact ⟨Ext.refl M, hM, by simp⟩
  | some u =>
    simp only [nsPartOK] at hu
    have hne : u.isEmpty = false := by
      simp only [uriOK, Bool.and_eq_true, Bool.not_eq_true'] at hu
      exact hu.1.1
    unfold addNamespace
    by_cases hp : prefixExists u M = true
    · simp only [hne, hp, Bool.not_false, Bool.not_true, Bool.and_false]
      exact ⟨Ext.refl M, hM, by intro u' h; cases h; exact hp⟩
    · have hp' : prefixExists u M = false := by simpa using hp
      simp only [hne, hp', Bool.not_false, Bool.and_self, if_true]
      obtain ⟨h1, h2, _⟩ := generatePrefix_ok env henv d u M hM hu hp'
      refine ⟨⟨[(some (generatePrefix env u M).1, u)], h1, by simp⟩, h2, ?_⟩
      intro u' h; cases h
      rw [h1]
      exact prefixExists_of_mem u _ (some (generatePrefix env u M).1, u) (by simp) rfl

theorem addAttrNamespaces_ok (env : NsEnv) (henv : EnvOK env) (d : Option Str) (A : List (EName × Option Str)) :
    ∀ (M : NsMap), MapOK env d M → (∀ e ∈ A, nsPartOK e.1.1 = true) →
    Ext M (addAttrNamespaces env A M) ∧ MapOK env d (addAttrNamespaces env A M)
    ∧ ∀ e ∈ A, ∀ u, e.1.1 = some u → prefixExists u (addAttrNamespaces env A M) = true := by
  induction A with
  | nil => intro M hM _; exact ⟨Ext.refl M, hM, by simp⟩
  | cons a r ih =>
    obtain ⟨n, v⟩ := a
    intro M hM h
    obtain ⟨e1, ok1, p1⟩ := addNamespace_ok env henv d n.1 M hM (h (n, v) (by simp))
    obtain ⟨e2, ok2, p2⟩ := ih (addNamespace env n.1 M) ok1 (fun e he => h e (List.mem_cons_of_mem _ he))
    simp only [addAttrNamespaces]
    refine ⟨e1.trans e2, ok2, ?_⟩
    intro e he u hu
    rcases List.mem_cons.mp he with rfl | hm
    · exact prefixExists_ext u _ _ e2 (p1 u hu)
    · exact p2 e hm u hu

end Proofs.MapInv
